"""Value provenance ("where does this value come from"): reaching definitions
on the statement CFG plus interprocedural substitution of parameters by the
actual arguments of the callers, so that a rule about *which value* reaches a
construct is independent of local names, of temporaries, of tuple unpacking and
of a block having been moved into a helper.

A term is a nested tuple:

  ('param', qual, name)        parameter of a function without callers in the pool
  ('self',)                    the receiver
  ('const', value)
  ('global', dotted)           module-level name / import
  ('attr', T, name)            T.name
  ('item', T, key)             T[key] for a constant key, T.get(key)
  ('index', T, K)              T[K] for a computed key
  ('elem', T)                  an element of iterating T
  ('pos', T, i)                position i of a tuple-like T
  ('key', T) / ('val', T)      of T.items()
  ('call', name, recv, args)   result of a call (name: dotted or attribute name)
  ('op', opname, operands...)  operators, displays, f-strings
  ('unknown', text)
"""
import ast

from .cfg import cfg_of
from .model import norm, parents, walk_own, enclosing, stmt_of
from .util import calls_in

PASS_THROUGH = {"list", "tuple", "iter"}
MAX_TERMS = 24


def show(t):
    k = t[0]
    if k == "param":
        return "%s" % t[2]
    if k == "self":
        return "self"
    if k == "const":
        return repr(t[1])
    if k == "global":
        return t[1]
    if k == "attr":
        return "%s.%s" % (show(t[1]), t[2])
    if k == "item":
        return "%s[%r]" % (show(t[1]), t[2])
    if k == "index":
        return "%s[%s]" % (show(t[1]), show(t[2]))
    if k == "elem":
        return "each(%s)" % show(t[1])
    if k == "pos":
        return "%s.%d" % (show(t[1]), t[2])
    if k in ("key", "val"):
        return "%s(%s)" % (k, show(t[1]))
    if k == "call":
        return "%s%s(%s)" % ((show(t[2]) + ".") if t[2] is not None else "", t[1], ", ".join(show(a) for a in t[3]))
    if k == "op":
        return "%s(%s)" % (t[1], ", ".join(show(a) for a in t[2:]))
    if k == "alt":
        return " | ".join(show(a) for a in t[1:])
    return "?%s" % (t[1],)


def _one(ts, node):
    """A single term for a set of alternatives."""
    if len(ts) == 1:
        return next(iter(ts))
    if not ts or len(ts) > MAX_TERMS:
        return ("unknown", norm(node)[:40])
    return ("alt",) + tuple(sorted(ts, key=repr))


def _targets(t, path=()):
    """(name, path) for every Name bound by an assignment target; path is the
    sequence of tuple positions leading to it."""
    if isinstance(t, ast.Name):
        yield t.id, path
    elif isinstance(t, (ast.Tuple, ast.List)):
        for i, e in enumerate(t.elts):
            if isinstance(e, ast.Starred):
                yield from _targets(e.value, path + ("*",))
            else:
                yield from _targets(e, path + (i,))


class ReachingDefs:
    """name -> set of definitions reaching the entry of each CFG node.  A
    definition is (kind, node, path): kind in assign / aug / for / with /
    handler / import / def / param."""

    def __init__(self, func):
        self.func = func
        self.cfg = cfg_of(func)
        self.defs_at = {}
        for n in self.cfg.nodes:
            self.defs_at[n.id] = self._defs(n)
        self.IN = {}
        self._solve()

    def _defs(self, n):
        st = n.stmt
        out = {}
        if st is None:
            return out

        def add(name, d):
            out.setdefault(name, set()).add(d)
        if n.kind == "loop" and isinstance(st, (ast.For, ast.AsyncFor)):
            for name, path in _targets(st.target):
                add(name, ("for", st, path))
        elif n.kind == "with":
            for item in st.items:
                if item.optional_vars is not None:
                    for name, path in _targets(item.optional_vars):
                        add(name, ("with", item, path))
        elif n.kind == "handler":
            if st.name:
                add(st.name, ("handler", st, ()))
        elif n.kind == "stmt":
            if isinstance(st, ast.Assign):
                for t in st.targets:
                    for name, path in _targets(t):
                        add(name, ("assign", st, path))
            elif isinstance(st, ast.AnnAssign) and st.value is not None:
                for name, path in _targets(st.target):
                    add(name, ("assign", st, path))
            elif isinstance(st, ast.AugAssign):
                for name, path in _targets(st.target):
                    add(name, ("aug", st, path))
            elif isinstance(st, (ast.Import, ast.ImportFrom)):
                for al in st.names:
                    add((al.asname or al.name).split(".")[0], ("import", st, ()))
            elif isinstance(st, (ast.FunctionDef, ast.ClassDef)):
                add(st.name, ("def", st, ()))
        # walrus
        for x in (ast.walk(st) if n.kind == "stmt" else []):
            if isinstance(x, ast.NamedExpr) and isinstance(x.target, ast.Name):
                add(x.target.id, ("walrus", x, ()))
        return out

    def _solve(self):
        cfg = self.cfg
        entry = {p: {("param", self.func.node, ())} for p in self.func.params}
        IN = {cfg.entry.id: entry}
        work = [cfg.entry.id]
        while work:
            nid = work.pop()
            cur = IN.get(nid, {})
            out = dict(cur)
            for name, ds in self.defs_at[nid].items():
                if any(d[0] == "aug" for d in ds):
                    out[name] = set(ds)
                else:
                    out[name] = set(ds)
            for m, _l in cfg.succ[nid]:
                old = IN.get(m)
                if old is None:
                    IN[m] = {k: set(v) for k, v in out.items()}
                    work.append(m)
                    continue
                changed = False
                for k, v in out.items():
                    if k not in old:
                        old[k] = set(v)
                        changed = True
                    elif not v <= old[k]:
                        old[k] |= v
                        changed = True
                if changed:
                    work.append(m)
        self.IN = IN

    def reaching(self, name, at_node):
        """Definitions of `name` reaching the statement that contains at_node."""
        n = self.cfg.node_for(at_node)
        if n is None:
            return None
        return set(self.IN.get(n.id, {}).get(name, set()))


def rdefs(func):
    r = getattr(func, "_rdefs", None)
    if r is None:
        r = ReachingDefs(func)
        func._rdefs = r
    return r


class Flow:
    def __init__(self, ctx, pool, depth=12, rows=True):
        """pool: the functions among which parameters are substituted by the
        arguments of their callers."""
        self.ctx = ctx
        self.proj = ctx.proj
        self.pool = list(pool)
        self.depth = depth
        self._callers = None
        self.rows = rows
        self.exec_calls = {}

    # ----------------------------------------------------------- call sites
    def callers(self, func):
        if self._callers is None:
            self._callers = {}
            for f in self.pool:
                for c in calls_in(f.node, own=True):
                    fs, _d = self.proj.resolve_call(c, f)
                    for g in fs:
                        self._callers.setdefault(g.qual, []).append((f, c))
        return self._callers.get(func.qual, [])

    @staticmethod
    def bind_args(call, g, is_method_call):
        """param name -> actual argument expression (None when not determinable)."""
        params = list(g.params)
        a = g.node.args
        if g.cls is not None and params and params[0] in ("self", "cls") and is_method_call:
            params = params[1:]
        out = {}
        if any(isinstance(x, ast.Starred) for x in call.args) or any(k.arg is None for k in call.keywords):
            return None
        for p, x in zip(params, call.args):
            out[p] = x
        for k in call.keywords:
            out[k.arg] = k.value
        defaults = g.param_defaults()
        for p in params:
            if p not in out and defaults.get(p) is not None:
                out[p] = defaults[p]
        return out

    # ---------------------------------------------------------------- terms
    def terms(self, expr, func, depth=0, env=None, seen=()):
        """Set of terms the expression may evaluate to."""
        if depth > self.depth:
            return {("unknown", "depth")}
        out = self._terms(expr, func, depth, env or {}, seen)
        if len(out) > MAX_TERMS:
            return {("unknown", "many")}
        return out

    def _comp_binding(self, name_node, func):
        """If the Name is bound by an enclosing comprehension/lambda return ('comp', comprehension, path)."""
        child = name_node
        for p in parents(name_node):
            if p is func.node:
                break
            if isinstance(p, (ast.ListComp, ast.SetComp, ast.GeneratorExp, ast.DictComp)):
                for g in p.generators:
                    for nm, path in _targets(g.target):
                        if nm == name_node.id:
                            # the iter of the first generator is evaluated outside; names in it are not bound by it
                            if g is p.generators[0] and (child is g.iter or any(child is x for x in ast.walk(g.iter))):
                                continue
                            return ("comp", g, path)
            if isinstance(p, ast.Lambda):
                if any(a.arg == name_node.id for a in p.args.args):
                    return ("lambda", p, ())
            child = p
        return None

    def _project(self, ts, path):
        out = set()
        for t in ts:
            cur = t
            for i in path:
                if i == "*":
                    cur = ("op", "rest", cur)
                elif cur[0] == "op" and cur[1] in ("tuple", "list") and isinstance(i, int) and -(len(cur) - 2) <= i < len(cur) - 2:
                    cur = cur[2 + i] if i >= 0 else cur[len(cur) + i]
                else:
                    cur = ("pos", cur, i)
            out.add(cur)
        return out

    def row_of(self, recv_expr, at_node, func, depth, env, seen):
        """('row', key) when an execute on the same receiver dominates at_node (the closest one): the rows being
        read are those of that statement.  key -> (func, call) in self.exec_calls."""
        if isinstance(recv_expr, ast.Call) and isinstance(recv_expr.func, ast.Attribute) and recv_expr.func.attr == "execute":
            key = (func.qual, recv_expr.lineno, recv_expr.col_offset)
            self.exec_calls[key] = (func, recv_expr)
            return ("row", key)
        rt = self.terms(recv_expr, func, depth, env, seen)
        cfg = cfg_of(func)
        tn = cfg.node_for(at_node)
        if tn is None:
            return None
        cands = []
        for c in calls_in(func.node, own=True):
            if isinstance(c.func, ast.Attribute) and c.func.attr == "execute" and c.args:
                if norm(c.func.value) == norm(recv_expr) or self.terms(c.func.value, func, depth, env, seen) == rt:
                    cn = cfg.node_for(c)
                    if cn is not None and cn.id != tn.id and cfg.dominates(cn.id, tn.id):
                        cands.append((cn.id, c))
        if not cands:
            return None
        # the closest dominating one: dominated by all the others
        best = None
        for cid, c in cands:
            if all(cfg.dominates(o, cid) for o, _c in cands):
                best = c
        if best is None:
            return None
        # no other execute on the receiver may intervene on a path from it to the read
        a_, b_ = cfg.node_for(best).id, tn.id
        fwd, stack = set(), [m for m, _l in cfg.succ[a_]]
        while stack:
            n_ = stack.pop()
            if n_ in fwd or n_ in (a_, b_):
                continue
            fwd.add(n_)
            stack.extend(m for m, _l in cfg.succ[n_])
        back, stack = set(), [m for m, _l in cfg.pred[b_]]
        while stack:
            n_ = stack.pop()
            if n_ in back or n_ in (a_, b_):
                continue
            back.add(n_)
            stack.extend(m for m, _l in cfg.pred[n_])
        between = fwd & back
        for c in calls_in(func.node, own=True):
            if c is best or not (isinstance(c.func, ast.Attribute) and c.func.attr in ("execute", "executemany", "executescript")):
                continue
            if norm(c.func.value) != norm(recv_expr):
                continue
            cn = cfg.node_for(c)
            if cn is not None and cn.id in between:
                return None
        key = (func.qual, best.lineno, best.col_offset)
        self.exec_calls[key] = (func, best)
        return ("row", key)

    def _iter_elem(self, it_expr, func, depth, env, seen):
        """Terms for one element of iterating it_expr."""
        if self.rows and isinstance(it_expr, (ast.Name, ast.Attribute)) or (self.rows and isinstance(it_expr, ast.Call) and isinstance(it_expr.func, ast.Attribute)
                                                                          and it_expr.func.attr in ("execute", "fetchall")):
            recv = it_expr.func.value if isinstance(it_expr, ast.Call) and it_expr.func.attr == "fetchall" else it_expr
            r = self.row_of(recv, it_expr, func, depth, env, seen)
            if r is not None:
                return {r}
        if isinstance(it_expr, ast.Call) and isinstance(it_expr.func, ast.Name):
            n = it_expr.func.id
            if n == "enumerate" and it_expr.args:
                inner = self._iter_elem(it_expr.args[0], func, depth, env, seen)
                return {("op", "tuple", ("op", "index"), e) for e in inner}
            if n == "zip" and it_expr.args:
                cols = [self._iter_elem(a, func, depth, env, seen) for a in it_expr.args]
                if all(len(c) == 1 for c in cols):
                    return {("op", "tuple") + tuple(next(iter(c)) for c in cols)}
            if n in ("sorted", "reversed", "list", "tuple", "iter", "set") and it_expr.args:
                return self._iter_elem(it_expr.args[0], func, depth, env, seen)
        if isinstance(it_expr, ast.Call) and isinstance(it_expr.func, ast.Attribute) and it_expr.func.attr in ("items", "keys", "values") and not it_expr.args:
            base = self.terms(it_expr.func.value, func, depth, env, seen)
            if it_expr.func.attr == "items":
                return {("op", "tuple", ("key", b), ("val", b)) for b in base}
            return {(("key" if it_expr.func.attr == "keys" else "val"), b) for b in base}
        out = set()
        for t in self.terms(it_expr, func, depth, env, seen):
            if t[0] == "op" and t[1] in ("tuple", "list"):
                out |= set(t[2:])
            elif t[0] == "op" and t[1] == "listcomp":
                out.add(t[2])
            else:
                out.add(("elem", t))
        return out

    def _terms(self, e, func, depth, env, seen):
        T = lambda x: self.terms(x, func, depth, env, seen)
        if e is None:
            return {("const", None)}
        if isinstance(e, ast.Constant):
            return {("const", e.value)}
        if isinstance(e, ast.Name):
            return self._name(e, func, depth, env, seen)
        if isinstance(e, ast.Attribute):
            d = self.proj.dotted(e, func.module, func)
            if d is not None and not d.startswith("$"):
                return {("global", d)}
            return {("attr", b, e.attr) for b in T(e.value)}
        if isinstance(e, ast.Subscript):
            base = T(e.value)
            k = e.slice
            if isinstance(k, ast.Slice):
                return {("op", "slice", b, ("const", norm(k))) for b in base}
            if isinstance(k, ast.Constant):
                out = set()
                for b in base:
                    if isinstance(k.value, int) and not isinstance(k.value, bool):
                        out |= self._project({b}, (k.value,))
                    else:
                        out.add(("item", b, k.value))
                return out
            return {("index", b, kk) for b in base for kk in T(k)}
        if isinstance(e, (ast.Tuple, ast.List)):
            if any(isinstance(x, ast.Starred) for x in e.elts):
                return {("unknown", norm(e))}
            cols = [T(x) for x in e.elts]
            head = ("op", "tuple" if isinstance(e, ast.Tuple) else "list")
            n_alt = 1
            for c in cols:
                n_alt *= max(1, len(c))
            if n_alt > MAX_TERMS:
                # too many combinations: one display whose elements carry their alternatives
                return {head + tuple(next(iter(c)) if len(c) == 1 else ("alt",) + tuple(sorted(c, key=repr)) for c in cols)}
            out = {head}
            for c in cols:
                out = {o + (t,) for o in out for t in c}
            return out
        if isinstance(e, (ast.ListComp, ast.GeneratorExp, ast.SetComp)):
            return {("op", "listcomp", t) for t in T(e.elt)}
        if isinstance(e, ast.IfExp):
            return T(e.body) | T(e.orelse)
        if isinstance(e, ast.BoolOp):
            out = set()
            for v in e.values:
                out |= T(v)
            return out
        if isinstance(e, ast.NamedExpr):
            return T(e.value)
        if isinstance(e, ast.Starred):
            return {("op", "splat", t) for t in T(e.value)}
        if isinstance(e, ast.Call):
            return self._call(e, func, depth, env, seen)
        if isinstance(e, ast.BinOp):
            l, r = T(e.left), T(e.right)
            return {("op", type(e.op).__name__, a, b) for a in l for b in r}
        if isinstance(e, ast.UnaryOp):
            return {("op", type(e.op).__name__, a) for a in T(e.operand)}
        if isinstance(e, ast.Compare):
            return {("op", "cmp", ("const", norm(e)))}
        if isinstance(e, ast.JoinedStr):
            parts = []
            for v in e.values:
                if isinstance(v, ast.Constant):
                    parts.append(("const", v.value))
                elif isinstance(v, ast.FormattedValue) and v.format_spec is None:
                    parts.append(_one(T(v.value), v.value))
                else:
                    return {("op", "fstring", ("unknown", norm(e)))}
            return {("op", "fstring") + tuple(parts)}
        if isinstance(e, ast.Dict):
            items = []
            for k, v in zip(e.keys, e.values):
                if k is None:
                    return {("op", "dict", ("unknown", norm(e)))}
                kt, vt = T(k), T(v)
                items.append(("op", "kv", _one(kt, k), _one(vt, v)))
            return {("op", "dict") + tuple(items)}
        if isinstance(e, ast.Lambda):
            return {("op", "lambda", ("const", norm(e)))}
        return {("unknown", norm(e)[:40])}

    def _name(self, e, func, depth, env, seen):
        name = e.id
        cb = self._comp_binding(e, func)
        if cb is not None:
            if cb[0] == "lambda":
                return {("unknown", "lambda arg %s" % name)}
            g = cb[1]
            elems = self._iter_elem(g.iter, func, depth + 1, env, seen)
            return self._project(elems, cb[2])
        f = func
        # a free variable of a nested function: resolve in the enclosing function (flow-insensitively)
        while f is not None and name not in f.locals:
            f = f.parent
        if f is None:
            d = self.proj.dotted(e, func.module, func)
            if d is not None:
                return {("global", d)}
            return {("global", name)}
        if f is not func:
            return self._all_defs(name, f, depth, env, seen)
        if name == "self" and func.cls is not None and func.params and func.params[0] == "self":
            return {("self",)}
        rd = rdefs(func)
        ds = rd.reaching(name, e)
        if ds is None or not ds:
            return self._all_defs(name, func, depth, env, seen)
        out = set()
        for d in ds:
            out |= self._def_terms(d, name, func, depth, env, seen)
        return out

    def _all_defs(self, name, f, depth, env, seen):
        out = set()
        rd = rdefs(f)
        found = False
        if name in f.params:
            out |= self._def_terms(("param", f.node, ()), name, f, depth, env, seen)
            found = True
        for nid, ds in rd.defs_at.items():
            for d in ds.get(name, ()):
                out |= self._def_terms(d, name, f, depth, env, seen)
                found = True
        if not found:
            return {("unknown", name)}
        return out

    def _def_terms(self, d, name, func, depth, env, seen):
        kind, node, path = d
        if depth > self.depth:
            return {("unknown", "depth")}
        if kind == "param":
            if name in env:
                return env[name]
            if name == "self" and func.cls is not None:
                return {("self",)}
            key = (func.qual, name)
            if key in seen:
                return {("unknown", "recursive %s" % name)}
            cs = self.callers(func)
            out = set()
            for caller, call in cs:
                if caller.qual == func.qual:
                    continue
                b = self.bind_args(call, func, isinstance(call.func, ast.Attribute) or self._is_ctor(call, caller))
                if b is None or name not in b:
                    out.add(("unknown", "argument of %s at line %s" % (name, call.lineno)))
                    continue
                x = b[name]
                # a default value is evaluated in the callee's module
                owner = caller if any(x is y for y in ast.walk(call)) else func
                out |= self.terms(x, owner, depth + 1, None, seen + (key,))
            if not cs or not out:
                a = func.node.args
                if a.vararg and a.vararg.arg == name or a.kwarg and a.kwarg.arg == name:
                    return {("param", func.qual, name)}
                return {("param", func.qual, name)}
            return out
        if kind == "assign":
            val = node.value
            if isinstance(val, ast.List) and not val.elts and not path:
                # a list filled by appends: a collection whose elements are the appended values
                apps = [c for c in calls_in(func.node, own=True) if isinstance(c.func, ast.Attribute) and c.func.attr == "append" and c.args
                        and isinstance(c.func.value, ast.Name) and c.func.value.id == name]
                if apps:
                    out = set()
                    for c in apps:
                        out |= {("op", "listcomp", t) for t in self.terms(c.args[0], func, depth + 1, env, seen)}
                    return out
            ts = self.terms(val, func, depth + 1, env, seen)
            return self._project(ts, path)
        if kind == "aug":
            key = ("aug", id(node))
            if key in seen or depth > self.depth:
                return {("unknown", "loop-carried %s" % name)}
            seen = seen + (key,)
            prev = set()
            rd = rdefs(func)
            n = rd.cfg.node_for(node)
            for d2 in rd.IN.get(n.id, {}).get(name, set()):
                if d2 != d:
                    prev |= self._def_terms(d2, name, func, depth + 1, env, seen)
            cur = self.terms(node.value, func, depth + 1, env, seen)
            return {("op", type(node.op).__name__, a, b) for a in (prev or {("unknown", name)}) for b in cur}
        if kind == "for":
            elems = self._iter_elem(node.iter, func, depth + 1, env, seen)
            return self._project(elems, path)
        if kind == "with":
            ts = self.terms(node.context_expr, func, depth + 1, env, seen)
            return self._project({("op", "enter", t) for t in ts}, path)
        if kind == "walrus":
            return self.terms(node.value, func, depth + 1, env, seen)
        if kind == "import":
            d_ = self.proj.dotted(ast.Name(id=name, ctx=ast.Load()), func.module, func)
            return {("global", d_ or name)}
        if kind == "def":
            return {("global", "%s.<local %s>" % (func.qual, name))}
        return {("unknown", "%s %s" % (kind, name))}

    def _is_ctor(self, call, caller):
        _fs, d = self.proj.resolve_call(call, caller)
        return d in self.proj.classes

    def _call(self, e, func, depth, env, seen):
        T = lambda x: self.terms(x, func, depth, env, seen)
        f = e.func
        if isinstance(f, ast.Name) and f.id in PASS_THROUGH and len(e.args) == 1 and not e.keywords and self._comp_binding(f, func) is None \
                and f.id not in func.locals:
            return T(e.args[0])
        if isinstance(f, ast.Attribute) and f.attr == "get" and e.args and isinstance(e.args[0], ast.Constant):
            out = {("item", b, e.args[0].value) for b in T(f.value)}
            if len(e.args) > 1:
                out |= T(e.args[1])
            return out
        if isinstance(f, ast.Attribute) and f.attr in ("copy",) and not e.args:
            return T(f.value)
        if self.rows and isinstance(f, ast.Attribute) and f.attr == "fetchone" and not e.args:
            r = self.row_of(f.value, e, func, depth, env, seen)
            if r is not None:
                return {r}
        if isinstance(f, ast.Name) and f.id == "getattr" and len(e.args) >= 2 and isinstance(e.args[1], ast.Constant) and isinstance(e.args[1].value, str):
            return {("attr", b, e.args[1].value) for b in T(e.args[0])}
        funcs, d = self.proj.resolve_call(e, func)
        # a package function in the pool: its returned values, with the parameters bound to the arguments
        inl = [g for g in funcs if any(g is p for p in self.pool)]
        if len(funcs) == 1 and inl and d not in self.proj.classes and depth + 2 <= self.depth:
            g = funcs[0]
            key = ("ret", g.qual)
            if key not in seen:
                b = self.bind_args(e, g, isinstance(f, ast.Attribute))
                if b is not None:
                    cenv = {}
                    for p, x in b.items():
                        owner = func if any(x is y for y in ast.walk(e)) else g
                        cenv[p] = self.terms(x, owner, depth + 1, env if owner is func else None, seen)
                    rets = [n for n in walk_own(g.node) if isinstance(n, ast.Return) and n.value is not None]
                    ys = [n for n in walk_own(g.node) if isinstance(n, (ast.Yield, ast.YieldFrom))]
                    if rets and not ys:
                        out = set()
                        for r in rets:
                            out |= self.terms(r.value, g, depth + 2, cenv, seen + (key,))
                        return out
        name = d if d is not None and not d.startswith("$") else (f.attr if isinstance(f, ast.Attribute) else (f.id if isinstance(f, ast.Name) else norm(f)))
        recv = None
        if isinstance(f, ast.Attribute) and (d is None or d.startswith("$")):
            rs = T(f.value)
            recv = _one(rs, f.value)
        args = []
        for a in e.args:
            ts = T(a)
            args.append(_one(ts, a))
        for k in e.keywords:
            ts = T(k.value)
            args.append(("op", "kw", ("const", k.arg), _one(ts, k.value)))
        return {("call", name, recv, tuple(args))}


def match(term, pattern, binds=None):
    """Structural match; pattern elements: '_' any, ('?', name) capture,
    ('|', p1, p2, ...) alternatives."""
    binds = {} if binds is None else binds
    if pattern == "_":
        return True
    if isinstance(pattern, tuple) and pattern and pattern[0] == "?":
        if pattern[1] in binds:
            return binds[pattern[1]] == term
        binds[pattern[1]] = term
        return True
    if isinstance(pattern, tuple) and pattern and pattern[0] == "|":
        for p in pattern[1:]:
            b = dict(binds)
            if match(term, p, b):
                binds.update(b)
                return True
        return False
    if isinstance(pattern, tuple) and isinstance(term, tuple):
        if len(pattern) != len(term):
            return False
        return all(match(t, p, binds) for t, p in zip(term, pattern))
    return term == pattern


def text_parts(t):
    """A string-building term as a flat list of parts: python str for literal text, terms for inserted values.
    Understands %-formatting with %s/%d, +, str.join over a display, str.format with {} / {0}, f-strings, str(x).
    None when the term is not of that kind."""
    k = t[0]
    if k == "const":
        return [t[1]] if isinstance(t[1], str) else [t]
    if k == "op" and t[1] == "Add":
        a, b = text_parts(t[2]), text_parts(t[3])
        return None if a is None or b is None else _merge(a + b)
    if k == "op" and t[1] == "Mod" and t[2][0] == "const" and isinstance(t[2][1], str):
        args = list(t[3][2:]) if t[3][0] == "op" and t[3][1] == "tuple" else [t[3]]
        import re
        pieces = re.split(r"(%[sd]|%%)", t[2][1])
        out = []
        for p in pieces:
            if p in ("%s", "%d"):
                if not args:
                    return None
                sub = text_parts(args.pop(0))
                out += sub if sub is not None else [None]
            elif p == "%%":
                out.append("%")
            elif p:
                if "%" in p:
                    return None
                out.append(p)
        if args or None in out:
            return None
        return _merge(out)
    if k == "op" and t[1] == "fstring":
        out = []
        for p in t[2:]:
            sub = text_parts(p)
            if sub is None:
                return None
            out += sub
        return _merge(out)
    if k == "call" and t[1] == "str" and t[2] is None and len(t[3]) == 1:
        return text_parts(t[3][0]) if t[3][0][0] in ("const",) else [t[3][0]]
    if k == "call" and t[1] == "join" and t[2] is not None and t[2][0] == "const" and len(t[3]) == 1 and t[3][0][0] == "op" and t[3][0][1] in ("list", "tuple"):
        out = []
        for i, x in enumerate(t[3][0][2:]):
            if i:
                out.append(t[2][1])
            sub = text_parts(x)
            if sub is None:
                return None
            out += sub
        return _merge(out)
    if k == "call" and t[1] == "format" and t[2] is not None and t[2][0] == "const" and isinstance(t[2][1], str):
        import re
        out, auto = [], 0
        for p in re.split(r"(\{[^{}]*\})", t[2][1]):
            if p.startswith("{") and p.endswith("}"):
                fld = p[1:-1].split("!")[0]
                if ":" in fld:
                    return None
                if fld == "":
                    idx = auto
                    auto += 1
                elif fld.isdigit():
                    idx = int(fld)
                else:
                    return None
                if idx >= len(t[3]):
                    return None
                sub = text_parts(t[3][idx])
                if sub is None:
                    return None
                out += sub
            elif p:
                out.append(p)
        return _merge(out)
    if k in ("attr", "item", "index", "pos", "elem", "param", "row", "call", "key", "val"):
        return [t]
    return None


def _merge(parts):
    out = []
    for p in parts:
        if isinstance(p, str) and out and isinstance(out[-1], str):
            out[-1] += p
        elif p != "":
            out.append(p)
    return out
