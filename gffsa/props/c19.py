"""C19 -- existing databases are never clobbered; queries never write."""
import ast

from .. import sql as S
from ..callgraph import Effects
from ..cfg import cfg_of
from ..model import norm
from ..util import require_func, calls_in, call_attr, guards_of

READ_API = [
    "__getitem__", "all_features", "features_of_type", "iter_by_parent_childs", "children", "parents", "_relation",
    "region", "interfeatures", "create_introns", "create_splice_sites", "merge", "children_bp", "bed12",
    "count_features_of_type", "featuretypes", "seqids", "schema",
]
WRITE_VERBS = {"INSERT", "UPDATE", "DELETE", "CREATE TABLE", "CREATE INDEX", "DROP INDEX", "DROP TABLE", "ANALYZE", "PRAGMA", "REPLACE"}


def r1(ctx):
    script = ctx.folder.const("constants", "SCHEMA")
    stmts = S.parse_script(script)
    tables = [s for s in stmts if s.verb == "CREATE TABLE"]
    ctx.floor("R1", len(tables), 6, "CREATE TABLE statements in SCHEMA")
    for t in tables:
        ctx.ob("R1", not t.if_not_exists, "CREATE TABLE %s is unconditional: creating a database over an existing one fails" % t.table,
               node=ctx.proj.module("constants").toplevel.get("SCHEMA"), sig="CREATE TABLE %s%s" % ("IF NOT EXISTS " if t.if_not_exists else "", t.table))
    ctx.ob("R1", stmts and stmts[0].verb == "CREATE TABLE" and all(s.verb == "CREATE TABLE" for s in stmts),
           "the schema script consists of CREATE TABLE statements only (no DROP)", node=ctx.proj.module("constants").toplevel.get("SCHEMA"),
           sig="SCHEMA verbs %s" % sorted({s.verb for s in stmts}), nontrivial=False)
    cr = require_func(ctx, "create._DBCreator.create")
    cfg = cfg_of(cr)
    it = [c for c in calls_in(cr.node) if call_attr(c) == "_init_tables"]
    pop = [c for c in calls_in(cr.node) if call_attr(c) == "_populate_from_lines"]
    ctx.require(it and pop, "create() no longer calls _init_tables and _populate_from_lines")
    ok = cfg.dominates(cfg.node_for(it[0]).id, cfg.node_for(pop[0]).id) and cfg.node_for(it[0]).id != cfg.node_for(pop[0]).id
    ctx.ob("R1", ok, "tables are created before any row is written", func=cr,
           sig="_init_tables dominates _populate_from_lines" if ok else "rows can be written before the schema is created")
    init = require_func(ctx, "create._DBCreator._init_tables")
    scr = [c for c in calls_in(init.node) if call_attr(c) == "executescript" and c.args and norm(c.args[0]) == "constants.SCHEMA"]
    ctx.ob("R1", bool(scr), "_init_tables runs the SCHEMA script", func=init, sig="_init_tables executes constants.SCHEMA" if scr else "_init_tables does not run SCHEMA")
    guarded = [c for c in scr if any(True for _ in guards_of(c, init.node))]
    handlers = [n for n in ast.walk(init.node) if isinstance(n, ast.ExceptHandler)]
    ctx.ob("R1", not guarded and not handlers, "the schema script runs unconditionally and its failure is not swallowed", func=init,
           sig="schema creation unguarded" if not guarded and not handlers else "schema creation guarded or its error handled")


def r2(ctx, eff):
    init = require_func(ctx, "create._DBCreator.__init__")
    cfg = cfg_of(init)
    unl = [c for c in calls_in(init.node) if ctx.proj.resolve_call(c, init)[1] in ("os.unlink", "os.remove")]
    conn = [c for c in calls_in(init.node) if ctx.proj.resolve_call(c, init)[1] == "sqlite3.connect"]
    ctx.require(conn, "_DBCreator.__init__ no longer connects with sqlite3.connect")
    ctx.ob("R2", len(unl) == 1, "force removes the old file (one unlink)", func=init, sig="%d unlink(s) in the creator" % len(unl))
    for u in unl:
        g = sorted(("" if pol else "not ") + norm(t) for t, pol in guards_of(u, init.node))
        ok = g == sorted(["force", "os.path.exists(dbfn)"])
        ctx.ob("R2", ok, "the old database is removed only under force (and only if it exists)", node=u, func=init, sig="unlink guards %s" % g)
        ok = len(u.args) == 1 and norm(u.args[0]) == "dbfn"
        ctx.ob("R2", ok, "what is removed is the target database path", node=u, func=init, sig="unlink target %s" % norm(u.args[0]), nontrivial=False)
        # the force block precedes the connection on every path
        outer = None
        from ..model import parents
        for p in parents(u):
            if p is init.node:
                break
            if isinstance(p, ast.If):
                outer = p
        a = cfg.node_for(outer if outer is not None else u)
        ok = all(cfg.dominates(a.id, cfg.node_for(c).id) for c in conn)
        ctx.ob("R2", ok, "the removal happens before the connection is opened", node=u, func=init,
               sig="force block dominates sqlite3.connect" if ok else "connection can be opened before the force block")
    for c in conn:
        ok = len(c.args) >= 1 and norm(c.args[0]) == "dbfn"
        ctx.ob("R2", ok, "the creator connects to the target path", node=c, func=init, sig="connect(%s)" % norm(c.args[0]), nontrivial=False)
    # no other removal of files in the import call graph, except temp files named by tempfile
    cd = require_func(ctx, "create.create_db")
    for e in eff.transitive(cd.qual):
        if e[1] == "FS" and e[2] in ("unlink", "move") and e[0] != init.qual:
            call = e[4]
            tgt = norm(call.args[0]) if call.args else "?"
            ok = "dbfn" not in tgt
            ctx.ob("R2", ok, "apart from the force block, nothing in an import removes or moves the database file (temp-file removal is C20's)",
                   node=call, func=ctx.proj.funcs[e[0]], sig="%s removes %s" % (e[0].split(".")[-1], tgt), nontrivial=False)


def r3(ctx, eff):
    db = ctx.proj.cls("interface.FeatureDB")
    n = 0
    for name in READ_API:
        m = db.methods.get(name)
        ctx.require(m is not None, "anchor vanished: FeatureDB.%s" % name)
        ctx.touch(m)
        n += 1
        bad = []
        for e in eff.transitive(m.qual):
            q, kind = e[0], e[1]
            if kind == "SQL" and e[2] in WRITE_VERBS:
                bad.append("%s on %s in %s" % (e[2], e[3], q))
            elif kind == "SQL?" and not q.endswith("FeatureDB._execute") and not q.endswith("FeatureDB.region"):
                bad.append("unresolved SQL %r in %s" % (e[2], q))
            elif kind in ("COMMIT", "SCRIPT"):
                bad.append("%s in %s" % (kind.lower(), q))
            elif kind == "FS":
                bad.append("file effect %s in %s" % (e[3], q))
        path = None
        if bad:
            culprit = bad[0].rsplit(" in ", 1)[1]
            path = eff.path(m.qual, culprit)
        ctx.ob("R3", not bad, "read-style method %s has no write effect in its call closure (only SELECT)" % name, func=m,
               sig="%s: read-only closure" % name if not bad else "%s reaches %s" % (name, bad[0]),
               detail=None if not bad else "call path: %s" % " -> ".join(path or [m.qual]))
    conv = ctx.proj.maybe_func("convert.to_bed12")
    if conv is not None:
        bad = [e for e in eff.transitive(conv.qual) if (e[1] == "SQL" and e[2] in WRITE_VERBS) or e[1] in ("COMMIT", "SCRIPT", "FS")]
        ctx.ob("R3", not bad, "convert.to_bed12 has no write effect", func=conv, sig="to_bed12: read-only closure" if not bad else "to_bed12 reaches %s" % (bad[0][:4],))
    # the statements the builders hand to _execute / region are SELECTs
    from ..builders import interp_for, BoundQuery
    from ..absint import Sym
    it = interp_for(ctx)
    checked = 0
    for qual, args in (("interface.FeatureDB.all_features", {}),
                       ("interface.FeatureDB.features_of_type", {"featuretype": Sym("ft", "str")}),
                       ("interface.FeatureDB.children", {"id": Sym("id", "str")}),
                       ("interface.FeatureDB.parents", {"id": Sym("id", "str"), "level": Sym("level", "int")}),
                       ("interface.FeatureDB.region", {"seqid": Sym("seqid", "str"), "start": Sym("S", "int"), "end": Sym("E", "int")})):
        f = require_func(ctx, qual)
        for t in it.run(f, args):
            for e in t.executes():
                bq = BoundQuery(e[1], e[2])
                checked += 1
                ok = bq.stmt is not None and bq.stmt.verb == "SELECT"
                ctx.ob("R3", ok, "the statement %s builds and executes is a SELECT" % f.name, func=f,
                       sig="%s executes %s" % (f.name, bq.stmt.verb if bq.stmt is not None else "unparsable SQL"), nontrivial=False)
    ctx.floor("R3", checked, 5, "built statements inspected")
    ctx.assume("user-supplied callables (transform, merge criteria, attribute_func) are opaque and assumed effect-free; "
               "FeatureDB.execute(query) runs user SQL and is excluded; FeatureDB.__init__ issues PRAGMAs (connection settings)")
    # positive fixture: the effect closure does flag a writer
    upd = eff.transitive("interface.FeatureDB.delete")
    ctx.require(any(e[1] == "SQL" and e[2] == "DELETE" for e in upd), "effect analysis lost FeatureDB.delete's DELETE (positive fixture)")


def check(ctx):
    ctx.explanation = (
        "Schema script parsed (every CREATE TABLE unconditional, creation dominates population); the force block of the creator is the "
        "only remover of the target and is control-dependent on `force` alone; for each read-style FeatureDB method the transitive effect "
        "set over the resolved call graph contains SELECT only (no DML/DDL, commit, executescript or file effect), and the statements "
        "built by make_query/region are SELECTs in every partition. Does not decide the byte content of a file after a failed call "
        "(SQLite's behaviour for PRAGMAs and a failed script).")
    eff = Effects(ctx)
    r1(ctx)
    r2(ctx, eff)
    r3(ctx, eff)
