"""C19 -- existing databases are never clobbered; queries never write."""
import ast

from .. import sql as S
from ..callgraph import Effects
from ..cfg import cfg_of
from ..model import norm
from ..util import require_func, calls_in, call_attr, guards_of

READ_API = [
    "__getitem__", "all_features", "features_of_type", "iter_by_parent_childs", "children", "parents", "_relation",
    "region", "interfeatures", "create_introns", "create_splice_sites", "merge", "children_bp", "bed12",
    "count_features_of_type", "featuretypes", "seqids", "schema",
]
WRITE_VERBS = {"INSERT", "UPDATE", "DELETE", "CREATE TABLE", "CREATE INDEX", "DROP INDEX", "DROP TABLE", "ANALYZE", "PRAGMA", "REPLACE"}


def r1(ctx):
    script = ctx.folder.const("constants", "SCHEMA")
    stmts = S.parse_script(script)
    tables = [s for s in stmts if s.verb == "CREATE TABLE"]
    ctx.floor("R1", len(tables), 6, "CREATE TABLE statements in SCHEMA")
    for t in tables:
        ctx.ob("R1", not t.if_not_exists, "CREATE TABLE %s is unconditional: creating a database over an existing one fails" % t.table,
               node=ctx.proj.module("constants").toplevel.get("SCHEMA"), sig="CREATE TABLE %s%s" % ("IF NOT EXISTS " if t.if_not_exists else "", t.table))
    ctx.ob("R1", stmts and stmts[0].verb == "CREATE TABLE" and all(s.verb == "CREATE TABLE" for s in stmts),
           "the schema script consists of CREATE TABLE statements only (no DROP)", node=ctx.proj.module("constants").toplevel.get("SCHEMA"),
           sig="SCHEMA verbs %s" % sorted({s.verb for s in stmts}), nontrivial=False)
    # create() evaluated on the model database: on an empty database it builds the tables and fills them; on a database that
    # already holds the tables the schema script fails loudly (nothing is dropped, nothing is swallowed)
    from . import scen
    from .. import minidb
    cr = require_func(ctx, "create._DBCreator.create")
    lines = scen.gff_lines()
    im, t = scen.run_create(ctx, "_GFFDBCreator", lines)
    ok = t.result[0] == "return" and set(im.db.tables) >= {x.table.lower() for x in tables} and len(im.table("features")) == len(lines)
    ctx.ob("R1", ok, "create() on an empty database makes the tables first and then stores every line (tables exist before any row is written)", func=cr,
           sig="create(): tables, then %d rows" % len(lines) if ok else "create() on an empty database: %s" % (str(t.result[:3]),))
    db = minidb.MiniDB()
    db.script(script)
    db.execute("INSERT INTO features (id) VALUES (?)", ("old",))
    im2 = scen.Import(ctx, "_GFFDBCreator", db=db, lines=scen.gff_lines())
    t2 = im2.call("create")
    kept = [r[0] for r in db.rows("features", ["id"])]
    ok = t2.result[0] == "raise" and "OperationalError" in str(t2.result[1]) and kept == ["old"]
    ctx.ob("R1", ok, "create() over a database that already has the tables raises (sqlite3.OperationalError from the schema script) and leaves the old rows untouched", func=cr,
           sig="create() over existing tables raises, old rows kept" if ok else "create() over existing tables: %s, rows %s" % (t2.result[:2], kept[:4]))


def r2(ctx, eff):
    """The creator's constructor evaluated abstractly for force x (target is a path / an open connection) x (file exists or not):
    which files are removed, when, and what is connected to."""
    from ..absint import Interp, Sym, Opaque, Unsupported
    init = require_func(ctx, "create._DBCreator.__init__")
    ps = [p for p in init.params if p != "self"]
    ctx.require("dbfn" in ps and "force" in ps, "creator constructor lost dbfn/force: %s" % ps)
    n_conn = 0
    for force in (False, True):
        for kind, dbfn in (("path", Sym("dbfn", "str", True)), ("connection", Opaque("conn", "Connection"))):
            it = Interp(ctx)
            it.ext_summaries["os.path.exists"] = lambda i, pos, kw, node: (i.trace.events.append(("exists", pos[0], node)), Opaque("exists", "bool?"))[1]
            it.summaries["iterators.DataIterator"] = lambda i, pos, kw, node: Opaque("ITER", "obj")
            try:
                # the other options are symbolic: a removal that depended on any of them would show up as a fork
                a_ = {ps[0]: Sym("data", "any", True), "dbfn": dbfn, "force": force}
                for p_ in ("merge_strategy", "id_spec", "verbose", "default_encoding", "_keep_tempfiles", "from_string", "checklines"):
                    if p_ in ps:
                        a_[p_] = Sym(p_, "any", None)
                traces = it.run(init, a_, self_obj=Opaque("self", "obj"))
            except Unsupported as e:
                ctx.require(False, "creator constructor outside the analysable subset: %s" % e)
            for t in traces:
                ev = t.events
                name_of = lambda e: getattr(e[1], "name", None) if e[0] == "call-opaque" else None
                unl = [i for i, e in enumerate(ev) if name_of(e) in ("os.unlink", "os.remove", "shutil.rmtree", "os.rename", "shutil.move")]
                conn = [i for i, e in enumerate(ev) if name_of(e) == "sqlite3.connect"]
                exists = None
                for d in t.decisions:
                    if isinstance(d[0], Opaque) and d[0].kind == "bool?":
                        exists = d[1]
                label = "force=%s, target is a %s%s" % (force, kind, "" if exists is None else ", file %s" % ("exists" if exists else "absent"))
                n_conn += len(conn)
                if not force:
                    ctx.ob("R2", not unl, "the old database is removed only under force", func=init, sig="%s: %d removal(s)" % (label, len(unl)))
                else:
                    if kind == "path" and exists:
                        ctx.ob("R2", len(unl) == 1, "force removes the old file (one unlink)", func=init, sig="%s: %d removal(s)" % (label, len(unl)))
                    elif kind == "path" and exists is False:
                        ctx.ob("R2", not unl, "...and only if it exists", func=init, sig="%s: %d removal(s)" % (label, len(unl)), nontrivial=False)
                    for i in unl:
                        tgt = [getattr(x, "name", x) for x in ev[i][2]]
                        ctx.ob("R2", tgt[:1] in (["dbfn"], ["conn"]) and name_of(ev[i]) in ("os.unlink", "os.remove"), "what is removed is the target database path", func=init,
                               sig="%s: %s(%s)" % (label, name_of(ev[i]), tgt), nontrivial=False)
                        ctx.ob("R2", all(i < j for j in conn), "the removal happens before the connection is opened", func=init,
                               sig="force block precedes sqlite3.connect" if all(i < j for j in conn) else "connection can be opened before the force block")
                if kind == "path":
                    ok = len(conn) == 1 and [getattr(x, "name", x) for x in ev[conn[0]][2]][:1] == ["dbfn"]
                    ctx.ob("R2", ok, "the creator connects to the target path", func=init, sig="%s: connect(%s)" % (label, [getattr(x, "name", x) for x in ev[conn[0]][2]] if conn else None),
                           nontrivial=False)
                else:
                    sets_ = [e[3] for e in ev if e[0] == "setattr" and e[2] == "conn" and getattr(e[1], "name", None) == "self"]
                    ok = not conn and bool(sets_) and getattr(sets_[-1], "name", None) == "conn"
                    ctx.ob("R2", ok, "an open connection is used as it is", func=init, sig="%s: self.conn := %r" % (label, sets_[-1] if sets_ else None), nontrivial=False)
    ctx.floor("R2", n_conn, 2, "connections opened by the creator")
    # no other removal of files in the import call graph, except temp files named by tempfile
    cd = require_func(ctx, "create.create_db")
    # everything the constructor reaches was evaluated above (whatever module it lives in)
    own = {init.qual} | {g.qual for g in __import__("gffsa.util", fromlist=["closure"]).closure(ctx, init, depth=4, cross_module=True, private_only=False)}
    for e in eff.transitive(cd.qual):
        if e[1] == "FS" and e[2] in ("unlink", "move") and e[0] not in own:
            call = e[4]
            tgt = norm(call.args[0]) if call.args else "?"
            ok = "dbfn" not in tgt
            ctx.ob("R2", ok, "apart from the force block, nothing in an import removes or moves the database file (temp-file removal is C20's)",
                   node=call, func=ctx.proj.funcs[e[0]], sig="%s removes %s" % (e[0].split(".")[-1], tgt), nontrivial=False)


def r2_files(ctx):
    """create_db evaluated end to end on the in-memory file system, force x (a file is already at the target path or not):
    which files are gone afterwards."""
    from . import scen
    cd = require_func(ctx, "create.create_db")
    text = "chr1\tsrc\tgene\t100\t900\t.\t+\t.\tID=g1\nchr1\tsrc\tmRNA\t100\t900\t.\t+\t.\tID=t1;Parent=g1\n"
    for force in (False, True):
        for there in (False, True):
            it = scen.text_interp(ctx)
            if there:
                it.vfs = {"old.db": ["previous database"]}
            it, db, t = scen.create_db_from_text(ctx, text, path="in.gff3", it=it, dbfn="old.db", force=force)
            label = "force=%s, target %s" % (force, "exists" if there else "absent")
            if not scen.returned(ctx, t, "create_db (%s)" % label, func=cd, rule="R2"):
                continue
            gone = [p for p in it.unlinked if p in ("old.db", "in.gff3")]
            want = ["old.db"] if (force and there) else []
            ctx.ob("R2", gone == want, "of the caller's files an import removes the old database under force and nothing else (input and, without force, "
                   "the target stay)", func=cd, sig="%s: removed %s" % (label, gone), nontrivial=bool(want))
            if want:
                ev = [e[0] if e[0] == "unlink" else "connect" for e in t.events if (e[0] == "unlink" and e[1] == "old.db") or
                      (e[0] == "call-opaque" and getattr(e[1], "name", None) == "sqlite3.connect") or e[0] == "connect"]
                ctx.ob("R2", ev[:1] == ["unlink"] or "connect" not in ev, "the removal precedes the connection", func=cd, sig="%s: %s" % (label, ev[:3]), nontrivial=False)


_VERB_CACHE = {}


def _evaluated_verbs(ctx, qual):
    """Verbs of the statements a function executes, by abstract evaluation with symbolic arguments (for SQL text assembled
    at run time); None when the function cannot be evaluated."""
    from ..absint import Sym, Opaque, Unsupported
    from ..builders import interp_for
    key = (id(ctx.proj), qual)
    if key in _VERB_CACHE:
        return _VERB_CACHE[key]
    f = ctx.proj.funcs.get(qual)
    out = None
    if f is not None:
        d = f.param_defaults()
        alts = [{p: Sym(p, "str", True) for p in f.params if p != "self" and d.get(p) is None and not p.startswith("*")},
                {p: Sym(p, "str", True) for p in f.params if p != "self"}]
        verbs = set()
        try:
            for a in alts:
                a = {k: v for k, v in a.items() if k not in ("args", "kwargs")}
                for t in interp_for(ctx).run(f, a, self_obj=Opaque("self", "obj")):
                    for e in t.executes():
                        text = e[1].render() if hasattr(e[1], "render") else str(e[1])
                        verbs.add(S.parse(text).verb)
            out = verbs
        except (Unsupported, S.SQLError):
            out = None
    _VERB_CACHE[key] = out
    return out


def r3(ctx, eff):
    db = ctx.proj.cls("interface.FeatureDB")
    n = 0
    for name in READ_API:
        m = db.methods.get(name)
        ctx.require(m is not None, "anchor vanished: FeatureDB.%s" % name)
        ctx.touch(m)
        n += 1
        bad = []
        for e in eff.transitive(m.qual):
            q, kind = e[0], e[1]
            if kind == "SQL" and e[2] in WRITE_VERBS:
                bad.append("%s on %s in %s" % (e[2], e[3], q))
            elif kind == "SQL?" and not q.endswith("FeatureDB._execute") and not q.endswith("FeatureDB.region"):
                verbs = _evaluated_verbs(ctx, q)
                if verbs is None:
                    bad.append("unresolved SQL %r in %s" % (e[2], q))
                else:
                    for v_ in sorted(verbs - {"SELECT"}):
                        bad.append("%s (built at run time) in %s" % (v_, q))
            elif kind in ("COMMIT", "SCRIPT"):
                bad.append("%s in %s" % (kind.lower(), q))
            elif kind == "FS":
                bad.append("file effect %s in %s" % (e[3], q))
        path = None
        if bad:
            culprit = bad[0].rsplit(" in ", 1)[1]
            path = eff.path(m.qual, culprit)
        ctx.ob("R3", not bad, "read-style method %s has no write effect in its call closure (only SELECT)" % name, func=m,
               sig="%s: read-only closure" % name if not bad else "%s reaches %s" % (name, bad[0]),
               detail=None if not bad else "call path: %s" % " -> ".join(path or [m.qual]))
    conv = ctx.proj.maybe_func("convert.to_bed12")
    if conv is not None:
        bad = [e for e in eff.transitive(conv.qual) if (e[1] == "SQL" and e[2] in WRITE_VERBS) or e[1] in ("COMMIT", "SCRIPT", "FS")]
        ctx.ob("R3", not bad, "convert.to_bed12 has no write effect", func=conv, sig="to_bed12: read-only closure" if not bad else "to_bed12 reaches %s" % (bad[0][:4],))
    # the statements the builders hand to _execute / region are SELECTs
    from ..builders import interp_for, BoundQuery
    from ..absint import Sym
    it = interp_for(ctx)
    checked = 0
    for qual, args in (("interface.FeatureDB.all_features", {}),
                       ("interface.FeatureDB.features_of_type", {"featuretype": Sym("ft", "str")}),
                       ("interface.FeatureDB.children", {"id": Sym("id", "str")}),
                       ("interface.FeatureDB.parents", {"id": Sym("id", "str"), "level": Sym("level", "int")}),
                       ("interface.FeatureDB.region", {"seqid": Sym("seqid", "str"), "start": Sym("S", "int"), "end": Sym("E", "int")})):
        f = require_func(ctx, qual)
        for t in it.run(f, args):
            for e in t.executes():
                bq = BoundQuery(e[1], e[2])
                checked += 1
                ok = bq.stmt is not None and bq.stmt.verb == "SELECT"
                ctx.ob("R3", ok, "the statement %s builds and executes is a SELECT" % f.name, func=f,
                       sig="%s executes %s" % (f.name, bq.stmt.verb if bq.stmt is not None else "unparsable SQL"), nontrivial=False)
    ctx.floor("R3", checked, 5, "built statements inspected")
    ctx.assume("user-supplied callables (transform, merge criteria, attribute_func) are opaque and assumed effect-free; "
               "FeatureDB.execute(query) runs user SQL and is excluded; FeatureDB.__init__ issues PRAGMAs (connection settings)")
    # positive fixture: the effect closure does flag a writer
    upd = eff.transitive("interface.FeatureDB.delete")
    ctx.require(any(e[1] == "SQL" and e[2] == "DELETE" for e in upd), "effect analysis lost FeatureDB.delete's DELETE (positive fixture)")


def check(ctx):
    ctx.explanation = (
        "Schema script parsed (every CREATE TABLE unconditional, creation dominates population); the creator's constructor is evaluated "
        "abstractly for force x target kind x file existence with every other option symbolic (a removal that depended on anything else would "
        "appear as a fork); for each read-style FeatureDB method the transitive effect set over the resolved call graph contains SELECT only "
        "(SQL text assembled at run time is resolved by abstract evaluation), and the statements built by make_query/region are SELECTs in "
        "every partition. Does not decide the byte content of a file after a failed call.")
    eff = Effects(ctx)
    r1(ctx)
    r2(ctx, eff)
    r2_files(ctx)
    r3(ctx, eff)
