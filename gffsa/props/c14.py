"""C14 -- directives, comments, FASTA."""
import ast

from ..cfg import cfg_of
from ..model import norm, parents
from ..util import require_func, execute_sites, calls_in, call_attr, is_name, const_str, kwarg

CLASSES = [
    ("##FASTA", "##FASTA", "stop"),
    ("FASTA header", ">chr1 some sequence", "stop"),
    ("directive", "##gff-version 3", "directive"),
    ("### separator", "###", "directive"),
    ("comment", "#a comment", "skip"),
    ("empty line", "", "skip"),
    ("feature line", "chr1\t.\tgene\t1\t2\t.\t+\t.\tID=x", "feature"),
    ("line starting with a blank", " chr1\t.\tgene\t1\t2\t.\t+\t.\tID=x", "feature"),
]


FEATURE_LINE = "chr1\t.\tgene\t1\t2\t.\t+\t.\tID=%s"


def _run_file(ctx, lines, directives=None, func=None):
    """One pass of _FileIterator._custom_iter over the given lines (a one-shot stream standing for the open file)."""
    from ..absint import Interp, Sym, Opaque, StreamVal, Unsupported
    f = func or require_func(ctx, "iterators._FileIterator._custom_iter")
    it = Interp(ctx)
    stream = StreamVal(lines, "file")
    seen = []
    it.summaries["iterators._FileIterator.open_function"] = lambda i, pos, kw, node: stream

    def s_ffl(i, pos, kw, node):
        seen.append((pos[0], kw.get("dialect")))
        return Opaque("feature(%s)" % (pos[0].split("ID=")[-1] if isinstance(pos[0], str) else pos[0]), "Feature")
    it.summaries["feature.feature_from_line"] = s_ffl
    so = Opaque("self", "obj")
    so.attrs["directives"] = directives if directives is not None else []
    so.attrs["data"] = Sym("path", "str", True)
    so.attrs["dialect"] = Opaque("DIALECT", "dict")
    try:
        traces = it.run(f, {}, self_obj=so)
    except Unsupported as e:
        ctx.require(False, "_custom_iter outside the analysable subset: %s" % e)
    ctx.require(len(traces) == 1, "_custom_iter forks on concrete lines (%d paths)" % len(traces))
    t = traces[0]
    ys = [getattr(e[1], "name", e[1]) for e in t.events if e[0] == "yield"]
    return ys, so.attrs["directives"], seen, stream, t


def r1(ctx):
    """The line classification as a decision table: one pass of the file iterator is evaluated for each class of line,
    followed by a sentinel feature line (is it still reached?)."""
    f = require_func(ctx, "iterators._FileIterator._custom_iter")
    for label, line, want in CLASSES:
        ys, dirs, seen, stream, t = _run_file(ctx, [line + "\n", FEATURE_LINE % "sentinel" + "\n"])
        reached = "feature(sentinel)" in ys
        own = [y for y in ys if y != "feature(sentinel)"]
        if not reached:
            got = "stop"
        elif own:
            got = "feature"
        elif dirs:
            got = "directive"
        else:
            got = "skip"
        if own and dirs:
            got += "+directive"
        ctx.ob("R1", got == want, "a %s is classified as: %s" % (label, want), func=f, sig="line class %s -> %s" % (label, got))
        if want == "stop":
            ctx.ob("R1", not ys and not dirs, "at ##FASTA / '>' iteration ends, later lines are never looked at", func=f,
                   sig="%s: %d features, %d directives after it" % (label, len(ys), len(dirs)), nontrivial=False)
    # a whole file: order of features and directives, terminators, dialect
    lines = ["##gff-version 3\n", "#comment\n", "\n", FEATURE_LINE % "a" + "\r\n", "###\n", FEATURE_LINE % "b" + "\n", "##FASTA\n", ">chr1\n", "ACGT\n", FEATURE_LINE % "c" + "\n"]
    ys, dirs, seen, stream, t = _run_file(ctx, lines)
    ctx.ob("R1", ys == ["feature(a)", "feature(b)"], "every feature line before the FASTA section is yielded, in file order; nothing after it", func=f, sig="file pass yields %s" % ys)
    ok = bool(seen) and all(isinstance(l, str) and not l.endswith(("\n", "\r")) for l, _d in seen)
    ctx.ob("R1", ok, "the line terminator is removed before the line is classified and parsed", func=f,
           sig="lines parsed: %s" % ["terminated" if isinstance(l, str) and l.endswith(("\n", "\r")) else "stripped" for l, _d in seen])
    okd = bool(seen) and all(getattr(d, "name", None) == "DIALECT" for _l, d in seen)
    ctx.ob("R1", okd, "lines are parsed with the iterator's dialect", func=f, sig="feature_from_line(dialect=%s)" % sorted({getattr(d, "name", repr(d)) for _l, d in seen}), nontrivial=False)
    ctx.extra["file_pass_directives"] = list(dirs)


def r2(ctx):
    f = require_func(ctx, "iterators._FileIterator._custom_iter")
    for line, want in (("##gff-version 3", "gff-version 3"), ("###", "#"), ("## spaced", " spaced"), ("##sequence-region chr1 1 100", "sequence-region chr1 1 100")):
        ys, dirs, seen, stream, t = _run_file(ctx, [line + "\n"])
        ctx.ob("R2", dirs == [want], "a directive is recorded without its leading '##' (and nothing else removed)", func=f, sig="directive %r stored as %r" % (line, dirs))
    ys, dirs, seen, stream, t = _run_file(ctx, ["##b\n", FEATURE_LINE % "x" + "\n", "##a\n", "##b\n"])
    ctx.ob("R2", dirs == ["b", "a", "b"], "directives are kept in file order, repeats included", func=f, sig="directives of a file: %s" % dirs)
    # ...however the pass over the file ends: at ##FASTA, at a '>' header, at the end of the file
    for label, tail in (("##FASTA", ["##FASTA\n", ">chr1\n", "ACGT\n"]), ("a '>' header", [">chr1\n", "ACGT\n"]), ("the end of the file", [])):
        D = ["stale"]
        ys, dirs, seen, stream, t = _run_file(ctx, ["##gff-version 3\n", FEATURE_LINE % "x" + "\n", "###\n"] + tail, directives=D)
        ok = list(dirs) == ["gff-version 3", "#"] and dirs is D
        ctx.ob("R2", ok, "the directives seen before %s are in the iterator's (captured) list when the pass ends there" % label, func=f,
               sig="pass ending at %s leaves the directives in place" % label if ok else "pass ending at %s leaves %s%s" % (label, list(dirs), "" if dirs is D else " in another list object"))


def r3(ctx):
    """The directive list is one object from the iterator to the database: iteration clears and refills it in place, create_db
    hands that very list to the importer, the importer keeps it, finalisation writes it."""
    from ..absint import Sym, Opaque
    f = require_func(ctx, "iterators._FileIterator._custom_iter")
    D = ["stale"]
    ys, dirs, seen, stream, t = _run_file(ctx, ["##one\n", FEATURE_LINE % "x" + "\n", "##two\n"], directives=D)
    ctx.ob("R3", dirs is D, "the directive list captured by create_db (by reference, at peek time) is the one iteration keeps filling: "
           "iteration never re-binds self.directives (it clears the list in place)", func=f,
           sig="iteration fills the captured list" if dirs is D else "_custom_iter re-binds self.directives",
           detail=None if dirs is D else "create_db stored the old list object in the importer before the import iterates; directives found after re-binding land in a list the importer never sees")
    ctx.ob("R3", list(dirs) == ["one", "two"], "every pass over the file starts from an empty directive list (peeking and importing do not double them)", func=f,
           sig="second pass leaves %s" % list(dirs))
    # create_db -> importer
    cd = require_func(ctx, "create.create_db")
    from .c13 import _run
    n = 0
    for fmt in ("gff3", "gtf"):
        holder = {}

        def s_di(i, pos, kw, node):
            o = Opaque("ITER", "obj")
            o.attrs["dialect"] = {"fmt": fmt}
            o.attrs["directives"] = Opaque("ITER.directives", "list")
            holder["d"] = o.attrs["directives"]
            return o
        for t in _run(ctx, cd, {"data": Sym("data", "str", True), "dbfn": Sym("dbfn", "str", True)}, summaries={"iterators.DataIterator": s_di}):
            for e in t.events:
                if e[0] == "construct" and e[1] in ("create._GFFDBCreator", "create._GTFDBCreator"):
                    n += 1
                    got = e[3].get("directives")
                    ok = got is holder.get("d") or (isinstance(got, Opaque) and got.name == "ITER.directives")
                    ctx.ob("R3", ok, "create_db hands the iterator's directive list (the object itself) to the importer", func=cd,
                           sig="importer directives := %s" % ("iterator.directives" if ok else repr(got)))
    fin = require_func(ctx, "create._DBCreator._finalize")
    reads_iter = any("iterator.directives" in norm(x) for x in ast.walk(fin.node) if isinstance(x, ast.Attribute))
    ctx.ob("R3", n >= 2 or reads_iter, "the importer gets at the iterator's directives", func=cd, sig="%d importer constructions carry the directive list" % n, nontrivial=False)
    init = require_func(ctx, "create._DBCreator.__init__")
    GIVEN = Opaque("GIVEN", "list")
    for t in _run(ctx, init, {"data": Sym("data", "any", True), "dbfn": Sym("dbfn", "str", True), "directives": GIVEN}, self_obj=Opaque("self", "obj"),
                  summaries={"iterators.DataIterator": lambda i, pos, kw, node: Opaque("ITER", "obj")}):
        sets_ = [e[3] for e in t.events if e[0] == "setattr" and e[2] == "directives" and getattr(e[1], "name", None) == "self"]
        ok = bool(sets_) and isinstance(sets_[-1], Opaque) and sets_[-1].name == "GIVEN"
        ctx.ob("R3", ok, "the importer keeps the list it was given (no copy at construction)", func=init, sig="importer self.directives := %r" % (sets_[-1] if sets_ else None))


def r4(ctx):
    """Directives through the database: create() evaluated on the model database with a directive list (duplicates, order
    that is not alphabetical), then FeatureDB(dbfn) evaluated on the result."""
    from . import scen
    fin = require_func(ctx, "create._DBCreator._finalize")
    dbi = require_func(ctx, "interface.FeatureDB.__init__")
    given = ["b", "a", "b", "gff-version 3"]
    im, t = scen.run_create(ctx, "_GFFDBCreator", scen.gff_lines(), directives=list(given))
    if not scen.returned(ctx, t, "create()", func=fin, rule="R4"):
        return
    rows = im.table("directives")
    ctx.ob("R4", rows == [(d,) for d in given], "finalisation writes one row per directive, in list order (no sorting, filtering or de-duplication)", func=fin,
           sig="directives %s written as %s" % (given, "they are" if rows == [(d,) for d in given] else rows))
    it, me, conn, t0 = scen.open_feature_db(ctx, im.db)
    if not scen.returned(ctx, t0, "FeatureDB(dbfn)", func=dbi, rule="R4"):
        return
    got = me.attrs.get("directives")
    ctx.ob("R4", got == given, "opening a database reads every stored directive: db.directives is the list of the stored strings in row order", func=dbi,
           sig="db.directives equals the stored list" if got == given else "db.directives := %r" % (got,))
    # no directives at all
    im, t = scen.run_create(ctx, "_GFFDBCreator", scen.gff_lines(), directives=[])
    it, me, conn, t0 = scen.open_feature_db(ctx, im.db)
    got = me.attrs.get("directives") if t0.result[0] == "return" else t0.result[:2]
    ctx.ob("R4", got == [], "a file without directives gives an empty list", func=dbi, sig="no directives -> %r" % (got,), nontrivial=False)


def check(ctx):
    ctx.explanation = (
        "One pass of _FileIterator._custom_iter is evaluated abstractly over a stream of representative lines: one run per class of line "
        "followed by a sentinel gives the classification table; directives, their order and the '##' strip are read off the directive list; "
        "the list's object identity is followed from iteration (cleared and refilled in place) through create_db to the importer; _finalize is "
        "evaluated for a three-directive list; read-back is parsed SQL plus provenance. Does not decide behaviour over all interleavings of "
        "concrete files (follows from the table and the identity rule).")
    r1(ctx)
    r2(ctx)
    r3(ctx)
    r4(ctx)
