"""C14 -- directives, comments, FASTA."""
import ast

from ..cfg import cfg_of
from ..model import norm, parents
from ..util import require_func, execute_sites, calls_in, call_attr, is_name, const_str, kwarg

CLASSES = [
    ("##FASTA", "##FASTA", "stop"),
    ("FASTA header", ">chr1 some sequence", "stop"),
    ("directive", "##gff-version 3", "directive"),
    ("### separator", "###", "directive"),
    ("comment", "#a comment", "skip"),
    ("empty line", "", "skip"),
    ("feature line", "chr1\t.\tgene\t1\t2\t.\t+\t.\tID=x", "feature"),
    ("line starting with a blank", " chr1\t.\tgene\t1\t2\t.\t+\t.\tID=x", "feature"),
]


class _NoEval(Exception):
    pass


def _ev(node, line, var):
    """Evaluate a classification test on a representative line."""
    if isinstance(node, ast.BoolOp):
        vals = [_ev(v, line, var) for v in node.values]
        return all(vals) if isinstance(node.op, ast.And) else any(vals)
    if isinstance(node, ast.UnaryOp) and isinstance(node.op, ast.Not):
        return not _ev(node.operand, line, var)
    if isinstance(node, ast.Name) and node.id == var:
        return line
    if isinstance(node, ast.Constant):
        return node.value
    if isinstance(node, ast.Tuple):
        return tuple(_ev(e, line, var) for e in node.elts)
    if isinstance(node, ast.Compare) and len(node.ops) == 1:
        a, b = _ev(node.left, line, var), _ev(node.comparators[0], line, var)
        op = node.ops[0]
        if isinstance(op, ast.Eq):
            return a == b
        if isinstance(op, ast.NotEq):
            return a != b
        if isinstance(op, ast.In):
            return a in b
        if isinstance(op, ast.NotIn):
            return a not in b
        if isinstance(op, ast.Gt):
            return a > b
        if isinstance(op, ast.Lt):
            return a < b
        if isinstance(op, ast.GtE):
            return a >= b
        if isinstance(op, ast.LtE):
            return a <= b
    if isinstance(node, ast.Call):
        if is_name(node.func, "len") and len(node.args) == 1:
            return len(_ev(node.args[0], line, var))
        if isinstance(node.func, ast.Attribute) and node.func.attr in ("startswith", "endswith", "strip", "lstrip", "rstrip", "lower", "upper"):
            recv = _ev(node.func.value, line, var)
            args = [_ev(a, line, var) for a in node.args]
            if isinstance(recv, str):
                return getattr(recv, node.func.attr)(*args)
    if isinstance(node, ast.Subscript) and isinstance(node.slice, ast.Slice):
        base = _ev(node.value, line, var)
        lo = _ev(node.slice.lower, line, var) if node.slice.lower else None
        hi = _ev(node.slice.upper, line, var) if node.slice.upper else None
        return base[lo:hi]
    if isinstance(node, ast.Subscript):
        base = _ev(node.value, line, var)
        k = _ev(node.slice, line, var)
        try:
            return base[k]
        except (IndexError, KeyError):
            raise _NoEval("index")
    raise _NoEval(norm(node))


def classify(stmts, line, var):
    """Walk the statements of the loop body in order for one line class.
    Returns (outcome, directive_recorded)."""
    directive = False
    for st in stmts:
        if isinstance(st, ast.If):
            try:
                t = _ev(st.test, line, var)
            except _NoEval:
                exits = [n for n in ast.walk(st) if isinstance(n, (ast.Return, ast.Break, ast.Continue, ast.Yield, ast.YieldFrom))
                         or (isinstance(n, ast.Call) and call_attr(n) == "_directive_handler")]
                if exits:
                    raise
                continue  # normalisation step (e.g. bytes -> str), not a classification
            body = st.body if t else st.orelse
            out, d = classify(body, line, var)
            directive = directive or d
            if out is not None:
                return out, directive
            continue
        if isinstance(st, ast.Return):
            return "stop", directive
        if isinstance(st, ast.Break):
            return "stop", directive
        if isinstance(st, ast.Continue):
            return "skip", directive
        for n in ast.walk(st):
            if isinstance(n, ast.Call) and call_attr(n) == "_directive_handler":
                directive = True
            if isinstance(n, (ast.Yield, ast.YieldFrom)):
                return "feature", directive
    return None, directive


def r1(ctx):
    f = require_func(ctx, "iterators._FileIterator._custom_iter")
    loops = [n for n in ast.walk(f.node) if isinstance(n, ast.For)]
    ctx.require(loops, "_custom_iter has no loop over lines")
    loop = loops[0]
    var = loop.target.elts[-1].id if isinstance(loop.target, ast.Tuple) else loop.target.id
    # skip the normalisation prefix (decode / rstrip / bookkeeping assignments)
    body = loop.body
    for label, line, want in CLASSES:
        try:
            out, d = classify(body, line, var)
        except _NoEval as e:
            ctx.require(False, "line classification test outside the modelled subset: %s" % e)
        got = "directive" if (out == "skip" and d) else out if not d else "%s+directive" % out
        if out is None:
            got = "falls off the loop body"
        ctx.ob("R1", got == want, "a %s is classified as: %s" % (label, want), node=loop, func=f,
               sig="line class %s -> %s" % (label, got))
    # nothing after a stop is yielded: the stop outcome leaves the generator (return) rather than skipping
    rets = [n for n in ast.walk(loop) if isinstance(n, (ast.Return, ast.Break))]
    ctx.ob("R1", bool(rets), "at ##FASTA / '>' iteration ends (return), later lines are never looked at", node=loop, func=f,
           sig="stop classes end the iteration" if rets else "no terminating exit in the line loop", nontrivial=False)
    # line terminators are stripped before classification
    strip = [c for c in calls_in(f.node) if call_attr(c) == "rstrip" and c.args and set(const_str(c.args[0]) or "") >= {"\n"}]
    cfg = cfg_of(f)
    tests = [n for n in loop.body if isinstance(n, ast.If)]
    ok = bool(strip) and bool(tests) and all(cfg.dominates(cfg.node_for(strip[0]).id, cfg.node_for(t).id) for t in tests
                                             if any(isinstance(x, (ast.Return, ast.Continue)) for x in ast.walk(t)))
    ctx.ob("R1", ok, "the line terminator is removed before the line is classified", func=f,
           sig="rstrip of newline dominates the classification" if ok else "classification on unstripped lines")


def r2(ctx):
    f = require_func(ctx, "iterators._BaseIterator._directive_handler")
    d = [p for p in f.params if p != "self"][0]
    apps = [c for c in calls_in(f.node) if call_attr(c) == "append" and norm(c.func.value) == "self.directives"]
    ctx.floor("R2", len(apps), 1, "appends to self.directives in _directive_handler")
    for c in apps:
        a = c.args[0]
        ok = isinstance(a, ast.Subscript) and is_name(a.value, d) and isinstance(a.slice, ast.Slice) and a.slice.upper is None and \
            a.slice.lower is not None and ctx.folder.try_fold(a.slice.lower, f.module.name, default=None) == len("##")
        ctx.ob("R2", ok, "a directive is recorded without its leading '##' (and nothing else removed)", node=c, func=f,
               sig="directive stored as %s" % norm(a))
    fi = require_func(ctx, "iterators._FileIterator._custom_iter")
    hc = [c for c in calls_in(fi.node) if call_attr(c) == "_directive_handler"]
    ctx.floor("R2", len(hc), 1, "directive handler calls")
    loopvar = None
    for c in hc:
        ok = len(c.args) == 1 and isinstance(c.args[0], ast.Name)
        ctx.ob("R2", ok, "the whole (stripped) line is handed to the directive handler", node=c, func=fi, sig="handler called with %s" % norm(c.args[0]) if c.args else "handler called without the line", nontrivial=False)


def r3(ctx):
    cd = require_func(ctx, "create.create_db")
    cap = [n for n in ast.walk(cd.node) if isinstance(n, ast.Assign) and norm(n.targets[0]) == "kwargs['directives']"]
    fin = require_func(ctx, "create._DBCreator._finalize")
    reads_iter = any("self.iterator.directives" in norm(n) for n in ast.walk(fin.node) if isinstance(n, ast.Attribute))
    if reads_iter:
        ctx.ob("R3", True, "finalisation reads the directives from the iterator after the import", func=fin,
               sig="sink reads iterator.directives after population")
        return
    ctx.require(cap, "create_db no longer hands iterator.directives to the importer and _finalize does not read the iterator")
    by_ref = norm(cap[0].value) == "iterator.directives"
    ctx.ob("R3", by_ref or "list(" in norm(cap[0].value) is False, "create_db hands the iterator's directive list to the importer", node=cap[0], func=cd,
           sig="importer directives := %s" % norm(cap[0].value), nontrivial=False)
    # captured by reference before iteration: no method may re-bind the attribute afterwards
    base = ctx.proj.cls("iterators._BaseIterator")
    n_checked = 0
    for c in ctx.proj.subclasses(base):
        for m in c.methods.values():
            ctx.touch(m)
            if m.name == "__init__":
                continue
            n_checked += 1
            for n in ast.walk(m.node):
                tg = []
                if isinstance(n, ast.Assign):
                    tg = n.targets
                elif isinstance(n, (ast.AugAssign, ast.AnnAssign)):
                    tg = [n.target]
                for t in tg:
                    if norm(t) == "self.directives" and not isinstance(n, ast.AugAssign):
                        ctx.ob("R3", False,
                               "the directive list captured by create_db (by reference, at peek time) is the one iteration keeps filling: "
                               "no method reachable from iteration may re-bind self.directives (clear it in place instead)",
                               node=n, func=m, sig="%s re-binds self.directives (%s)" % (m.name, norm(n)),
                               detail="create_db stored the old list object in the importer before the import iterates; directives found "
                                      "after re-binding land in a list the importer never sees")
    ctx.ob("R3", n_checked >= 4, "iterator methods inspected for re-binding of the captured directive list", func=cd,
           sig="alias rule evaluated over the iterator classes", nontrivial=False)
    init = require_func(ctx, "create._DBCreator.__init__")
    asg = [n for n in ast.walk(init.node) if isinstance(n, ast.Assign) and norm(n.targets[0]) == "self.directives"]
    ok = bool(asg) and all(norm(n.value) == "directives" for n in asg)
    ctx.ob("R3", ok, "the importer keeps the list it was given (no copy at construction)", func=init,
           sig="importer self.directives := %s" % [norm(n.value) for n in asg])


def r4(ctx):
    fin = require_func(ctx, "create._DBCreator._finalize")
    sites = [s for s in execute_sites(ctx, [fin]) if s.stmts and s.stmts[0].verb == "INSERT" and s.stmts[0].table.lower() == "directives"]
    ctx.ob("R4", len(sites) >= 1, "finalisation writes the directives to the database", func=fin,
           sig="directives persisted by _finalize" if sites else "_finalize never inserts into `directives`")
    for s in sites:
        p = s.params
        src = None
        ok = False
        if isinstance(p, (ast.GeneratorExp, ast.ListComp)) and len(p.generators) == 1 and not p.generators[0].ifs:
            g = p.generators[0]
            src = g.iter
            ok = isinstance(p.elt, ast.Tuple) and len(p.elt.elts) == 1 and isinstance(g.target, ast.Name) and is_name(p.elt.elts[0], g.target.id)
        srcs = norm(src) if src is not None else None
        if isinstance(src, ast.Name):
            from ..util import single_assignment
            v = single_assignment(fin.node, src.id)
            srcs = norm(v) if v is not None else srcs
        ctx.ob("R4", ok and srcs == "self.directives" and s.method == "executemany",
               "one row per directive, in list order (no sorting, filtering or de-duplication)", node=s.call, func=fin,
               sig="directives written from %s via %s" % (srcs, norm(p)[:60] if p is not None else None))
    dbi = require_func(ctx, "interface.FeatureDB.__init__")
    sel = [s for s in execute_sites(ctx, [dbi]) if s.stmts and s.stmts[0].verb == "SELECT" and s.stmts[0].tables() == ["directives"]]
    ctx.floor("R4", len(sel), 1, "SELECT ... FROM directives sites")
    st = sel[0].stmts[0]
    ok = len(st.cols) == 1 and st.cols[0][0][0] == "col" and st.cols[0][0][2].lower() == "directive" and st.where is None and not st.distinct and not st.order_by
    ctx.ob("R4", ok, "opening a database reads every stored directive", node=sel[0].call, func=dbi, sig="directives read: %s" % " ".join(sel[0].sql.text.split()))
    asg = [n for n in ast.walk(dbi.node) if isinstance(n, ast.Assign) and norm(n.targets[0]) == "self.directives"]
    ok = bool(asg) and isinstance(asg[0].value, ast.ListComp) and norm(asg[0].value.elt).endswith("[0]")
    ctx.ob("R4", ok, "db.directives is the list of the stored strings in row order", func=dbi, sig="db.directives := %s" % (norm(asg[0].value) if asg else None))


def check(ctx):
    ctx.explanation = (
        "The line classification cascade of _FileIterator._custom_iter is walked in order for one representative of every line class "
        "(order-sensitive decision table: '##x'.startswith('#') is true); the '##' strip is computed from the prefix length; the alias "
        "rule follows the directive list from the iterator through create_db (captured by reference before iteration) to _finalize and "
        "forbids re-binding the attribute in any iterator method; persistence and read-back are parsed SQL plus def-use. Does not decide "
        "behaviour over all interleavings of concrete files (follows from the table and the alias rule).")
    r1(ctx)
    r2(ctx)
    r3(ctx)
    r4(ctx)
