"""C14 -- directives, comments, FASTA."""
import ast

from ..cfg import cfg_of
from ..model import norm, parents
from ..util import require_func, execute_sites, calls_in, call_attr, is_name, const_str, kwarg

CLASSES = [
    ("##FASTA", "##FASTA", "stop"),
    ("FASTA header", ">chr1 some sequence", "stop"),
    ("directive", "##gff-version 3", "directive"),
    ("### separator", "###", "directive"),
    ("comment", "#a comment", "skip"),
    ("empty line", "", "skip"),
    ("feature line", "chr1\t.\tgene\t1\t2\t.\t+\t.\tID=x", "feature"),
    ("line starting with a blank", " chr1\t.\tgene\t1\t2\t.\t+\t.\tID=x", "feature"),
]


FEATURE_LINE = "chr1\t.\tgene\t1\t2\t.\t+\t.\tID=%s"


def _run_file(ctx, lines, directives=None, func=None):
    """One pass of _FileIterator._custom_iter over the given lines (a one-shot stream standing for the open file)."""
    from ..absint import Interp, Sym, Opaque, StreamVal, Unsupported
    f = func or require_func(ctx, "iterators._FileIterator._custom_iter")
    it = Interp(ctx)
    stream = StreamVal(lines, "file")
    seen = []
    it.summaries["iterators._FileIterator.open_function"] = lambda i, pos, kw, node: stream

    def s_ffl(i, pos, kw, node):
        seen.append((pos[0], kw.get("dialect")))
        return Opaque("feature(%s)" % (pos[0].split("ID=")[-1] if isinstance(pos[0], str) else pos[0]), "Feature")
    it.summaries["feature.feature_from_line"] = s_ffl
    so = Opaque("self", "obj")
    so.attrs["directives"] = directives if directives is not None else []
    so.attrs["data"] = Sym("path", "str", True)
    so.attrs["dialect"] = Opaque("DIALECT", "dict")
    try:
        traces = it.run(f, {}, self_obj=so)
    except Unsupported as e:
        ctx.require(False, "_custom_iter outside the analysable subset: %s" % e)
    ctx.require(len(traces) == 1, "_custom_iter forks on concrete lines (%d paths)" % len(traces))
    t = traces[0]
    ys = [getattr(e[1], "name", e[1]) for e in t.events if e[0] == "yield"]
    return ys, so.attrs["directives"], seen, stream, t


def r1(ctx):
    """The line classification as a decision table: one pass of the file iterator is evaluated for each class of line,
    followed by a sentinel feature line (is it still reached?)."""
    f = require_func(ctx, "iterators._FileIterator._custom_iter")
    for label, line, want in CLASSES:
        ys, dirs, seen, stream, t = _run_file(ctx, [line + "\n", FEATURE_LINE % "sentinel" + "\n"])
        reached = "feature(sentinel)" in ys
        own = [y for y in ys if y != "feature(sentinel)"]
        if not reached:
            got = "stop"
        elif own:
            got = "feature"
        elif dirs:
            got = "directive"
        else:
            got = "skip"
        if own and dirs:
            got += "+directive"
        ctx.ob("R1", got == want, "a %s is classified as: %s" % (label, want), func=f, sig="line class %s -> %s" % (label, got))
        if want == "stop":
            ctx.ob("R1", not ys and not dirs, "at ##FASTA / '>' iteration ends, later lines are never looked at", func=f,
                   sig="%s: %d features, %d directives after it" % (label, len(ys), len(dirs)), nontrivial=False)
    # a whole file: order of features and directives, terminators, dialect
    lines = ["##gff-version 3\n", "#comment\n", "\n", FEATURE_LINE % "a" + "\r\n", "###\n", FEATURE_LINE % "b" + "\n", "##FASTA\n", ">chr1\n", "ACGT\n", FEATURE_LINE % "c" + "\n"]
    ys, dirs, seen, stream, t = _run_file(ctx, lines)
    ctx.ob("R1", ys == ["feature(a)", "feature(b)"], "every feature line before the FASTA section is yielded, in file order; nothing after it", func=f, sig="file pass yields %s" % ys)
    ok = bool(seen) and all(isinstance(l, str) and not l.endswith(("\n", "\r")) for l, _d in seen)
    ctx.ob("R1", ok, "the line terminator is removed before the line is classified and parsed", func=f,
           sig="lines parsed: %s" % ["terminated" if isinstance(l, str) and l.endswith(("\n", "\r")) else "stripped" for l, _d in seen])
    okd = bool(seen) and all(getattr(d, "name", None) == "DIALECT" for _l, d in seen)
    ctx.ob("R1", okd, "lines are parsed with the iterator's dialect", func=f, sig="feature_from_line(dialect=%s)" % sorted({getattr(d, "name", repr(d)) for _l, d in seen}), nontrivial=False)
    ctx.extra["file_pass_directives"] = list(dirs)


def r2(ctx):
    f = require_func(ctx, "iterators._FileIterator._custom_iter")
    for line, want in (("##gff-version 3", "gff-version 3"), ("###", "#"), ("## spaced", " spaced"), ("##sequence-region chr1 1 100", "sequence-region chr1 1 100")):
        ys, dirs, seen, stream, t = _run_file(ctx, [line + "\n"])
        ctx.ob("R2", dirs == [want], "a directive is recorded without its leading '##' (and nothing else removed)", func=f, sig="directive %r stored as %r" % (line, dirs))
    ys, dirs, seen, stream, t = _run_file(ctx, ["##b\n", FEATURE_LINE % "x" + "\n", "##a\n", "##b\n"])
    ctx.ob("R2", dirs == ["b", "a", "b"], "directives are kept in file order, repeats included", func=f, sig="directives of a file: %s" % dirs)


def r3(ctx):
    """The directive list is one object from the iterator to the database: iteration clears and refills it in place, create_db
    hands that very list to the importer, the importer keeps it, finalisation writes it."""
    from ..absint import Sym, Opaque
    f = require_func(ctx, "iterators._FileIterator._custom_iter")
    D = ["stale"]
    ys, dirs, seen, stream, t = _run_file(ctx, ["##one\n", FEATURE_LINE % "x" + "\n", "##two\n"], directives=D)
    ctx.ob("R3", dirs is D, "the directive list captured by create_db (by reference, at peek time) is the one iteration keeps filling: "
           "iteration never re-binds self.directives (it clears the list in place)", func=f,
           sig="iteration fills the captured list" if dirs is D else "_custom_iter re-binds self.directives",
           detail=None if dirs is D else "create_db stored the old list object in the importer before the import iterates; directives found after re-binding land in a list the importer never sees")
    ctx.ob("R3", list(dirs) == ["one", "two"], "every pass over the file starts from an empty directive list (peeking and importing do not double them)", func=f,
           sig="second pass leaves %s" % list(dirs))
    # create_db -> importer
    cd = require_func(ctx, "create.create_db")
    from .c13 import _run
    n = 0
    for fmt in ("gff3", "gtf"):
        holder = {}

        def s_di(i, pos, kw, node):
            o = Opaque("ITER", "obj")
            o.attrs["dialect"] = {"fmt": fmt}
            o.attrs["directives"] = Opaque("ITER.directives", "list")
            holder["d"] = o.attrs["directives"]
            return o
        for t in _run(ctx, cd, {"data": Sym("data", "str", True), "dbfn": Sym("dbfn", "str", True)}, summaries={"iterators.DataIterator": s_di}):
            for e in t.events:
                if e[0] == "construct" and e[1] in ("create._GFFDBCreator", "create._GTFDBCreator"):
                    n += 1
                    got = e[3].get("directives")
                    ok = got is holder.get("d") or (isinstance(got, Opaque) and got.name == "ITER.directives")
                    ctx.ob("R3", ok, "create_db hands the iterator's directive list (the object itself) to the importer", func=cd,
                           sig="importer directives := %s" % ("iterator.directives" if ok else repr(got)))
    fin = require_func(ctx, "create._DBCreator._finalize")
    reads_iter = any("iterator.directives" in norm(x) for x in ast.walk(fin.node) if isinstance(x, ast.Attribute))
    ctx.ob("R3", n >= 2 or reads_iter, "the importer gets at the iterator's directives", func=cd, sig="%d importer constructions carry the directive list" % n, nontrivial=False)
    init = require_func(ctx, "create._DBCreator.__init__")
    GIVEN = Opaque("GIVEN", "list")
    for t in _run(ctx, init, {"data": Sym("data", "any", True), "dbfn": Sym("dbfn", "str", True), "directives": GIVEN}, self_obj=Opaque("self", "obj"),
                  summaries={"iterators.DataIterator": lambda i, pos, kw, node: Opaque("ITER", "obj")}):
        sets_ = [e[3] for e in t.events if e[0] == "setattr" and e[2] == "directives" and getattr(e[1], "name", None) == "self"]
        ok = bool(sets_) and isinstance(sets_[-1], Opaque) and sets_[-1].name == "GIVEN"
        ctx.ob("R3", ok, "the importer keeps the list it was given (no copy at construction)", func=init, sig="importer self.directives := %r" % (sets_[-1] if sets_ else None))


def r4(ctx):
    from ..absint import Opaque
    from .c13 import _run
    from .. import sql as S
    fin = require_func(ctx, "create._DBCreator._finalize")
    so = Opaque("self", "obj")
    so.attrs["directives"] = ["b", "a", "b"]
    so.attrs["_autoincrements"] = {"gene": 2}
    n = 0
    for t in _run(ctx, fin, {}, self_obj=so):
        rows = []
        for e in t.executes():
            text = e[1] if isinstance(e[1], str) else str(e[1])
            try:
                st = S.parse(text)
            except S.SQLError:
                continue
            if st.verb == "INSERT" and st.table.lower() == "directives":
                n += 1
                for r in (e[2] if e[3] == "executemany" else [e[2]]):
                    if isinstance(r, dict):
                        # named placeholders: the row in the order of the VALUES list
                        r = [r.get(v[2]) if (isinstance(v, tuple) and v[0] == "param" and v[2] != "?") else v for v in st.values]
                    rows.append(tuple(r) if isinstance(r, (list, tuple)) else (r,))
        ctx.ob("R4", rows == [("b",), ("a",), ("b",)], "finalisation writes one row per directive, in list order (no sorting, filtering or de-duplication)", func=fin,
               sig="directives [b, a, b] written as %s" % rows)
    ctx.ob("R4", n >= 1, "finalisation writes the directives to the database", func=fin, sig="directives persisted by _finalize" if n else "_finalize never inserts into `directives`")
    dbi = require_func(ctx, "interface.FeatureDB.__init__")
    from ..util import closure
    pool = closure(ctx, dbi)
    sel = [s for s in execute_sites(ctx, pool) if s.stmts and s.stmts[0].verb == "SELECT" and s.stmts[0].tables() == ["directives"]]
    ctx.floor("R4", len(sel), 1, "SELECT ... FROM directives sites")
    st = sel[0].stmts[0]
    # an explicit ORDER BY rowid is the storage order, i.e. what the statement returns without it
    plain_order = not st.order_by or (len(st.order_by) == 1 and st.order_by[0][0][0] == "col" and st.order_by[0][0][2].lower() in ("rowid", "_rowid_", "oid") and st.order_by[0][1] in (None, "asc"))
    ok = len(st.cols) == 1 and st.cols[0][0][0] == "col" and st.cols[0][0][2].lower() == "directive" and st.where is None and not st.distinct and plain_order \
        and getattr(st, "limit", None) is None
    ctx.ob("R4", ok, "opening a database reads every stored directive", node=sel[0].call, func=sel[0].func, sig="directives read: %s" % " ".join(sel[0].sql.text.split()))
    from ..flow import Flow, show
    fl = Flow(ctx, pool)
    asg = [(g, x) for g in pool for x in ast.walk(g.node) if isinstance(x, ast.Assign) and any(isinstance(t_, ast.Attribute) and t_.attr == "directives" for t_ in x.targets)]
    key = ("row", (sel[0].func.qual, sel[0].call.lineno, sel[0].call.col_offset))
    ok = False
    shown = None
    for g, x in asg:
        ts = fl.terms(x.value, g)
        shown = ", ".join(sorted(show(t_) for t_ in ts))
        ok = ok or any(t_ in (("op", "listcomp", ("pos", key, 0)), ("op", "listcomp", ("key", key, "directive")), ("op", "listcomp", ("item", key, ("const", "directive"))))
                       or (isinstance(t_, tuple) and t_[:2] == ("op", "listcomp") and "directive" in show(t_) and repr(key[1]) in repr(t_) and len(t_) == 3) for t_ in ts)
    ctx.ob("R4", ok, "db.directives is the list of the stored strings in row order", func=dbi, sig="db.directives := %s" % ("[row[0] for each row]" if ok else shown))


def check(ctx):
    ctx.explanation = (
        "One pass of _FileIterator._custom_iter is evaluated abstractly over a stream of representative lines: one run per class of line "
        "followed by a sentinel gives the classification table; directives, their order and the '##' strip are read off the directive list; "
        "the list's object identity is followed from iteration (cleared and refilled in place) through create_db to the importer; _finalize is "
        "evaluated for a three-directive list; read-back is parsed SQL plus provenance. Does not decide behaviour over all interleavings of "
        "concrete files (follows from the table and the identity rule).")
    r1(ctx)
    r2(ctx)
    r3(ctx)
    r4(ctx)
