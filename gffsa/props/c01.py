"""C01 -- import fidelity (storage-table agreement, one write per line, JSON
codec pairing, dialect plumbing, column constants)."""
import ast

from .. import sql as S
from ..cfg import cfg_of
from ..model import norm, parents, enclosing
from ..util import (require_func, execute_sites, calls_in, call_attr, is_name, const_str, kwarg,
                    single_assignment)
from .c02 import feature_loop


def _strip_decode(e):
    while isinstance(e, ast.Call) and isinstance(e.func, ast.Attribute) and e.func.attr in ("decode", "encode"):
        e = e.func.value
    return e


def _field_of(e, func=None, depth=0):
    """Which Feature field a tuple element projects.  Local names are
    followed to their definition; a call of a local one-argument helper or
    lambda (e.g. an identity/decode wrapper) is looked through."""
    e = _strip_decode(e)
    if func is not None and isinstance(e, ast.Name) and depth < 4:
        from ..util import resolve_name
        r = resolve_name(e, func)
        if r is not e:
            return _field_of(r, func, depth + 1)
    if isinstance(e, ast.Attribute) and is_name(e.value, "self"):
        return e.attr, "plain"
    if isinstance(e, ast.Call) and call_attr(e) == "_jsonify" and len(e.args) == 1:
        fld, how = _field_of(e.args[0], func, depth + 1)
        if fld is not None and how == "plain":
            return fld, "json"
    if isinstance(e, ast.Call) and call_attr(e) == "calc_bin" and not e.args and not e.keywords:
        return "bin", "calc"
    if isinstance(e, ast.Call) and isinstance(e.func, ast.Name) and len(e.args) == 1 and not e.keywords and func is not None \
            and e.func.id in func.locals and depth < 4:
        return _field_of(e.args[0], func, depth + 1)
    return None, norm(e)


def returned_tuples(func):
    """Tuple displays returned by a function, following one level of local
    list/tuple building (`x = [...]; return tuple(x)`)."""
    out = []
    from ..model import walk_own
    for r in [n for n in walk_own(func.node) if isinstance(n, ast.Return) and n.value is not None]:
        v = r.value
        if isinstance(v, ast.Call) and is_name(v.func, "tuple") and v.args:
            v = v.args[0]
        if isinstance(v, ast.Name):
            a = single_assignment(func.node, v.id)
            if a is not None:
                v = a
        if isinstance(v, (ast.Tuple, ast.List)):
            out.append((r, v))
        else:
            out.append((r, None))
    return out


def r1(ctx):
    keys = ctx.folder.const("constants", "_keys")
    sch = S.schema_from_script(ctx.folder.const("constants", "SCHEMA"))
    ctx.require("features" in sch, "SCHEMA has no features table")
    fcols = sch["features"]["columns"]
    cm = ctx.proj.module("constants")
    ctx.ob("R1", set(fcols) == set(keys), "CREATE TABLE features has exactly the columns of constants._keys",
           node=cm.toplevel.get("SCHEMA"), sig="features columns %s vs _keys %s" % (sorted(set(fcols) ^ set(keys)), "agree")
           if set(fcols) != set(keys) else "features columns = _keys")
    ins = S.parse(ctx.folder.const("constants", "_INSERT"))
    ok = ins.verb == "INSERT" and ins.table.lower() == "features" and [c.lower() for c in (ins.columns or [])] == list(keys) \
        and len(ins.values) == len(keys) and all(v[0] == "param" for v in ins.values)
    ctx.ob("R1", ok, "_INSERT names the columns of _keys in order with one placeholder each", node=cm.toplevel.get("_INSERT"),
           sig="_INSERT columns %s" % (ins.columns,) if not ok else "_INSERT = _keys")
    sel = S.parse(ctx.folder.const("constants", "_SELECT"))
    cols = []
    for e, alias in sel.cols:
        cols.append((e[2].lower() if e[0] == "col" else S.show(e), alias))
    ok = sel.verb == "SELECT" and [c for c, _ in cols[:len(keys)]] == list(keys) and len(cols) == len(keys) + 1 \
        and cols[-1] == ("rowid", "file_order") and sel.tables() == ["features"] and sel.where is None
    ctx.ob("R1", ok, "_SELECT projects _keys in order plus rowid AS file_order from features", node=cm.toplevel.get("_SELECT"),
           sig="_SELECT = _keys + file_order" if ok else "_SELECT projects %s" % cols)
    upd = S.parse(ctx.folder.const("constants", "_UPDATE"))
    ok = upd.verb == "UPDATE" and upd.table.lower() == "features" and isinstance(upd.sets, list) and \
        [c.lower() for c, _ in upd.sets] == list(keys) and all(v[0] == "param" for _, v in upd.sets) and \
        upd.where is not None and upd.where[0] == "cmp" and upd.where[1] == "=" and \
        upd.where[2][0] == "col" and upd.where[2][2].lower() == "id" and upd.where[3][0] == "param"
    ctx.ob("R1", ok, "_UPDATE assigns _keys in order and ends with WHERE id = ?", node=cm.toplevel.get("_UPDATE"),
           sig="_UPDATE = _keys, WHERE id = ?" if ok else "_UPDATE sets %s where %s" % (
               [c for c, _ in upd.sets] if isinstance(upd.sets, list) else upd.sets, S.show(upd.where)))
    # ---- astuple
    at = require_func(ctx, "feature.Feature.astuple")
    rets = returned_tuples(at)
    ctx.floor("R1", len(rets), 1, "return paths of Feature.astuple")
    for r, tup in rets:
        if tup is None:
            ctx.ob("R1", False, "astuple returns a tuple display the rule can read", node=r, func=at,
                   sig="astuple returns %s" % norm(r.value))
            continue
        ok = len(tup.elts) == len(keys)
        ctx.ob("R1", ok, "astuple returns len(_keys) elements", node=r, func=at,
               sig="astuple arity %d" % len(tup.elts), nontrivial=False)
        if not ok:
            continue
        for i, (k, e) in enumerate(zip(keys, tup.elts)):
            fld, how = _field_of(e, at)
            want = {"attributes": "json", "extra": "json", "bin": "calc"}.get(k, "plain")
            # the bin column is only required to be the feature's bin here; that it is *recomputed* (not the cached
            # attribute) is C06.R3 / C12.R5's obligation, not a fidelity clause
            ok = fld == k and (how == want or (k == "bin" and how in ("calc", "plain")))
            ctx.ob("R1", ok, "astuple element %d projects the `%s` field (%s)" % (i, k, want), node=e, func=at,
                   sig="astuple[%d] (%s) = %s" % (i, k, norm(_strip_decode(e)) if not ok else "%s/%s" % (k, want)), nontrivial=(i < 12))
    # ---- Feature.__init__ accepts every selected column (rows are splatted)
    init = require_func(ctx, "feature.Feature.__init__")
    missing = [k for k in list(keys) + ["file_order"] if k not in init.params]
    ctx.ob("R1", not missing, "Feature.__init__ has a keyword parameter for every column of _SELECT (rows are passed as **row)",
           func=init, sig="Feature.__init__ lacks %s" % missing if missing else "Feature.__init__ accepts all _SELECT columns")
    # ---- call sites of _INSERT / _UPDATE
    n_ins = n_upd = 0
    for s in execute_sites(ctx):
        a0 = s.call.args[0]
        which = norm(a0).split(".")[-1]
        if which == "_INSERT":
            n_ins += 1
            p = s.params
            ok = isinstance(p, ast.Call) and call_attr(p) == "astuple"
            if not ok and enclosing(s.call, ast.ExceptHandler) is not None and s.func.name == "_replace":
                ctx.note("informational: %s binds %s to _INSERT in its ProgrammingError fallback (Python-2 leftover, "
                         "unreachable with str parameters)" % (s.func.qual, norm(p)))
                continue
            ctx.ob("R1", ok, "_INSERT is executed with <feature>.astuple()", node=s.call, func=s.func,
                   sig="%s: _INSERT bound to %s" % (s.func.name, "astuple()" if ok else norm(p) if p is not None else None))
        elif which == "_UPDATE":
            n_upd += 1
            found = None
            for n in ast.walk(s.func.node):
                if isinstance(n, ast.BinOp) and isinstance(n.op, ast.Add):
                    left_has = any(isinstance(c, ast.Call) and call_attr(c) == "astuple" for c in ast.walk(n.left))
                    right_ok = isinstance(n.right, (ast.List, ast.Tuple)) and len(n.right.elts) == 1 and \
                        isinstance(n.right.elts[0], ast.Attribute) and n.right.elts[0].attr == "id"
                    if left_has and right_ok:
                        found = n
            ctx.ob("R1", found is not None, "_UPDATE is executed with astuple() + [<feature>.id]", node=s.call, func=s.func,
                   sig="%s: _UPDATE bound to astuple()+[id]" % s.func.name if found is not None else
                   "%s: _UPDATE arguments are not astuple()+[id]" % s.func.name)
    ctx.floor("R1", n_ins, 3, "_INSERT execution sites")
    ctx.floor("R1", n_upd, 1, "_UPDATE execution sites")


def populate_methods(ctx):
    base = ctx.proj.cls("create._DBCreator")
    out = []
    for c in ctx.proj.subclasses(base, strict=True):
        m = c.methods.get("_populate_from_lines")
        if m is not None:
            out.append(m)
    return out


def inserting_functions(ctx):
    """Functions that execute constants._INSERT directly."""
    out = set()
    for s in execute_sites(ctx):
        if norm(s.call.args[0]).split(".")[-1] == "_INSERT":
            out.add(s.func.qual)
    return out


def r2(ctx):
    meths = populate_methods(ctx)
    ctx.floor("R2", len(meths), 2, "_populate_from_lines implementations")
    inserters = inserting_functions(ctx)
    for m in meths:
        ctx.touch(m)
        loop, fv = feature_loop(ctx, m)
        cfg = cfg_of(m)
        ins_calls = []
        for c in calls_in(m.node):
            fs, _d = ctx.proj.resolve_call(c, m)
            if any(g.qual in inserters for g in fs) and c.args and is_name(c.args[0], fv) and loop in list(parents(c)):
                ins_calls.append(c)
        primary = [c for c in ins_calls if enclosing(c, ast.ExceptHandler) is None]
        ctx.ob("R2", len(primary) == 1, "each parsed item has exactly one unconditional insert attempt in %s" % m.qual.split(".")[1],
               node=loop, func=m, sig="%d primary insert(s) of the loop item" % len(primary))
        if not primary:
            continue
        head = cfg.node_for(loop).id
        ins_nodes = {cfg.node_for(c).id for c in primary}
        first = [t for t, l in cfg.succ[head] if l == "true"]
        bypass = False
        for t in first:
            if t in ins_nodes:
                continue
            reach = cfg.reachable(t, avoid=ins_nodes, include_start=True)
            if head in reach or any(cfg.nodes[n].kind == "exit" for n in reach) or \
                    any(l == "false" and n == head for n in reach for _t, l in cfg.succ[n] if False):
                bypass = True
        ctx.ob("R2", not bypass, "every pass through the import loop reaches the insert of the item (no continue/break/return before it)",
               node=primary[0], func=m, sig="insert %s" % ("on every loop path" if not bypass else "can be bypassed inside the loop"))


def r3(ctx):
    from ..util import closure, walk_closure, resolve_name
    js = require_func(ctx, "helpers._jsonify")
    dumps = [c for c in calls_in(js.node) if call_attr(c) == "dumps"]
    ctx.floor("R3", len(dumps), 1, "json.dumps calls in _jsonify")
    raw = False
    for c in dumps:
        bad = [k.arg for k in c.keywords if k.arg in ("sort_keys", "default", "ensure_ascii", "cls", "indent") and not (
            isinstance(k.value, ast.Constant) and k.value.value in (False, None) and k.arg in ("sort_keys", "indent", "default", "cls"))]
        ctx.ob("R3", not bad, "the stored JSON keeps key order and content (no sort_keys/default/ensure_ascii overrides)", node=c, func=js,
               sig="json.dumps options %s" % (bad or "plain"))
        d = ctx.proj.dotted(c.func, js.module, js)
        ctx.ob("R3", d in ("simplejson.dumps", "json.dumps"), "serialisation uses the json module", node=c, func=js,
               sig="serialiser %s" % d, nontrivial=False)
    # the raw underlying dict of an Attributes mapping is what gets dumped: some read of `<param>._d` in _jsonify
    # (directly as the argument, or through a local chosen under the isinstance(dict_class) test)
    param = js.params[0]
    raw = any(isinstance(n, ast.Attribute) and n.attr == "_d" and is_name(n.value, param) for n in ast.walk(js.node))
    via_items = any(isinstance(n, ast.Call) and call_attr(n) in ("items", "keys", "values") and is_name(n.func.value, param) for n in ast.walk(js.node))
    ctx.ob("R3", raw and not via_items, "an Attributes mapping is serialised through its raw underlying dict (lists stay lists, "
           "independent of always_return_list)", func=js, sig="_jsonify dumps x._d" if raw and not via_items else "_jsonify never dumps the raw mapping")
    uj = require_func(ctx, "helpers._unjsonify")
    loads = [c for c in calls_in(uj.node) if call_attr(c) == "loads"]
    ctx.floor("R3", len(loads), 1, "json.loads calls in _unjsonify")
    for c in loads:
        d = ctx.proj.dotted(c.func, uj.module, uj)
        dd = [ctx.proj.dotted(x.func, js.module, js) for x in dumps]
        ok = all(d.split(".")[0] == x.split(".")[0] for x in dd if x)
        hooks = [k.arg for k in c.keywords if k.arg in ("object_hook", "object_pairs_hook", "parse_int", "parse_float", "parse_constant")]
        ctx.ob("R3", ok and not hooks, "decoder is the inverse of the encoder (same json binding, no hooks)", node=c, func=uj,
               sig="decoder %s hooks %s" % (d, hooks or "none"))
    wraps = [c for c in calls_in(uj.node) if ctx.proj.dotted(c.func, uj.module, uj) in ("attributes.dict_class", "attributes.Attributes")]
    ok = False
    for c in wraps:
        from ..util import flat_guards
        g = flat_guards(c, uj.node, uj)
        if "isattributes" in g:
            ok = True
        par = c._parent
        if isinstance(par, ast.IfExp) and norm(par.test) == "isattributes" and par.body is c:
            ok = True
    ctx.ob("R3", ok, "decoded attributes are re-wrapped in the attribute container when isattributes", func=uj,
           sig="_unjsonify wraps in dict_class under isattributes" if ok else "_unjsonify does not re-wrap attributes")
    init = require_func(ctx, "feature.Feature.__init__")
    scope = closure(ctx, init)
    calls = [(f, c) for f, c in walk_closure(scope, ast.Call) if call_attr(c) == "_unjsonify"]
    with_attr = [c for f, c in calls if isinstance(kwarg(c, "isattributes"), ast.Constant) and kwarg(c, "isattributes").value is True]
    without = [c for f, c in calls if kwarg(c, "isattributes") is None or (isinstance(kwarg(c, "isattributes"), ast.Constant) and kwarg(c, "isattributes").value is False)]
    ctx.ob("R3", len(with_attr) >= 1, "string attributes are decoded with isattributes=True", func=init,
           sig="Feature.__init__ decodes attributes with isattributes=True" if with_attr else "Feature.__init__ never decodes attributes as an attribute mapping")
    ctx.ob("R3", len(without) >= 1, "string extra is decoded as a plain list", func=init,
           sig="Feature.__init__ decodes extra as a plain list" if without else "Feature.__init__ decodes extra with isattributes")


def _feature_returner_semantics(ctx, fr):
    """Evaluate _feature_returner abstractly: which keyword set reaches the Feature constructor."""
    from ..absint import Interp, Sym, Opaque, Unsupported
    out = {}
    for label, kw in (("nothing given", {}), ("dialect given", {"dialect": Sym("given_dialect", "any", True), "id": Sym("row_id", "str", True)})):
        it = Interp(ctx)
        selfobj = Opaque("self", "obj")
        for a in ("dialect", "keep_order", "sort_attribute_values"):
            selfobj.attrs[a] = Sym("self." + a, "any", True)
        try:
            traces = it.run(fr, dict(kw), self_obj=selfobj)
        except Unsupported as e:
            return None, str(e)
        cons = [e for t in traces for e in t.events if e[0] == "construct"]
        if len(traces) != 1 or len(cons) != 1:
            return None, "%d traces / %d constructions" % (len(traces), len(cons))
        out[label] = (cons[0][1], {k: getattr(v, "name", v) for k, v in cons[0][3].items()})
    return out, None


def r4(ctx):
    from ..util import closure
    from ..sqlbind import bound_rows, select_unpack, Unbound
    sch = S.schema_from_script(ctx.folder.const("constants", "SCHEMA"))
    fin = require_func(ctx, "create._DBCreator._finalize")
    scope = closure(ctx, fin)
    sites = [s for s in execute_sites(ctx, scope) if s.stmts and s.stmts[0].verb == "INSERT" and s.stmts[0].table.lower() == "meta"]
    ctx.ob("R4", len(sites) >= 1, "finalisation records the dialect in `meta`", func=fin, sig="meta row written by _finalize" if sites else "_finalize never inserts into `meta`")
    for s in sites:
        try:
            rows = bound_rows(s, sch, s.func)
            val = rows[0][0].get("dialect")
            shown = norm(val) if val is not None and not isinstance(val, tuple) else None
        except Unbound as e:
            shown = "unreadable (%s)" % e
        ctx.ob("R4", shown == "helpers._jsonify(self.iterator.dialect)", "the dialect persisted in meta is the JSON of the iterator's (file-wide) dialect",
               node=s.call, func=s.func, sig="meta.dialect := %s" % shown)
    init = require_func(ctx, "interface.FeatureDB.__init__")
    iscope = closure(ctx, init)
    msel = [s for s in execute_sites(ctx, iscope) if s.stmts and s.stmts[0].verb == "SELECT" and s.stmts[0].tables() == ["meta"]]
    ctx.floor("R4", len(msel), 1, "SELECT ... FROM meta sites")
    pairs, _n = select_unpack(msel[0], msel[0].func)
    dname = dict(pairs).get("dialect") if pairs else None
    ctx.ob("R4", dname is not None, "the meta row is unpacked column by column in the order it is selected", func=init,
           sig="meta row unpack %s" % (pairs,), nontrivial=False)
    asg = [n for f in iscope for n in ast.walk(f.node) if isinstance(n, ast.Assign) and any(norm(t) == "self.dialect" for t in n.targets)]
    ok = bool(asg) and dname is not None and all(isinstance(n.value, ast.Call) and call_attr(n.value) == "_unjsonify" and n.value.args and
                                                is_name(n.value.args[0], dname) for n in asg)
    ctx.ob("R4", ok, "FeatureDB.dialect is the decoded meta.dialect", func=init,
           sig="self.dialect := decoded meta.dialect" if ok else "self.dialect := %s (meta.dialect is bound to %s)" % (norm(asg[0].value) if asg else None, dname))
    fr = require_func(ctx, "interface.FeatureDB._feature_returner")
    sem, err = _feature_returner_semantics(ctx, fr)
    if sem is None:
        ctx.ob("R4", False, "_feature_returner builds the Feature from the row plus the database's defaults", func=fr, sig="_feature_returner not analysable: %s" % err)
    else:
        cls0, kw0 = sem["nothing given"]
        ok = cls0.endswith("Feature") and all(kw0.get(k) == "self." + k for k in ("dialect", "keep_order", "sort_attribute_values"))
        ctx.ob("R4", ok, "_feature_returner defaults dialect, keep_order and sort_attribute_values from the database object", func=fr,
               sig="defaults %s" % sorted((k, v) for k, v in kw0.items() if k in ("dialect", "keep_order", "sort_attribute_values")))
        cls1, kw1 = sem["dialect given"]
        ok = kw1.get("dialect") == "given_dialect" and kw1.get("id") == "row_id" and kw1.get("keep_order") == "self.keep_order"
        ctx.ob("R4", ok, "explicitly given keywords win over the defaults and every row column reaches the constructor", func=fr,
               sig="explicit keywords kept" if ok else "explicit keywords lost: %s" % sorted(kw1.items()))
    db = ctx.proj.cls("interface.FeatureDB")
    n_ret = 0
    # who-constructs: FeatureDB methods never build a Feature from a row directly
    for m in ctx.proj.funcs.values():
        if m.module.name != "interface":
            continue
        owner = m
        while owner.parent is not None:
            owner = owner.parent
        if owner.cls is not db:
            continue
        for c in calls_in(m.node):
            d = ctx.proj.dotted(c.func, m.module, m)
            if d == "feature.Feature" and m is not fr:
                ctx.ob("R4", False, "every Feature handed out by FeatureDB is built by _feature_returner (carries the database dialect)",
                       node=c, func=m, sig="direct Feature(...) construction in %s" % m.qual.split("FeatureDB.")[-1])
            if call_attr(c) == "_feature_returner":
                n_ret += 1
    ctx.floor("R4", n_ret, 6, "_feature_returner call sites")
    ctx.ob("R4", True, "%d _feature_returner call sites, no direct construction" % n_ret, func=fr,
           sig="who-constructs: only _feature_returner", nontrivial=True)


def r5(ctx):
    gk = ctx.folder.const("constants", "_gffkeys")
    ai = gk.index("attributes")
    ffl = require_func(ctx, "feature.feature_from_line")
    from ..absint import Interp, Sym, Opaque, AStr, Unsupported
    # ---- parsing a line: which constructor keywords receive which column, by abstract evaluation of feature_from_line
    def sk_summary(interp, pos, kw, node):
        interp.trace.events.append(("split_keyvals", pos, kw, node))
        return (Sym("ATTRS", "any", True), Sym("INFERRED", "any", True))
    for ncols in (9, 11, 8):
        cols = [Sym("c%d" % (i + 1), "str", True) for i in range(ncols)]
        parts = []
        for i, c in enumerate(cols):
            if i:
                parts.append("\t")
            parts.append(c)
        line = AStr(parts + ["\n"])
        for dial in (None, Sym("GIVEN", "any", True)):
            it = Interp(ctx, {"parser._split_keyvals": sk_summary})
            label = "%d columns, dialect %s" % (ncols, "given" if dial is not None else "inferred")
            try:
                traces = it.run(ffl, {"line": line, "dialect": dial, "strict": True, "keep_order": Sym("KO", "any", None)})
            except Unsupported as e:
                ctx.ob("R5", False, "feature_from_line is within the analysable subset", func=ffl, sig="feature_from_line not analysable: %s" % e)
                continue
            for t in traces:
                cons = [e for e in t.events if e[0] == "construct"]
                sk = [e for e in t.events if e[0] == "split_keyvals"]
                if t.result[0] != "return" or len(cons) != 1:
                    ctx.ob("R5", False, "a strict tab-separated line is turned into one Feature (%s)" % label, func=ffl,
                           sig="feature_from_line(%s): %s" % (label, t.result[:2] if t.result[0] != "return" else "%d constructions" % len(cons)))
                    continue
                kw = cons[0][3]
                def nm(v):
                    if isinstance(v, Sym):
                        return v.name
                    if isinstance(v, AStr) and len(v.parts) == 1 and isinstance(v.parts[0], Sym):
                        return v.parts[0].name
                    if isinstance(v, list):
                        return [nm(x) for x in v]
                    return v
                got = {k: nm(v) for k, v in kw.items()}
                exp = {k: "c%d" % (i + 1) for i, k in enumerate(gk[:-1]) if i < ncols}
                exp["attributes"] = "ATTRS"
                exp["extra"] = ["c%d" % (i + 1) for i in range(len(gk), ncols)]
                exp["dialect"] = "GIVEN" if dial is not None else "INFERRED"
                exp["keep_order"] = "KO"
                ok = all(got.get(k) == v for k, v in exp.items()) and set(got) <= set(exp)
                ctx.ob("R5", ok, "columns 1-8 become the fixed fields, column 9 the parsed attributes, further columns the extras; the dialect is the "
                       "supplied one, else the inferred one (%s)" % label, func=ffl,
                       sig="feature_from_line keywords ok (%s)" % label if ok else "feature_from_line(%s) builds %s" % (label, sorted((k, str(v)) for k, v in got.items() if exp.get(k) != v)))
                a = nm(sk[0][1][0]) if sk and sk[0][1] else None
                want_attr = "c%d" % (ai + 1) if ncols > ai else ""
                okd = len(sk) == 1 and a == want_attr and nm(sk[0][2].get("dialect", sk[0][1][1] if len(sk[0][1]) > 1 else None)) == ("GIVEN" if dial is not None else None)
                ctx.ob("R5", okd, "the attribute column (column %d, '' when absent) is parsed with the supplied dialect (None = infer)" % (ai + 1), func=ffl,
                       sig="attribute column parsed: %s" % a if okd else "attribute parser called with %s / %s" % (a, {k: nm(v) for k, v in (sk[0][2] if sk else {}).items()}),
                       nontrivial=False)
    # ---- the non-strict form: blank-separated columns, at most nine of them (blanks inside the attribute column survive)
    for sep in (" ", "  "):
        cols = [Sym("c%d" % (i + 1), "str", True) for i in range(len(gk) + 1)]
        parts = []
        for i, c in enumerate(cols):
            if i:
                parts.append(sep)
            parts.append(c)
        line = AStr(parts + ["\n"])
        it = Interp(ctx, {"parser._split_keyvals": sk_summary})
        it.hole_free_of = " \t\n\r"
        try:
            traces = it.run(ffl, {"line": line, "dialect": None, "strict": False, "keep_order": False})
        except Unsupported as e:
            ctx.ob("R5", False, "feature_from_line (non-strict) is within the analysable subset", func=ffl, sig="feature_from_line not analysable: %s" % e)
            continue
        for t in traces:
            cons = [e for e in t.events if e[0] == "construct"]
            sk = [e for e in t.events if e[0] == "split_keyvals"]
            def nm(v):
                if isinstance(v, Sym):
                    return v.name
                if isinstance(v, AStr):
                    return "".join(p if isinstance(p, str) else p.name for p in v.parts)
                if isinstance(v, list):
                    return [nm(x) for x in v]
                return v
            ok = t.result[0] == "return" and len(cons) == 1 and len(sk) == 1
            got = None
            if ok:
                kw = cons[0][3]
                got = {k: nm(kw.get(k)) for k in gk[:-1]}
                got["<attribute text>"] = nm(sk[0][1][0]) if sk[0][1] else None
                got["extra"] = nm(kw.get("extra"))
                exp = {k: "c%d" % (i + 1) for i, k in enumerate(gk[:-1])}
                exp["<attribute text>"] = "c%d%sc%d" % (len(gk), sep, len(gk) + 1)
                exp["extra"] = []
                ok = got == exp or (got["extra"] in ([], None) and {k: v for k, v in got.items() if k != "extra"} == {k: v for k, v in exp.items() if k != "extra"})
            ctx.ob("R5", ok, "the non-strict form splits on runs of blanks at most %d times: columns 1-8 are the fixed fields and the rest of the line, blanks included, is the attribute column (separator %r)" % (len(gk) - 1, sep),
                   func=ffl, sig="non-strict line split into nine columns" if ok else "non-strict line (separator %r): %s" % (sep, t.result[:2] if got is None else sorted((k, str(v)) for k, v in got.items() if exp.get(k) != v)))
    # ---- printing: the line template of Feature.__unicode__, by abstract evaluation over a symbolic feature
    uni = require_func(ctx, "feature.Feature.__unicode__")
    from ..absint import Interp, Sym, Opaque, AStr, Unsupported
    cols = list(gk[:-1])

    def summary(interp, pos, kw, node):
        interp.trace.events.append(("reconstruct", pos, kw, node))
        return Sym("ATTRIBUTES", "str", True)
    for start_none in (False, True):
        for extra in ([], [Sym("x1", "str", True), Sym("x2", "str", True)]):
            it = Interp(ctx, {"parser._reconstruct": summary})
            me = Opaque("self", "obj")
            for c in cols:
                me.attrs[c] = Sym(c, "int" if c in ("start", "end") else "str", True)
            if start_none:
                me.attrs["start"] = None
                me.attrs["end"] = None
            me.attrs["stop"] = me.attrs["end"]
            me.attrs["chrom"] = me.attrs["seqid"]
            me.attrs["attributes"] = Sym("self.attributes", "any", True)
            me.attrs["dialect"] = Sym("self.dialect", "any", True)
            me.attrs["keep_order"] = Sym("self.keep_order", "any", None)
            me.attrs["sort_attribute_values"] = Sym("self.sort_attribute_values", "any", None)
            me.attrs["extra"] = list(extra)
            label = "start/end %s, %d extra columns" % ("None" if start_none else "given", len(extra))
            try:
                traces = it.run(uni, {}, self_obj=me)
            except Unsupported as e:
                ctx.ob("R5", False, "Feature.__unicode__ is within the analysable subset", func=uni, sig="__unicode__ not analysable: %s" % e)
                continue
            want = []
            for c in cols:
                want.append("." if (start_none and c in ("start", "end")) else ("hole", c))
            want.append(("hole", "ATTRIBUTES"))
            want += [("hole", x.name) for x in extra]
            for t in traces:
                got = None
                if t.result[0] == "return":
                    v = t.result[1]
                    parts = v.parts if isinstance(v, AStr) else [v] if isinstance(v, str) else None
                    if parts is not None:
                        got = []
                        for p_ in parts:
                            if isinstance(p_, str):
                                segs = p_.split("\t")
                                for i_, sg in enumerate(segs):
                                    if i_:
                                        got.append("\t")
                                    if sg:
                                        got.append(sg)
                            elif isinstance(p_, Sym):
                                got.append(("hole", p_.name))
                            else:
                                got.append(("?", repr(p_)))
                exp = []
                for i_, w in enumerate(want):
                    if i_:
                        exp.append("\t")
                    exp.append(w)
                ok = got == exp
                shown = "".join(x if isinstance(x, str) else "<%s>" % x[1] for x in (got or [])).replace("\t", "|")
                ctx.ob("R5", ok, "the printed line is the eight fixed columns in _gffkeys order, the attribute string, then the extra columns, TAB-separated "
                       "('.' for a missing coordinate) -- %s" % label, func=uni,
                       sig="line template ok (%s)" % label if ok else "line template (%s): %s" % (label, shown if got is not None else t.result[:2]))
                rec = [e for e in t.events if e[0] == "reconstruct"]
                okr = len(rec) == 1 and [getattr(a, "name", a) for a in rec[0][1][:2]] == ["self.attributes", "self.dialect"] and \
                    getattr(rec[0][2].get("keep_order"), "name", None) == "self.keep_order" and \
                    getattr(rec[0][2].get("sort_attribute_values"), "name", None) == "self.sort_attribute_values"
                ctx.ob("R5", okr, "the attribute string is rebuilt from the feature's own mapping, dialect and print flags", func=uni,
                       sig="_reconstruct(self.attributes, self.dialect, keep_order=self.keep_order, sort_attribute_values=...)" if okr else
                       "_reconstruct called with %s" % ([getattr(a, "name", a) for a in rec[0][1]] if rec else None), nontrivial=False)
    init = require_func(ctx, "feature.Feature.__init__")
    from ..builders import bins_summary
    for label, sv, ev, want in (("'.' / ''", ".", "", (None, None)), ("None", None, None, (None, None)),
                                ("text", Sym("S", "str", True), Sym("E", "str", True), ("int(S)", "int(E)"))):
        it = Interp(ctx, {"bins.bins": bins_summary})
        me = Opaque("self", "obj")
        try:
            traces = it.run(init, {"start": sv, "end": ev}, self_obj=me)
        except Unsupported as e:
            ctx.ob("R5", False, "Feature.__init__ is within the analysable subset", func=init, sig="Feature.__init__ not analysable: %s" % e)
            break
        from ..absint import ACond
        for t in traces:
            # the symbolic text stands for a number: skip the forks in which it was taken to be a '.'/'' placeholder
            if any(isinstance(d[0], ACond) and d[0].op == "==" and d[1] is True and isinstance(d[0].right, str) for d in t.decisions):
                continue
            stores = {e[2]: e[3] for e in t.events if e[0] == "setattr" and e[1] is me}
            def shown(v):
                if v is None:
                    return None
                if isinstance(v, Sym):
                    return "int(%s)" % v.name if v.kind == "int" else v.name
                return repr(v)
            got = (shown(stores.get("start")), shown(stores.get("end")))
            ok = t.result[0] == "return" and got == want
            ctx.ob("R5", ok, "start/end given as %s are stored as %s (the inverse of printing '.')" % (label, want), func=init,
                   sig="coordinates %s -> %s" % (label, got) if t.result[0] == "return" else "Feature.__init__ raises %s" % (t.result[1],))


def check(ctx):
    ctx.explanation = (
        "Writer/reader table agreement decided on folded constants and the AST: CREATE TABLE, _INSERT, _SELECT, _UPDATE, "
        "Feature.astuple (every return path, element by element) and Feature.__init__ must describe the same 12 columns in the "
        "same order; every import loop reaches exactly one insert of its item on all CFG paths; the JSON codec is symmetric and "
        "order-preserving; the dialect flows iterator -> meta -> FeatureDB -> every Feature (who-constructs rule); column constants "
        "of feature_from_line/__unicode__ agree with _gffkeys. Does not decide byte-identity of printed lines, iteration order "
        "(no ORDER BY: SQLite's scan order) or re-import equivalence.")
    r1(ctx)
    r2(ctx)
    r3(ctx)
    r4(ctx)
    r5(ctx)
    # printing with the file's dialect: shape clauses shared with C07 (printer template over all dialect configurations,
    # no mutation of the shared dialect while printing, splitter/joiner literals, decode layer)
    from . import c07
    n0 = len(ctx.obs)
    rc = require_func(ctx, "parser._reconstruct")
    from ..util import closure
    for f_ in closure(ctx, rc):
        c07.no_dialect_mutation(ctx, f_, "R6")
    c07.r_printer(ctx, rule="R6")
    c07.r_roundtrip(ctx, rule="R6")
    for o in ctx.obs[n0:]:
        o.rule = "C01.R6"
