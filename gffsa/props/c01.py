"""C01 -- import fidelity (storage-table agreement, one write per line, JSON
codec pairing, dialect plumbing, column constants)."""
import ast

from .. import sql as S
from ..cfg import cfg_of
from ..model import norm, parents, enclosing
from ..util import (require_func, execute_sites, calls_in, call_attr, is_name, const_str, kwarg,
                    single_assignment)
from .c02 import feature_loop








def r1(ctx):
    keys = ctx.folder.const("constants", "_keys")
    sch = S.schema_from_script(ctx.folder.const("constants", "SCHEMA"))
    ctx.require("features" in sch, "SCHEMA has no features table")
    fcols = sch["features"]["columns"]
    cm = ctx.proj.module("constants")
    ctx.ob("R1", set(fcols) == set(keys), "CREATE TABLE features has exactly the columns of constants._keys",
           node=cm.toplevel.get("SCHEMA"), sig="features columns %s vs _keys %s" % (sorted(set(fcols) ^ set(keys)), "agree")
           if set(fcols) != set(keys) else "features columns = _keys")
    ins = S.parse(ctx.folder.const("constants", "_INSERT"))
    ok = ins.verb == "INSERT" and ins.table.lower() == "features" and [c.lower() for c in (ins.columns or [])] == list(keys) \
        and len(ins.values) == len(keys) and all(v[0] == "param" for v in ins.values)
    ctx.ob("R1", ok, "_INSERT names the columns of _keys in order with one placeholder each", node=cm.toplevel.get("_INSERT"),
           sig="_INSERT columns %s" % (ins.columns,) if not ok else "_INSERT = _keys")
    sel = S.parse(ctx.folder.const("constants", "_SELECT"))
    cols = []
    for e, alias in sel.cols:
        cols.append((e[2].lower() if e[0] == "col" else S.show(e), alias))
    ok = sel.verb == "SELECT" and [c for c, _ in cols[:len(keys)]] == list(keys) and len(cols) == len(keys) + 1 \
        and cols[-1] == ("rowid", "file_order") and sel.tables() == ["features"] and sel.where is None
    ctx.ob("R1", ok, "_SELECT projects _keys in order plus rowid AS file_order from features", node=cm.toplevel.get("_SELECT"),
           sig="_SELECT = _keys + file_order" if ok else "_SELECT projects %s" % cols)
    upd = S.parse(ctx.folder.const("constants", "_UPDATE"))
    ok = upd.verb == "UPDATE" and upd.table.lower() == "features" and isinstance(upd.sets, list) and \
        [c.lower() for c, _ in upd.sets] == list(keys) and all(v[0] == "param" for _, v in upd.sets) and \
        upd.where is not None and upd.where[0] == "cmp" and upd.where[1] == "=" and \
        upd.where[2][0] == "col" and upd.where[2][2].lower() == "id" and upd.where[3][0] == "param"
    ctx.ob("R1", ok, "_UPDATE assigns _keys in order and ends with WHERE id = ?", node=cm.toplevel.get("_UPDATE"),
           sig="_UPDATE = _keys, WHERE id = ?" if ok else "_UPDATE sets %s where %s" % (
               [c for c, _ in upd.sets] if isinstance(upd.sets, list) else upd.sets, S.show(upd.where)))
    # ---- what a row holds, and what comes back: decided on the evaluated import / look-up (r_scenario)
    init = require_func(ctx, "feature.Feature.__init__")
    missing = [k for k in list(keys) + ["file_order"] if k not in init.params]
    ctx.ob("R1", not missing, "Feature.__init__ has a keyword parameter for every column of _SELECT (rows are passed as **row)",
           func=init, sig="Feature.__init__ lacks %s" % missing if missing else "Feature.__init__ accepts all _SELECT columns")


def r_scenario(ctx):
    """Import evaluated on the model database: every line becomes one row holding exactly its fields (attributes / extra as
    JSON, the bin of its coordinates); looking the id up returns a Feature with those fields; replace and _update store
    the new content under the id."""
    from . import scen
    keys = list(ctx.folder.const("constants", "_keys"))
    for cls, lines in (("_GFFDBCreator", scen.gff_lines() + [
            scen.feature("X1", "CDS", 5, 6, {"ID": ["c1"], "Parent": ["t1"], "note": ["a b", "c;d=e,f"]}, strand="-", source="S 1", score="0.5", frame="2", extra=["x1", "x 2"]),
            scen.feature("X2", "chromosome", None, None, {"ID": ["chrom"]}, strand=".")]),
                       ("_GTFDBCreator", scen.gtf_lines())):
        fpop = require_func(ctx, "create.%s._populate_from_lines" % cls)
        im, t = scen.run_create(ctx, cls, lines)
        if not scen.returned(ctx, t, "%s.create" % cls, func=fpop, rule="R2"):
            continue
        rows = [scen.decoded_row(r, keys) for r in im.table("features", keys)]
        by_id = {}
        for r in rows:
            by_id.setdefault(r["id"], []).append(r)
        bad = None
        for f in lines:
            got = by_id.get(f.attrs["id"], [])
            want = scen.expected_row(f, keys)
            if len(got) != 1:
                bad = "line %s (id %s) is stored %d times" % (f.name, f.attrs["id"], len(got))
                break
            diff = sorted(k for k in keys if got[0].get(k) != want[k])
            if diff:
                bad = "line %s (id %s): column(s) %s stored as %s, the line has %s" % (f.name, f.attrs["id"], diff, [got[0].get(k) for k in diff], [want[k] for k in diff])
                break
        ctx.ob("R2", bad is None, "every parsed line is stored as exactly one row under its id (%s, %d lines)" % (cls, len(lines)), func=fpop,
               sig="%s: one row per line" % cls if bad is None or "column" in bad else "%s: %s" % (cls, bad))
        ctx.ob("R1", bad is None or "column" not in bad, "the stored row holds the line's nine fields, attributes and extra as JSON, and the bin of its coordinates (%s)" % cls, func=fpop,
               sig="%s: rows equal the lines" % cls if bad is None or "column" not in bad else "%s: %s" % (cls, bad))
        order = [r["id"] for r in rows if r["id"] in {f.attrs["id"] for f in lines}]
        ctx.ob("R2", order == [f.attrs["id"] for f in lines], "rows are stored in file order (rowid = position of the line)", func=fpop,
               sig="%s: row order %s" % (cls, "= file order" if order == [f.attrs["id"] for f in lines] else order), nontrivial=False)
        # ---- read back through db[id]
        it, me, conn = scen.feature_db(ctx, im.db, fmt="gff3" if cls == "_GFFDBCreator" else "gtf")
        gi = require_func(ctx, "interface.FeatureDB.__getitem__")
        badr = None
        for pos_, f in enumerate(lines):
            t = scen.call_method(ctx, it, me, "interface.FeatureDB.__getitem__", key=f.attrs["id"])
            if t.result[0] != "return" or not hasattr(t.result[1], "attrs"):
                badr = "db[%r] %s %s" % (f.attrs["id"], t.result[0], t.result[1])
                break
            g = t.result[1].attrs
            diff = sorted(k for k in keys if k != "bin" and g.get(k) != f.attrs[k])
            if diff:
                badr = "db[%r].%s = %r, the line has %r" % (f.attrs["id"], diff[0], g.get(diff[0]), f.attrs[diff[0]])
                break
        ctx.ob("R4", badr is None, "db[id] returns a Feature whose fields, attribute mapping and extra columns equal the imported line's (%s)" % cls, func=gi,
               sig="%s: look-ups equal the lines" % cls if badr is None else "%s: %s" % (cls, badr))
    # ---- replace: the colliding line's content takes the id over
    lines = scen.gff_lines()[:3]
    newer = scen.feature("R1", "exon", 7, 9, {"ID": ["e1"], "Parent": ["t1"], "note": ["newer"]}, strand="-", source="other")
    im = scen.Import(ctx, "_GFFDBCreator", merge_strategy="replace")
    t = im.call("_populate_from_lines", lines=lines + [newer])
    frep = require_func(ctx, "create._DBCreator._replace")
    if scen.returned(ctx, t, "import with merge_strategy='replace'", func=frep, rule="R1"):
        rows = [scen.decoded_row(r, keys) for r in im.table("features", keys) if r[0] == "e1"]
        want = scen.expected_row(newer, keys)
        ok = len(rows) == 1 and all(rows[0].get(k) == want[k] for k in keys)
        ctx.ob("R1", ok, "replace stores the new line's full content under the id (UPDATE bound to the row's columns in order, then the id)", func=frep,
               sig="replaced row equals the new line" if ok else "replaced row: %s" % (rows[:1],))
    # ---- FeatureDB._update (through add_relation's parent_func)
    from ..absint import Callback
    im, _t = scen.run_create(ctx, "_GFFDBCreator", scen.gff_lines())
    it, me, conn = scen.feature_db(ctx, im.db)
    fu = require_func(ctx, "interface.FeatureDB._update")

    def edit(pos, kw):
        parent = pos[0]
        parent.attrs["attributes"]["edited"] = ["yes"]
        parent.attrs["end"] = 1234
        return parent
    t = scen.call_method(ctx, it, me, "interface.FeatureDB.add_relation", parent="g1", child="o1", level=1, parent_func=Callback("parent_func", None, edit))
    if scen.returned(ctx, t, "add_relation with parent_func", func=fu, rule="R1"):
        rows = [scen.decoded_row(r, keys) for r in im.db.rows("features", keys) if r[0] == "g1"]
        ok = len(rows) == 1 and rows[0]["end"] == 1234 and rows[0]["attributes"].get("edited") == ["yes"] and rows[0]["seqid"] == "chr1" and rows[0]["featuretype"] == "gene" \
            and len(im.db.rows("features")) == len(scen.gff_lines())
        ctx.ob("R1", ok, "_update rewrites exactly the row of the feature's id with its current fields", func=fu,
               sig="edited parent stored under its id" if ok else "after _update: %s" % (rows[:1],))


def populate_methods(ctx):
    base = ctx.proj.cls("create._DBCreator")
    out = []
    for c in ctx.proj.subclasses(base, strict=True):
        m = c.methods.get("_populate_from_lines")
        if m is not None:
            out.append(m)
    return out






def r3(ctx):
    """The JSON layer, evaluated: _jsonify on a plain mapping, on an Attributes mapping (under both settings of
    always_return_list) and on a list; _unjsonify with and without isattributes; Feature.__init__ on stored text."""
    import json as _json
    from ..absint import Interp, Opaque, TypeVal, Unsupported
    from ..scenario import install_json
    js = require_func(ctx, "helpers._jsonify")
    uj = require_func(ctx, "helpers._unjsonify")
    raw = {"b": ["2", "1"], "a": ["x"], "c": []}

    def run(func, args, switch=True, real=()):
        it = Interp(ctx, overrides={("constants", "always_return_list"): switch})
        install_json(it)
        it.construct_real |= set(real)
        try:
            tr = it.run(func, args)
        except Unsupported as e:
            ctx.require(False, "%s outside the analysable subset: %s" % (func.qual, e))
        ctx.require(len(tr) == 1, "%s forks on concrete input" % func.qual)
        return tr[0]

    def text_of(t):
        return t.result[1] if t.result[0] == "return" and isinstance(t.result[1], str) else None
    p0 = js.params[0]
    t = run(js, {p0: dict(raw)})
    txt = text_of(t)
    ok = txt is not None and _json.loads(txt) == raw and list(_json.loads(txt)) == list(raw)
    ctx.ob("R3", ok, "the stored JSON of a mapping keeps its keys, their order and the value lists", func=js, sig="_jsonify(mapping) round-trips" if ok else "_jsonify(mapping) = %r" % (t.result[1:],))
    for switch in (True, False):
        A = Opaque("A", "Attributes")
        A.attrs["_d"] = {k: list(v) for k, v in raw.items()}
        t = run(js, {p0: A}, switch=switch)
        txt = text_of(t)
        ok = txt is not None and _json.loads(txt) == raw and list(_json.loads(txt)) == list(raw)
        ctx.ob("R3", ok, "an Attributes mapping is serialised through its raw underlying dict: lists stay lists, independent of always_return_list (=%s)" % switch, func=js,
               sig="_jsonify(Attributes) stores the raw lists (switch %s)" % switch if ok else "_jsonify(Attributes), switch %s: %r" % (switch, t.result[1:],))
    t = run(js, {p0: ["x1", "x 2"]})
    ok = text_of(t) is not None and _json.loads(text_of(t)) == ["x1", "x 2"]
    ctx.ob("R3", ok, "extra columns are stored as a JSON list", func=js, sig="_jsonify(list) round-trips" if ok else "_jsonify(list) = %r" % (t.result[1:],), nontrivial=False)
    text = _json.dumps(raw, separators=(",", ":"))
    u0 = uj.params[0]
    t = run(uj, {u0: text})
    ok = t.result == ("return", raw) and list(t.result[1]) == list(raw)
    ctx.ob("R3", ok, "decoding is the inverse of encoding (keys, order, lists)", func=uj, sig="_unjsonify(text) = the mapping" if ok else "_unjsonify(text) = %r" % (t.result[1:],))
    t = run(uj, {u0: text, "isattributes": True}, real=("attributes.Attributes",))
    got = t.result[1] if t.result[0] == "return" else None
    ok = isinstance(got, Opaque) and got.kind == "Attributes" and got.attrs.get("_d") == raw and list(got.attrs.get("_d")) == list(raw)
    ctx.ob("R3", ok, "decoded attributes are re-wrapped in the attribute container when isattributes", func=uj,
           sig="_unjsonify wraps in dict_class under isattributes" if ok else "_unjsonify(text, isattributes=True) = %r" % (t.result[1:],))
    # two features decoded from equal text own their values: nothing is shared between the two results (one evaluator,
    # two calls -- a memoised decoder hands out the very same lists)
    it2 = Interp(ctx)
    install_json(it2)
    it2.construct_real |= {"attributes.Attributes"}
    res = []
    for _k in range(2):
        try:
            tr2 = it2.run(uj, {u0: text, "isattributes": True})
        except Unsupported as e:
            ctx.require(False, "helpers._unjsonify outside the analysable subset: %s" % e)
        res.append(tr2[0].result[1] if tr2 and tr2[0].result[0] == "return" else None)
    inner = lambda o_: o_.attrs.get("_d") if isinstance(o_, Opaque) else o_
    d1, d2 = inner(res[0]), inner(res[1])
    shared = isinstance(d1, dict) and isinstance(d2, dict) and (d1 is d2 or any(d1[k_] is d2.get(k_) for k_ in d1 if isinstance(d1[k_], list)))
    ok = isinstance(d1, dict) and isinstance(d2, dict) and not shared
    ctx.ob("R3", ok, "decoding the same stored text twice gives two independent mappings (no value list shared between features)", func=uj,
           sig="decoded mappings are independent" if ok else "two decodings of equal text share %s" % ("their value lists" if shared else "nothing decodable: %r" % (res[:1],)))
    # Feature.__init__ on what a row holds: attributes text -> attribute mapping, extra text -> list
    init = require_func(ctx, "feature.Feature.__init__")
    it = Interp(ctx)
    install_json(it)
    me = Opaque("F", "Feature")
    me.attrs["__class__"] = TypeVal("feature.Feature")
    seen = []
    it.summaries["helpers._unjsonify"] = lambda i, pos, kw, node: (seen.append((pos[0], kw.get("isattributes", pos[1] if len(pos) > 1 else False))), _json.loads(pos[0]))[1]
    try:
        tr = it.run(init, {"seqid": "chr1", "start": 1, "end": 2, "attributes": text, "extra": '["x1","x 2"]', "id": "k"}, self_obj=me)
    except Unsupported as e:
        ctx.require(False, "Feature.__init__ outside the analysable subset: %s" % e)
    ok = len(tr) == 1 and tr[0].result[0] == "return" and me.attrs.get("attributes") == raw and me.attrs.get("extra") == ["x1", "x 2"] \
        and (text, True) in seen and ('["x1","x 2"]', False) in seen
    ctx.ob("R3", ok, "Feature.__init__ decodes stored attributes as an attribute mapping (isattributes=True) and stored extra as a plain list", func=init,
           sig="Feature(attributes=text, extra=text) decodes both" if ok else "Feature.__init__: attributes=%r extra=%r decoder calls %s" % (me.attrs.get("attributes"), me.attrs.get("extra"), seen))


def _feature_returner_semantics(ctx, fr):
    """Evaluate _feature_returner abstractly: which keyword set reaches the Feature constructor."""
    from ..absint import Interp, Sym, Opaque, Unsupported
    out = {}
    for label, kw in (("nothing given", {}), ("dialect given", {"dialect": Sym("given_dialect", "any", True), "id": Sym("row_id", "str", True)})):
        it = Interp(ctx)
        selfobj = Opaque("self", "obj")
        for a in ("dialect", "keep_order", "sort_attribute_values"):
            selfobj.attrs[a] = Sym("self." + a, "any", True)
        try:
            traces = it.run(fr, dict(kw), self_obj=selfobj)
        except Unsupported as e:
            return None, str(e)
        cons = [e for t in traces for e in t.events if e[0] == "construct"]
        if len(traces) != 1 or len(cons) != 1:
            return None, "%d traces / %d constructions" % (len(traces), len(cons))
        out[label] = (cons[0][1], {k: getattr(v, "name", v) for k, v in cons[0][3].items()})
    return out, None


def r4(ctx):
    from ..util import closure
    from ..sqlbind import bound_rows, select_unpack, Unbound
    # the dialect of the file survives create -> reopen: create() evaluated on the model database with a distinctive
    # dialect, then FeatureDB(dbfn) evaluated on the result
    from . import scen
    fin = require_func(ctx, "create._DBCreator._finalize")
    init = require_func(ctx, "interface.FeatureDB.__init__")
    D = {"fmt": "gff3", "field separator": "; ", "keyval separator": "=", "order": ["ID", "Parent", "Name"], "repeated keys": False, "trailing semicolon": True}
    im, t = scen.run_create(ctx, "_GFFDBCreator", scen.gff_lines(), dialect=dict(D), directives=["gff-version 3"])
    if scen.returned(ctx, t, "create()", func=fin, rule="R4"):
        import json as _json
        meta = im.table("meta", ["dialect"])
        okm = len(meta) == 1 and isinstance(meta[0][0], str)
        try:
            okm = okm and _json.loads(meta[0][0]) == D
        except ValueError:
            okm = False
        ctx.ob("R4", okm, "finalisation records the iterator's (file-wide) dialect, as JSON, in one `meta` row", func=fin,
               sig="meta.dialect holds the file's dialect" if okm else "meta rows: %s" % (meta[:2],))
        it, me, conn, t2 = scen.open_feature_db(ctx, im.db)
        if scen.returned(ctx, t2, "FeatureDB(dbfn)", func=init, rule="R4"):
            got = me.attrs.get("dialect")
            ctx.ob("R4", got == D, "FeatureDB.dialect is the decoded meta.dialect: the dialect the file was imported with", func=init,
                   sig="reopened dialect equals the file's" if got == D else "reopened dialect %r" % (got,))
            # and it reaches every Feature handed out
            t3 = scen.call_method(ctx, it, me, "interface.FeatureDB.__getitem__", key="e2")
            f3 = t3.result[1] if t3.result[0] == "return" else None
            okd = hasattr(f3, "attrs") and f3.attrs.get("dialect") == D
            ctx.ob("R4", okd, "a Feature looked up in the reopened database carries that dialect", func=init,
                   sig="db['e2'].dialect is the file's" if okd else "db['e2'].dialect = %r" % (getattr(f3, "attrs", {}).get("dialect"),))
    fr = require_func(ctx, "interface.FeatureDB._feature_returner")
    sem, err = _feature_returner_semantics(ctx, fr)
    if sem is None:
        ctx.ob("R4", False, "_feature_returner builds the Feature from the row plus the database's defaults", func=fr, sig="_feature_returner not analysable: %s" % err)
    else:
        cls0, kw0 = sem["nothing given"]
        ok = cls0.endswith("Feature") and all(kw0.get(k) == "self." + k for k in ("dialect", "keep_order", "sort_attribute_values"))
        ctx.ob("R4", ok, "_feature_returner defaults dialect, keep_order and sort_attribute_values from the database object", func=fr,
               sig="defaults %s" % sorted((k, v) for k, v in kw0.items() if k in ("dialect", "keep_order", "sort_attribute_values")))
        cls1, kw1 = sem["dialect given"]
        ok = kw1.get("dialect") == "given_dialect" and kw1.get("id") == "row_id" and kw1.get("keep_order") == "self.keep_order"
        ctx.ob("R4", ok, "explicitly given keywords win over the defaults and every row column reaches the constructor", func=fr,
               sig="explicit keywords kept" if ok else "explicit keywords lost: %s" % sorted(kw1.items()))
    db = ctx.proj.cls("interface.FeatureDB")
    n_ret = 0
    # who-constructs: FeatureDB methods never build a Feature from a row directly
    for m in ctx.proj.funcs.values():
        if m.module.name != "interface":
            continue
        owner = m
        while owner.parent is not None:
            owner = owner.parent
        if owner.cls is not db:
            continue
        for c in calls_in(m.node):
            d = ctx.proj.dotted(c.func, m.module, m)
            if d == "feature.Feature" and m is not fr:
                ctx.ob("R4", False, "every Feature handed out by FeatureDB is built by _feature_returner (carries the database dialect)",
                       node=c, func=m, sig="direct Feature(...) construction in %s" % m.qual.split("FeatureDB.")[-1])
            if call_attr(c) == "_feature_returner":
                n_ret += 1
    ctx.floor("R4", n_ret, 1, "_feature_returner call sites")
    ctx.ob("R4", True, "%d _feature_returner call sites, no direct construction" % n_ret, func=fr,
           sig="who-constructs: only _feature_returner", nontrivial=True)


def _ctor_kwargs(ctx, cons):
    """Keyword view of a recorded Feature(...) construction: positional arguments named after Feature.__init__'s parameters."""
    init = ctx.proj.func("feature.Feature.__init__")
    names = [p for p in init.params if p != "self"]
    kw = dict(zip(names, cons[2] or []))
    kw.update(cons[3] or {})
    return kw


def r5(ctx):
    gk = ctx.folder.const("constants", "_gffkeys")
    ai = gk.index("attributes")
    ffl = require_func(ctx, "feature.feature_from_line")
    from ..absint import Interp, Sym, Opaque, AStr, Unsupported
    # ---- parsing a line: which constructor keywords receive which column, by abstract evaluation of feature_from_line
    def sk_summary(interp, pos, kw, node):
        interp.trace.events.append(("split_keyvals", pos, kw, node))
        return (Sym("ATTRS", "any", True), Sym("INFERRED", "any", True))
    for ncols in (9, 11, 8):
        cols = [Sym("c%d" % (i + 1), "str", True) for i in range(ncols)]
        parts = []
        for i, c in enumerate(cols):
            if i:
                parts.append("\t")
            parts.append(c)
        line = AStr(parts + ["\n"])
        for dial in (None, Sym("GIVEN", "any", True)):
            it = Interp(ctx, {"parser._split_keyvals": sk_summary})
            label = "%d columns, dialect %s" % (ncols, "given" if dial is not None else "inferred")
            try:
                traces = it.run(ffl, {"line": line, "dialect": dial, "strict": True, "keep_order": Sym("KO", "any", None)})
            except Unsupported as e:
                ctx.ob("R5", False, "feature_from_line is within the analysable subset", func=ffl, sig="feature_from_line not analysable: %s" % e)
                continue
            for t in traces:
                cons = [e for e in t.events if e[0] == "construct"]
                sk = [e for e in t.events if e[0] == "split_keyvals"]
                if t.result[0] != "return" or len(cons) != 1:
                    ctx.ob("R5", False, "a strict tab-separated line is turned into one Feature (%s)" % label, func=ffl,
                           sig="feature_from_line(%s): %s" % (label, t.result[:2] if t.result[0] != "return" else "%d constructions" % len(cons)))
                    continue
                kw = _ctor_kwargs(ctx, cons[0])
                def nm(v):
                    if isinstance(v, Sym):
                        return v.name
                    if isinstance(v, AStr) and len(v.parts) == 1 and isinstance(v.parts[0], Sym):
                        return v.parts[0].name
                    if isinstance(v, list):
                        return [nm(x) for x in v]
                    return v
                got = {k: nm(v) for k, v in kw.items()}
                exp = {k: "c%d" % (i + 1) for i, k in enumerate(gk[:-1]) if i < ncols}
                exp["attributes"] = "ATTRS"
                exp["extra"] = ["c%d" % (i + 1) for i in range(len(gk), ncols)]
                exp["dialect"] = "GIVEN" if dial is not None else "INFERRED"
                exp["keep_order"] = "KO"
                ok = all(got.get(k) == v for k, v in exp.items()) and set(got) <= set(exp)
                ctx.ob("R5", ok, "columns 1-8 become the fixed fields, column 9 the parsed attributes, further columns the extras; the dialect is the "
                       "supplied one, else the inferred one (%s)" % label, func=ffl,
                       sig="feature_from_line keywords ok (%s)" % label if ok else "feature_from_line(%s) builds %s" % (label, sorted((k, str(v)) for k, v in got.items() if exp.get(k) != v)))
                a = nm(sk[0][1][0]) if sk and sk[0][1] else None
                want_attr = "c%d" % (ai + 1) if ncols > ai else ""
                okd = len(sk) == 1 and a == want_attr and nm(sk[0][2].get("dialect", sk[0][1][1] if len(sk[0][1]) > 1 else None)) == ("GIVEN" if dial is not None else None)
                ctx.ob("R5", okd, "the attribute column (column %d, '' when absent) is parsed with the supplied dialect (None = infer)" % (ai + 1), func=ffl,
                       sig="attribute column parsed: %s" % a if okd else "attribute parser called with %s / %s" % (a, {k: nm(v) for k, v in (sk[0][2] if sk else {}).items()}),
                       nontrivial=False)
    # ---- the non-strict form: blank-separated columns, at most nine of them (blanks inside the attribute column survive)
    for sep in (" ", "  "):
        cols = [Sym("c%d" % (i + 1), "str", True) for i in range(len(gk) + 1)]
        parts = []
        for i, c in enumerate(cols):
            if i:
                parts.append(sep)
            parts.append(c)
        line = AStr(parts + ["\n"])
        it = Interp(ctx, {"parser._split_keyvals": sk_summary})
        it.hole_free_of = " \t\n\r"
        try:
            traces = it.run(ffl, {"line": line, "dialect": None, "strict": False, "keep_order": False})
        except Unsupported as e:
            ctx.ob("R5", False, "feature_from_line (non-strict) is within the analysable subset", func=ffl, sig="feature_from_line not analysable: %s" % e)
            continue
        for t in traces:
            cons = [e for e in t.events if e[0] == "construct"]
            sk = [e for e in t.events if e[0] == "split_keyvals"]
            def nm(v):
                if isinstance(v, Sym):
                    return v.name
                if isinstance(v, AStr):
                    return "".join(p if isinstance(p, str) else p.name for p in v.parts)
                if isinstance(v, list):
                    return [nm(x) for x in v]
                return v
            ok = t.result[0] == "return" and len(cons) == 1 and len(sk) == 1
            got = None
            if ok:
                kw = _ctor_kwargs(ctx, cons[0])
                got = {k: nm(kw.get(k)) for k in gk[:-1]}
                got["<attribute text>"] = nm(sk[0][1][0]) if sk[0][1] else None
                got["extra"] = nm(kw.get("extra"))
                exp = {k: "c%d" % (i + 1) for i, k in enumerate(gk[:-1])}
                exp["<attribute text>"] = "c%d%sc%d" % (len(gk), sep, len(gk) + 1)
                exp["extra"] = []
                ok = got == exp or (got["extra"] in ([], None) and {k: v for k, v in got.items() if k != "extra"} == {k: v for k, v in exp.items() if k != "extra"})
            ctx.ob("R5", ok, "the non-strict form splits on runs of blanks at most %d times: columns 1-8 are the fixed fields and the rest of the line, blanks included, is the attribute column (separator %r)" % (len(gk) - 1, sep),
                   func=ffl, sig="non-strict line split into nine columns" if ok else "non-strict line (separator %r): %s" % (sep, t.result[:2] if got is None else sorted((k, str(v)) for k, v in got.items() if exp.get(k) != v)))
    # ---- printing: the line template of Feature.__unicode__, by abstract evaluation over a symbolic feature
    uni = require_func(ctx, "feature.Feature.__unicode__")
    from ..absint import Interp, Sym, Opaque, AStr, Unsupported
    cols = list(gk[:-1])

    def summary(interp, pos, kw, node):
        interp.trace.events.append(("reconstruct", pos, kw, node))
        return Sym("ATTRIBUTES", "str", True)
    for start_none in (False, True):
        for extra in ([], [Sym("x1", "str", True), Sym("x2", "str", True)]):
            it = Interp(ctx, {"parser._reconstruct": summary})
            me = Opaque("self", "obj")
            for c in cols:
                me.attrs[c] = Sym(c, "int" if c in ("start", "end") else "str", True)
            if start_none:
                me.attrs["start"] = None
                me.attrs["end"] = None
            me.attrs["stop"] = me.attrs["end"]
            me.attrs["chrom"] = me.attrs["seqid"]
            me.attrs["attributes"] = Sym("self.attributes", "any", True)
            me.attrs["dialect"] = Sym("self.dialect", "any", True)
            me.attrs["keep_order"] = Sym("self.keep_order", "any", None)
            me.attrs["sort_attribute_values"] = Sym("self.sort_attribute_values", "any", None)
            me.attrs["extra"] = list(extra)
            label = "start/end %s, %d extra columns" % ("None" if start_none else "given", len(extra))
            try:
                traces = it.run(uni, {}, self_obj=me)
            except Unsupported as e:
                ctx.ob("R5", False, "Feature.__unicode__ is within the analysable subset", func=uni, sig="__unicode__ not analysable: %s" % e)
                continue
            want = []
            for c in cols:
                want.append("." if (start_none and c in ("start", "end")) else ("hole", c))
            want.append(("hole", "ATTRIBUTES"))
            want += [("hole", x.name) for x in extra]
            for t in traces:
                got = None
                if t.result[0] == "return":
                    v = t.result[1]
                    parts = v.parts if isinstance(v, AStr) else [v] if isinstance(v, str) else None
                    if parts is not None:
                        got = []
                        for p_ in parts:
                            if isinstance(p_, str):
                                segs = p_.split("\t")
                                for i_, sg in enumerate(segs):
                                    if i_:
                                        got.append("\t")
                                    if sg:
                                        got.append(sg)
                            elif isinstance(p_, Sym):
                                got.append(("hole", p_.name))
                            else:
                                got.append(("?", repr(p_)))
                exp = []
                for i_, w in enumerate(want):
                    if i_:
                        exp.append("\t")
                    exp.append(w)
                ok = got == exp
                shown = "".join(x if isinstance(x, str) else "<%s>" % x[1] for x in (got or [])).replace("\t", "|")
                ctx.ob("R5", ok, "the printed line is the eight fixed columns in _gffkeys order, the attribute string, then the extra columns, TAB-separated "
                       "('.' for a missing coordinate) -- %s" % label, func=uni,
                       sig="line template ok (%s)" % label if ok else "line template (%s): %s" % (label, shown if got is not None else t.result[:2]))
                rec = [e for e in t.events if e[0] == "reconstruct"]
                okr = len(rec) == 1 and [getattr(a, "name", a) for a in rec[0][1][:2]] == ["self.attributes", "self.dialect"] and \
                    getattr(rec[0][2].get("keep_order"), "name", None) == "self.keep_order" and \
                    getattr(rec[0][2].get("sort_attribute_values"), "name", None) == "self.sort_attribute_values"
                ctx.ob("R5", okr, "the attribute string is rebuilt from the feature's own mapping, dialect and print flags", func=uni,
                       sig="_reconstruct(self.attributes, self.dialect, keep_order=self.keep_order, sort_attribute_values=...)" if okr else
                       "_reconstruct called with %s" % ([getattr(a, "name", a) for a in rec[0][1]] if rec else None), nontrivial=False)
    init = require_func(ctx, "feature.Feature.__init__")
    from ..builders import bins_summary
    for label, sv, ev, want in (("'.' / ''", ".", "", (None, None)), ("None", None, None, (None, None)),
                                ("text", Sym("S", "str", True), Sym("E", "str", True), ("int(S)", "int(E)"))):
        it = Interp(ctx, {"bins.bins": bins_summary})
        me = Opaque("self", "obj")
        try:
            traces = it.run(init, {"start": sv, "end": ev}, self_obj=me)
        except Unsupported as e:
            ctx.ob("R5", False, "Feature.__init__ is within the analysable subset", func=init, sig="Feature.__init__ not analysable: %s" % e)
            break
        from ..absint import ACond
        for t in traces:
            # the symbolic text stands for a number: skip the forks in which it was taken to be a '.'/'' placeholder
            if any(isinstance(d[0], ACond) and d[0].op == "==" and d[1] is True and isinstance(d[0].right, str) for d in t.decisions):
                continue
            stores = {e[2]: e[3] for e in t.events if e[0] == "setattr" and e[1] is me}
            def shown(v):
                if v is None:
                    return None
                if isinstance(v, Sym):
                    return "int(%s)" % v.name if v.kind == "int" else v.name
                return repr(v)
            got = (shown(stores.get("start")), shown(stores.get("end")))
            ok = t.result[0] == "return" and got == want
            ctx.ob("R5", ok, "start/end given as %s are stored as %s (the inverse of printing '.')" % (label, want), func=init,
                   sig="coordinates %s -> %s" % (label, got) if t.result[0] == "return" else "Feature.__init__ raises %s" % (t.result[1],))


FILES = {
    "GFF3": ("file.gff3", "ID", [
        "chr1\tsrc\tgene\t100\t900\t.\t+\t.\tID=g1;Name=G one",
        "chr1\tsrc\tmRNA\t100\t900\t.\t+\t.\tID=t1;Parent=g1",
        "chr1\tsrc\texon\t100\t200\t.\t+\t.\tID=e1;Parent=t1;note=a%3Bb,c d",
        "chr1\tsrc\texon\t300\t900\t0.5\t-\t2\tID=e2;Parent=t1;description=similar to kinase 1, putative",
        "chr1\tsrc\texon\t950\t990\t.\t+\t.\tID=e3;Parent=t1,t0;flag",
        "chr2\tsrc 2\tregion\t.\t.\t.\t.\t.\tID=r1;pct=100%25;Dbxref=A:1,B:2",
        "chr1\tsrc\texon\t995\t999\t.\t+\t.\tID=e4;Parent=t1;description=similar to kinase 2, putative\textra1\textra 2",
    ]),
    "GFF3 with blanks after the semicolons": ("spaced.gff3", "ID", [
        "chr1\tsrc\tgene\t100\t900\t.\t+\t.\tID=g1; Name=G1",
        "chr1\tsrc\tmRNA\t100\t900\t.\t+\t.\tID=t1; Parent=g1; Note=x",
        "chr1\tsrc\texon\t100\t200\t.\t+\t.\tID=e1; Parent=t1; Note=y,z",
    ]),
    "GTF": ("file.gtf", None, [
        'chr1\tsrc\texon\t100\t200\t.\t+\t.\tgene_id "g1"; transcript_id "t1"; exon_number "1";',
        'chr1\tsrc\texon\t300\t400\t.\t+\t.\tgene_id "g1"; transcript_id "t1"; exon_number "2"; note "two words";',
        'chr1\tsrc\tCDS\t150\t350\t.\t+\t0\tgene_id "g1"; transcript_id "t1"; protein_id "p1";',
        'chr2\tsrc\texon\t10\t90\t.\t-\t.\tgene_id "g2"; transcript_id "t2"; exon_number "1";',
    ]),
}


def r_lines(ctx):
    """Line in, line out: create_db evaluated end to end on small files (the package's own iterators, parser, importer and
    model database), every stored feature printed, and each data line of the file found again byte for byte."""
    from . import scen
    f = require_func(ctx, "feature.Feature.__unicode__")
    n = 0
    for label, (path, id_attr, lines) in FILES.items():
        for head in (["##gff-version 3", "#a comment", ""], []):
            for checklines in (1, 2, 10):
                text = "\n".join(head + lines) + "\n"
                it, db, t = scen.create_db_from_text(ctx, text, path=path, checklines=checklines)
                n += 1
                where = "%s file, %s, checklines=%d" % (label, "with a header" if head else "no header", checklines)
                if not scen.returned(ctx, t, "create_db (%s)" % where, func=f, rule="R6"):
                    continue
                fdb = t.result[1]
                ta = scen.call_method(ctx, it, fdb, "interface.FeatureDB.all_features")
                feats = list(ta.result[1]) if ta.result[0] == "return" else []
                out = [scen.printed(ctx, it, x) for x in feats]
                # derived features of a GTF import are additional lines; the file's own lines must all be there, in file order
                own = [o for o in out if o in lines]
                bad = None
                if own != lines:
                    missing = [ln for ln in lines if ln not in out]
                    k = lines.index(missing[0]) if missing else None
                    near = [o for o in out if isinstance(o, str) and missing and o.split("\t")[:5] == missing[0].split("\t")[:5]]
                    bad = "line %d is not printed back: %r; the database prints %r" % (k + 1, missing[0], near[:1]) if missing else "lines printed in another order"
                ctx.ob("R6", bad is None, "every data line of a consistently written file is printed back byte for byte by the features of the database built from it, "
                       "in file order (%s)" % where, func=f, sig="%s: %d lines printed back" % (where, len(lines)) if bad is None else "%s: %s" % (where, bad))
    ctx.floor("R6", n, 12, "files imported end to end")


def check(ctx):
    ctx.explanation = (
        "Writer/reader table agreement decided on folded constants and the AST: CREATE TABLE, _INSERT, _SELECT, _UPDATE, "
        "Feature.astuple (every return path, element by element) and Feature.__init__ must describe the same 12 columns in the "
        "same order; every import loop reaches exactly one insert of its item on all CFG paths; the JSON codec is symmetric and "
        "order-preserving; the dialect flows iterator -> meta -> FeatureDB -> every Feature (who-constructs rule); column constants "
        "of feature_from_line/__unicode__ agree with _gffkeys. Does not decide byte-identity of printed lines, iteration order "
        "(no ORDER BY: SQLite's scan order) or re-import equivalence.")
    r1(ctx)
    r_scenario(ctx)
    r_lines(ctx)
    r3(ctx)
    r4(ctx)
    r5(ctx)
    # printing with the file's dialect: shape clauses shared with C07 (printer template over all dialect configurations,
    # no mutation of the shared dialect while printing, splitter/joiner literals, decode layer)
    from . import c07
    n0 = len(ctx.obs)
    rc = require_func(ctx, "parser._reconstruct")
    from ..util import closure
    for f_ in closure(ctx, rc):
        c07.no_dialect_mutation(ctx, f_, "R6")
    c07.r_printer(ctx, rule="R6")
    c07.r_roundtrip(ctx, rule="R6")
    c07.r_literal(ctx, rule="R6")
    for o in ctx.obs[n0:]:
        o.rule = "C01.R6"
