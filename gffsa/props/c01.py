"""C01 -- import fidelity (storage-table agreement, one write per line, JSON
codec pairing, dialect plumbing, column constants)."""
import ast

from .. import sql as S
from ..cfg import cfg_of
from ..model import norm, parents, enclosing
from ..util import (require_func, execute_sites, calls_in, call_attr, is_name, const_str, kwarg,
                    single_assignment)
from .c02 import feature_loop


def _strip_decode(e):
    while isinstance(e, ast.Call) and isinstance(e.func, ast.Attribute) and e.func.attr in ("decode", "encode"):
        e = e.func.value
    return e


def _field_of(e):
    """Which Feature field a tuple element projects."""
    e = _strip_decode(e)
    if isinstance(e, ast.Attribute) and is_name(e.value, "self"):
        return e.attr, "plain"
    if isinstance(e, ast.Call) and call_attr(e) == "_jsonify" and len(e.args) == 1:
        a = e.args[0]
        if isinstance(a, ast.Attribute) and is_name(a.value, "self"):
            return a.attr, "json"
    if isinstance(e, ast.Call) and call_attr(e) == "calc_bin" and not e.args and not e.keywords:
        return "bin", "calc"
    return None, norm(e)


def returned_tuples(func):
    """Tuple displays returned by a function, following one level of local
    list/tuple building (`x = [...]; return tuple(x)`)."""
    out = []
    for r in [n for n in ast.walk(func.node) if isinstance(n, ast.Return) and n.value is not None]:
        v = r.value
        if isinstance(v, ast.Call) and is_name(v.func, "tuple") and v.args:
            v = v.args[0]
        if isinstance(v, ast.Name):
            a = single_assignment(func.node, v.id)
            if a is not None:
                v = a
        if isinstance(v, (ast.Tuple, ast.List)):
            out.append((r, v))
        else:
            out.append((r, None))
    return out


def r1(ctx):
    keys = ctx.folder.const("constants", "_keys")
    sch = S.schema_from_script(ctx.folder.const("constants", "SCHEMA"))
    ctx.require("features" in sch, "SCHEMA has no features table")
    fcols = sch["features"]["columns"]
    cm = ctx.proj.module("constants")
    ctx.ob("R1", set(fcols) == set(keys), "CREATE TABLE features has exactly the columns of constants._keys",
           node=cm.toplevel.get("SCHEMA"), sig="features columns %s vs _keys %s" % (sorted(set(fcols) ^ set(keys)), "agree")
           if set(fcols) != set(keys) else "features columns = _keys")
    ins = S.parse(ctx.folder.const("constants", "_INSERT"))
    ok = ins.verb == "INSERT" and ins.table.lower() == "features" and [c.lower() for c in (ins.columns or [])] == list(keys) \
        and len(ins.values) == len(keys) and all(v[0] == "param" for v in ins.values)
    ctx.ob("R1", ok, "_INSERT names the columns of _keys in order with one placeholder each", node=cm.toplevel.get("_INSERT"),
           sig="_INSERT columns %s" % (ins.columns,) if not ok else "_INSERT = _keys")
    sel = S.parse(ctx.folder.const("constants", "_SELECT"))
    cols = []
    for e, alias in sel.cols:
        cols.append((e[2].lower() if e[0] == "col" else S.show(e), alias))
    ok = sel.verb == "SELECT" and [c for c, _ in cols[:len(keys)]] == list(keys) and len(cols) == len(keys) + 1 \
        and cols[-1] == ("rowid", "file_order") and sel.tables() == ["features"] and sel.where is None
    ctx.ob("R1", ok, "_SELECT projects _keys in order plus rowid AS file_order from features", node=cm.toplevel.get("_SELECT"),
           sig="_SELECT = _keys + file_order" if ok else "_SELECT projects %s" % cols)
    upd = S.parse(ctx.folder.const("constants", "_UPDATE"))
    ok = upd.verb == "UPDATE" and upd.table.lower() == "features" and isinstance(upd.sets, list) and \
        [c.lower() for c, _ in upd.sets] == list(keys) and all(v[0] == "param" for _, v in upd.sets) and \
        upd.where is not None and upd.where[0] == "cmp" and upd.where[1] == "=" and \
        upd.where[2][0] == "col" and upd.where[2][2].lower() == "id" and upd.where[3][0] == "param"
    ctx.ob("R1", ok, "_UPDATE assigns _keys in order and ends with WHERE id = ?", node=cm.toplevel.get("_UPDATE"),
           sig="_UPDATE = _keys, WHERE id = ?" if ok else "_UPDATE sets %s where %s" % (
               [c for c, _ in upd.sets] if isinstance(upd.sets, list) else upd.sets, S.show(upd.where)))
    # ---- astuple
    at = require_func(ctx, "feature.Feature.astuple")
    rets = returned_tuples(at)
    ctx.floor("R1", len(rets), 1, "return paths of Feature.astuple")
    for r, tup in rets:
        if tup is None:
            ctx.ob("R1", False, "astuple returns a tuple display the rule can read", node=r, func=at,
                   sig="astuple returns %s" % norm(r.value))
            continue
        ok = len(tup.elts) == len(keys)
        ctx.ob("R1", ok, "astuple returns len(_keys) elements", node=r, func=at,
               sig="astuple arity %d" % len(tup.elts), nontrivial=False)
        if not ok:
            continue
        for i, (k, e) in enumerate(zip(keys, tup.elts)):
            fld, how = _field_of(e)
            want = {"attributes": "json", "extra": "json", "bin": "calc"}.get(k, "plain")
            # the bin column is only required to be the feature's bin here; that it is *recomputed* (not the cached
            # attribute) is C06.R3 / C12.R5's obligation, not a fidelity clause
            ok = fld == k and (how == want or (k == "bin" and how in ("calc", "plain")))
            ctx.ob("R1", ok, "astuple element %d projects the `%s` field (%s)" % (i, k, want), node=e, func=at,
                   sig="astuple[%d] (%s) = %s" % (i, k, norm(_strip_decode(e)) if not ok else "%s/%s" % (k, want)), nontrivial=(i < 12))
    # ---- Feature.__init__ accepts every selected column (rows are splatted)
    init = require_func(ctx, "feature.Feature.__init__")
    missing = [k for k in list(keys) + ["file_order"] if k not in init.params]
    ctx.ob("R1", not missing, "Feature.__init__ has a keyword parameter for every column of _SELECT (rows are passed as **row)",
           func=init, sig="Feature.__init__ lacks %s" % missing if missing else "Feature.__init__ accepts all _SELECT columns")
    # ---- call sites of _INSERT / _UPDATE
    n_ins = n_upd = 0
    for s in execute_sites(ctx):
        a0 = s.call.args[0]
        which = norm(a0).split(".")[-1]
        if which == "_INSERT":
            n_ins += 1
            p = s.params
            ok = isinstance(p, ast.Call) and call_attr(p) == "astuple"
            if not ok and enclosing(s.call, ast.ExceptHandler) is not None and s.func.name == "_replace":
                ctx.note("informational: %s binds %s to _INSERT in its ProgrammingError fallback (Python-2 leftover, "
                         "unreachable with str parameters)" % (s.func.qual, norm(p)))
                continue
            ctx.ob("R1", ok, "_INSERT is executed with <feature>.astuple()", node=s.call, func=s.func,
                   sig="%s: _INSERT bound to %s" % (s.func.name, "astuple()" if ok else norm(p) if p is not None else None))
        elif which == "_UPDATE":
            n_upd += 1
            found = None
            for n in ast.walk(s.func.node):
                if isinstance(n, ast.BinOp) and isinstance(n.op, ast.Add):
                    left_has = any(isinstance(c, ast.Call) and call_attr(c) == "astuple" for c in ast.walk(n.left))
                    right_ok = isinstance(n.right, (ast.List, ast.Tuple)) and len(n.right.elts) == 1 and \
                        isinstance(n.right.elts[0], ast.Attribute) and n.right.elts[0].attr == "id"
                    if left_has and right_ok:
                        found = n
            ctx.ob("R1", found is not None, "_UPDATE is executed with astuple() + [<feature>.id]", node=s.call, func=s.func,
                   sig="%s: _UPDATE bound to astuple()+[id]" % s.func.name if found is not None else
                   "%s: _UPDATE arguments are not astuple()+[id]" % s.func.name)
    ctx.floor("R1", n_ins, 3, "_INSERT execution sites")
    ctx.floor("R1", n_upd, 1, "_UPDATE execution sites")


def populate_methods(ctx):
    base = ctx.proj.cls("create._DBCreator")
    out = []
    for c in ctx.proj.subclasses(base, strict=True):
        m = c.methods.get("_populate_from_lines")
        if m is not None:
            out.append(m)
    return out


def inserting_functions(ctx):
    """Functions that execute constants._INSERT directly."""
    out = set()
    for s in execute_sites(ctx):
        if norm(s.call.args[0]).split(".")[-1] == "_INSERT":
            out.add(s.func.qual)
    return out


def r2(ctx):
    meths = populate_methods(ctx)
    ctx.floor("R2", len(meths), 2, "_populate_from_lines implementations")
    inserters = inserting_functions(ctx)
    for m in meths:
        ctx.touch(m)
        loop, fv = feature_loop(ctx, m)
        cfg = cfg_of(m)
        ins_calls = []
        for c in calls_in(m.node):
            fs, _d = ctx.proj.resolve_call(c, m)
            if any(g.qual in inserters for g in fs) and c.args and is_name(c.args[0], fv) and loop in list(parents(c)):
                ins_calls.append(c)
        primary = [c for c in ins_calls if enclosing(c, ast.ExceptHandler) is None]
        ctx.ob("R2", len(primary) == 1, "each parsed item has exactly one unconditional insert attempt in %s" % m.qual.split(".")[1],
               node=loop, func=m, sig="%d primary insert(s) of the loop item" % len(primary))
        if not primary:
            continue
        head = cfg.node_for(loop).id
        ins_nodes = {cfg.node_for(c).id for c in primary}
        first = [t for t, l in cfg.succ[head] if l == "true"]
        bypass = False
        for t in first:
            if t in ins_nodes:
                continue
            reach = cfg.reachable(t, avoid=ins_nodes, include_start=True)
            if head in reach or any(cfg.nodes[n].kind == "exit" for n in reach) or \
                    any(l == "false" and n == head for n in reach for _t, l in cfg.succ[n] if False):
                bypass = True
        ctx.ob("R2", not bypass, "every pass through the import loop reaches the insert of the item (no continue/break/return before it)",
               node=primary[0], func=m, sig="insert %s" % ("on every loop path" if not bypass else "can be bypassed inside the loop"))


def r3(ctx):
    js = require_func(ctx, "helpers._jsonify")
    dumps = [c for c in calls_in(js.node) if call_attr(c) == "dumps"]
    ctx.floor("R3", len(dumps), 1, "json.dumps calls in _jsonify")
    raw = False
    for c in dumps:
        bad = [k.arg for k in c.keywords if k.arg in ("sort_keys", "default", "ensure_ascii", "cls", "indent") and not (
            isinstance(k.value, ast.Constant) and k.value.value in (False, None) and k.arg in ("sort_keys", "indent", "default", "cls"))]
        ctx.ob("R3", not bad, "the stored JSON keeps key order and content (no sort_keys/default/ensure_ascii overrides)", node=c, func=js,
               sig="json.dumps options %s" % (bad or "plain"))
        a = c.args[0] if c.args else None
        if isinstance(a, ast.Attribute) and a.attr == "_d":
            raw = True
        d = ctx.proj.dotted(c.func, js.module, js)
        ctx.ob("R3", d in ("simplejson.dumps", "json.dumps"), "serialisation uses the json module", node=c, func=js,
               sig="serialiser %s" % d, nontrivial=False)
    ctx.ob("R3", raw, "an Attributes mapping is serialised through its raw underlying dict (lists stay lists, "
           "independent of always_return_list)", func=js, sig="_jsonify dumps x._d" if raw else "_jsonify never dumps the raw mapping")
    uj = require_func(ctx, "helpers._unjsonify")
    loads = [c for c in calls_in(uj.node) if call_attr(c) == "loads"]
    ctx.floor("R3", len(loads), 1, "json.loads calls in _unjsonify")
    for c in loads:
        d = ctx.proj.dotted(c.func, uj.module, uj)
        dd = [ctx.proj.dotted(x.func, js.module, js) for x in dumps]
        ok = all(d.split(".")[0] == x.split(".")[0] for x in dd if x)
        hooks = [k.arg for k in c.keywords if k.arg in ("object_hook", "object_pairs_hook", "parse_int", "parse_float", "parse_constant")]
        ctx.ob("R3", ok and not hooks, "decoder is the inverse of the encoder (same json binding, no hooks)", node=c, func=uj,
               sig="decoder %s hooks %s" % (d, hooks or "none"))
    wraps = [c for c in calls_in(uj.node) if ctx.proj.dotted(c.func, uj.module, uj) in ("attributes.dict_class", "attributes.Attributes")]
    ok = False
    for c in wraps:
        for p in parents(c):
            if isinstance(p, ast.If) and "isattributes" in norm(p.test) and not norm(p.test).startswith("not"):
                ok = True
    ctx.ob("R3", ok, "decoded attributes are re-wrapped in the attribute container when isattributes", func=uj,
           sig="_unjsonify wraps in dict_class under isattributes" if ok else "_unjsonify does not re-wrap attributes")
    init = require_func(ctx, "feature.Feature.__init__")
    calls = [c for c in calls_in(init.node) if call_attr(c) == "_unjsonify"]
    got = {}
    for c in calls:
        tgt = norm(c.args[0]) if c.args else None
        isa = kwarg(c, "isattributes")
        got[tgt] = isinstance(isa, ast.Constant) and isa.value is True
    ctx.ob("R3", got.get("attributes") is True, "string attributes are decoded with isattributes=True", func=init,
           sig="Feature.__init__ decodes attributes: %s" % got.get("attributes"))
    ctx.ob("R3", got.get("extra") is False, "string extra is decoded as a plain list", func=init,
           sig="Feature.__init__ decodes extra: isattributes=%s" % got.get("extra"))


def r4(ctx):
    fin = require_func(ctx, "create._DBCreator._finalize")
    sites = [s for s in execute_sites(ctx, [fin]) if s.stmts and s.stmts[0].verb == "INSERT" and s.stmts[0].table.lower() == "meta"]
    ctx.floor("R4", len(sites), 1, "INSERT INTO meta sites")
    for s in sites:
        st = s.stmts[0]
        names = [v[2] for v in st.values if v[0] == "param"]
        cols = [c.lower() for c in (st.columns or [])]
        ok = "dialect" in cols and names and cols.index("dialect") < len(names) and names[cols.index("dialect")] == "dialect"
        p = s.params
        val = None
        if isinstance(p, ast.Call) and is_name(p.func, "dict"):
            val = kwarg(p, "dialect")
        elif isinstance(p, ast.Dict):
            for k, v in zip(p.keys, p.values):
                if const_str(k) == "dialect":
                    val = v
        okv = val is not None and norm(val) == "helpers._jsonify(self.iterator.dialect)"
        ctx.ob("R4", ok and okv, "the dialect persisted in meta is the JSON of the iterator's (file-wide) dialect", node=s.call, func=fin,
               sig="meta.dialect := %s" % (norm(val) if val is not None else "?"))
    init = require_func(ctx, "interface.FeatureDB.__init__")
    msel = [s for s in execute_sites(ctx, [init]) if s.stmts and s.stmts[0].verb == "SELECT" and s.stmts[0].tables() == ["meta"]]
    ctx.floor("R4", len(msel), 1, "SELECT ... FROM meta sites")
    cols = [e[2].lower() for e, _a in msel[0].stmts[0].cols if e[0] == "col"]
    unpack = [n for n in ast.walk(init.node) if isinstance(n, ast.Assign) and isinstance(n.targets[0], ast.Tuple)
              and isinstance(n.value, ast.Call) and call_attr(n.value) == "fetchone"]
    ok = bool(unpack) and [getattr(e, "id", None) for e in unpack[0].targets[0].elts] == cols
    ctx.ob("R4", ok, "the meta row is unpacked in the order it is selected", func=init,
           sig="meta select %s unpacked as %s" % (cols, [getattr(e, "id", None) for e in unpack[0].targets[0].elts] if unpack else None))
    asg = [n for n in ast.walk(init.node) if isinstance(n, ast.Assign) and any(norm(t) == "self.dialect" for t in n.targets)]
    ok = bool(asg) and all(isinstance(n.value, ast.Call) and call_attr(n.value) == "_unjsonify" and n.value.args and
                           is_name(n.value.args[0], "dialect") for n in asg)
    ctx.ob("R4", ok, "FeatureDB.dialect is the decoded meta.dialect", func=init,
           sig="self.dialect := %s" % (norm(asg[0].value) if asg else None))
    fr = require_func(ctx, "interface.FeatureDB._feature_returner")
    defaults = {}
    for c in calls_in(fr.node):
        if call_attr(c) == "setdefault" and len(c.args) == 2 and const_str(c.args[0]):
            defaults[const_str(c.args[0])] = norm(c.args[1])
    for k in ("dialect", "keep_order", "sort_attribute_values"):
        ctx.ob("R4", defaults.get(k) == "self." + k, "_feature_returner defaults `%s` from the database object" % k, func=fr,
               sig="_feature_returner %s := %s" % (k, defaults.get(k)))
    ctor = [c for c in calls_in(fr.node) if ctx.proj.dotted(c.func, fr.module, fr) == "feature.Feature"]
    ctx.ob("R4", len(ctor) == 1 and any(k.arg is None for k in ctor[0].keywords) if ctor else False,
           "_feature_returner constructs the Feature from the completed keyword set", func=fr,
           sig="_feature_returner constructs Feature(**kwargs)" if ctor else "_feature_returner does not construct a Feature")
    # who-constructs: FeatureDB methods never build a Feature from a row directly
    db = ctx.proj.cls("interface.FeatureDB")
    n_ret = 0
    for m in ctx.proj.funcs.values():
        if m.module.name != "interface":
            continue
        owner = m
        while owner.parent is not None:
            owner = owner.parent
        if owner.cls is not db:
            continue
        for c in calls_in(m.node):
            d = ctx.proj.dotted(c.func, m.module, m)
            if d == "feature.Feature" and m is not fr:
                ctx.ob("R4", False, "every Feature handed out by FeatureDB is built by _feature_returner (carries the database dialect)",
                       node=c, func=m, sig="direct Feature(...) construction in %s" % m.qual.split("FeatureDB.")[-1])
            if call_attr(c) == "_feature_returner":
                n_ret += 1
    ctx.floor("R4", n_ret, 6, "_feature_returner call sites")
    ctx.ob("R4", True, "%d _feature_returner call sites, no direct construction" % n_ret, func=fr,
           sig="who-constructs: only _feature_returner", nontrivial=True)


def r5(ctx):
    gk = ctx.folder.const("constants", "_gffkeys")
    ai = gk.index("attributes")
    ffl = require_func(ctx, "feature.feature_from_line")
    # attribute column index
    subs = [n for n in ast.walk(ffl.node) if isinstance(n, ast.Subscript) and is_name(n.value, "fields")]
    idx = [n for n in subs if isinstance(n.slice, ast.Constant)]
    ctx.floor("R5", len(idx), 1, "constant-index reads of `fields` in feature_from_line")
    for n in idx:
        ctx.ob("R5", n.slice.value == ai, "the attribute column is column %d (index of 'attributes' in _gffkeys)" % ai, node=n, func=ffl,
               sig="attribute column read: %s" % norm(n))
    sl = [n for n in subs if isinstance(n.slice, ast.Slice)]
    ctx.floor("R5", len(sl), 1, "slices of `fields` in feature_from_line")
    for n in sl:
        lo = n.slice.lower
        ok = isinstance(lo, ast.Constant) and lo.value == len(gk) and n.slice.upper is None
        ctx.ob("R5", ok, "extra columns start after the %d standard columns" % len(gk), node=n, func=ffl,
               sig="extras slice %s" % norm(n))
    splits = [c for c in calls_in(ffl.node) if call_attr(c) == "split" and len(c.args) == 2]
    for c in splits:
        ok = isinstance(c.args[1], ast.Constant) and c.args[1].value == len(gk) - 1 and isinstance(c.args[0], ast.Constant) and c.args[0].value is None
        ctx.ob("R5", ok, "the non-strict form splits on blanks at most %d times (9 columns)" % (len(gk) - 1), node=c, func=ffl,
               sig="blank split %s" % norm(c))
    ctx.floor("R5", len(splits), 1, "maxsplit splits in feature_from_line")
    tabs = [c for c in calls_in(ffl.node) if call_attr(c) == "split" and len(c.args) == 1 and const_str(c.args[0]) == "\t"]
    ctx.floor("R5", len(tabs), 2, "tab splits in feature_from_line")
    zips = [c for c in calls_in(ffl.node) if is_name(c.func, "zip")]
    ok = any(len(c.args) == 2 and norm(c.args[0]) == "constants._gffkeys" and is_name(c.args[1], "fields") for c in zips)
    ctx.ob("R5", ok, "columns are named by zipping _gffkeys with the fields", func=ffl,
           sig="zip(_gffkeys, fields)" if ok else "column naming: %s" % [norm(c) for c in zips])
    stores = {}
    for n in ast.walk(ffl.node):
        if isinstance(n, ast.Assign) and isinstance(n.targets[0], ast.Subscript) and is_name(n.targets[0].value, "d"):
            stores[const_str(n.targets[0].slice)] = norm(n.value)
    ctx.ob("R5", stores.get("attributes") == "attrs", "the parsed mapping replaces the raw attribute column", func=ffl,
           sig="d['attributes'] := %s" % stores.get("attributes"))
    # ---- printing
    uni = require_func(ctx, "feature.Feature.__unicode__")
    src = [n for n in ast.walk(uni.node) if isinstance(n, (ast.ListComp,)) and "constants._gffkeys[:-1]" in norm(n)]
    ctx.ob("R5", bool(src) and "getattr(self, k)" in norm(src[0]), "printing starts from the 8 fixed columns in _gffkeys order", func=uni,
           sig="printed columns from %s" % (norm(src[0].generators[0].iter) if src else "?"))
    si, ei = gk.index("start"), gk.index("end")
    tests = {}
    for n in ast.walk(uni.node):
        if isinstance(n, ast.If) and isinstance(n.test, ast.Compare) and isinstance(n.test.left, ast.Subscript) and \
                is_name(n.test.left.value, "items") and isinstance(n.test.left.slice, ast.Constant) and \
                isinstance(n.test.ops[0], ast.Is) and isinstance(n.test.comparators[0], ast.Constant) and n.test.comparators[0].value is None:
            body = n.body[0] if n.body else None
            tests[n.test.left.slice.value] = norm(body.value) if isinstance(body, ast.Assign) else None
    ctx.ob("R5", tests.get(si) == "'.'" and tests.get(ei) == "'.'", "a missing start/end is printed as '.'", func=uni,
           sig="None coordinates printed as %s at indices %s" % (sorted(set(map(str, tests.values()))), sorted(tests)))
    joins = [c for c in calls_in(uni.node) if call_attr(c) == "join" and const_str(c.func.value) == "\t"]
    ctx.ob("R5", len(joins) >= 2, "columns and extra columns are joined by TAB", func=uni, sig="%d TAB joins in __unicode__" % len(joins))
    ret = [n for n in ast.walk(uni.node) if isinstance(n, ast.Return)]
    ok = bool(ret) and isinstance(ret[-1].value, ast.Call) and call_attr(ret[-1].value) == "join" and \
        const_str(ret[-1].value.func.value) == "\t" and is_name(ret[-1].value.args[0], "items")
    ctx.ob("R5", ok, "the printed line is the TAB-join of the items", func=uni, sig="__unicode__ returns %s" % (norm(ret[-1].value) if ret else None))
    apps = [norm(c.args[0]) for c in calls_in(uni.node) if call_attr(c) == "append" and is_name(c.func.value, "items")]
    ok = len(apps) == 2 and "reconstructed" in apps[0] and "self.extra" in apps[1]
    ctx.ob("R5", ok, "the attribute string is column 9 and the extra columns follow", func=uni, sig="appended after the fixed columns: %s" % apps)
    init = require_func(ctx, "feature.Feature.__init__")
    for v in ("start", "end"):
        ok = False
        for n in ast.walk(init.node):
            if isinstance(n, ast.If) and v in norm(n.test) and "'.'" in norm(n.test) and n.body and isinstance(n.body[0], ast.Assign) \
                    and is_name(n.body[0].targets[0], v) and isinstance(n.body[0].value, ast.Constant) and n.body[0].value.value is None:
                ok = True
        ctx.ob("R5", ok, "'.' for %s is stored as None (inverse of printing)" % v, func=init, sig="'.' %s -> None" % v if ok else "'.' %s not mapped to None" % v)


def check(ctx):
    ctx.explanation = (
        "Writer/reader table agreement decided on folded constants and the AST: CREATE TABLE, _INSERT, _SELECT, _UPDATE, "
        "Feature.astuple (every return path, element by element) and Feature.__init__ must describe the same 12 columns in the "
        "same order; every import loop reaches exactly one insert of its item on all CFG paths; the JSON codec is symmetric and "
        "order-preserving; the dialect flows iterator -> meta -> FeatureDB -> every Feature (who-constructs rule); column constants "
        "of feature_from_line/__unicode__ agree with _gffkeys. Does not decide byte-identity of printed lines, iteration order "
        "(no ORDER BY: SQLite's scan order) or re-import equivalence.")
    r1(ctx)
    r2(ctx)
    r3(ctx)
    r4(ctx)
    r5(ctx)
    # printing with the file's dialect: shape clauses shared with C07 (printer template over all dialect configurations,
    # no mutation of the shared dialect while printing, splitter/joiner literals, decode layer)
    from . import c07
    n0 = len(ctx.obs)
    rc = require_func(ctx, "parser._reconstruct")
    c07.no_dialect_mutation(ctx, rc, "R6")
    c07.r_printer(ctx, rule="R6")
    c07.r2_r3(ctx)
    c07.r_decode_layer(ctx, rule="R6")
    for o in ctx.obs[n0:]:
        o.rule = "C01.R6"
