"""C16 -- merge(): partition of the inputs, criteria, extents, copy-before-
mutate, fresh ids, re-mergeability, merge_all, children_bp."""
import ast
import itertools

from .. import sql as S
from ..cfg import cfg_of
from ..decide import py_pred
from ..model import norm, parents, enclosing
from ..util import require_func, calls_in, call_attr, is_name, const_str, kwarg, guards_of, execute_sites

DEFAULT_CRITERIA = ["mc.seqid", "mc.overlap_end_inclusive", "mc.strand", "mc.feature_type"]


def _feat(name, chrom="chr1", start=1, end=1, strand="+", ft="exon", **extra):
    from ..absint import Opaque
    F = Opaque(name, "Feature")
    F.attrs.update(dict(id=name, seqid=chrom, source="src_" + name, featuretype=ft, start=start, end=end, score=".", strand=strand, frame=".",
                        attributes={"ID": [name]}, extra=[], bin=1, dialect=None, keep_order=False, sort_attribute_values=False, file_order=None))
    F.attrs.update(extra)
    return F


def _snap(F):
    return repr(sorted(((k, (sorted(v.items()) if isinstance(v, dict) else v)) for k, v in F.attrs.items()), key=lambda kv: kv[0]))


def r2(ctx):
    """Merge criteria: each shipped criterion (and each threshold factory's product) is evaluated abstractly on every pair of
    intervals of a grid that is complete for the difference constraints involved, and compared with its specification."""
    from ..absint import Interp, FuncVal, Unsupported
    for qual in ("interface.FeatureDB.merge", "interface.FeatureDB.merge_all", "interface.FeatureDB.children_bp"):
        f = require_func(ctx, qual)
        d = f.param_defaults().get("merge_criteria")
        got = None
        if isinstance(d, (ast.Tuple, ast.List)):
            got = [ctx.proj.dotted(e, f.module, f) for e in d.elts]
        want = ["merge_criteria.seqid", "merge_criteria.overlap_end_inclusive", "merge_criteria.strand", "merge_criteria.feature_type"]
        ctx.ob("R2", got == want, "%s defaults to (same seqid, overlapping or adjacent, same strand, same type)" % f.name, func=f, sig="%s default criteria %s" % (f.name, got))
    it = Interp(ctx)
    B = 6 if ctx.tier == "quick" else 9
    grid = [v for v in itertools.product(range(B), repeat=4) if v[0] <= v[1] and v[2] <= v[3]]

    def table(fn):
        out = {}
        for v in grid:
            try:
                r = it.apply(fn, [_feat("acc", start=v[0], end=v[1]), _feat("cur", start=v[2], end=v[3]), []])
            except Unsupported as e:
                ctx.require(False, "merge criterion outside the analysable subset: %s" % e)
            out[v] = bool(r[1]) if r[0] == "return" else ("raise", r[1])
        return out
    for name, fld in (("seqid", "seqid"), ("strand", "strand"), ("feature_type", "featuretype")):
        f = require_func(ctx, "merge_criteria." + name)
        vals = {"seqid": ("chr1", "chr2"), "strand": ("+", "-"), "featuretype": ("exon", "CDS")}[fld]
        res = {}
        for x in vals:
            for y in vals:
                kw = {"chrom" if fld == "seqid" else "ft" if fld == "featuretype" else fld: None}
                a_ = _feat("acc", **({"chrom": x} if fld == "seqid" else {"ft": x} if fld == "featuretype" else {"strand": x}))
                b_ = _feat("cur", **({"chrom": y} if fld == "seqid" else {"ft": y} if fld == "featuretype" else {"strand": y}))
                r = it.apply(FuncVal(f), [a_, b_, []])
                res[(x, y)] = r[1] if r[0] == "return" else r
        ok = all(bool(v) == (k[0] == k[1]) for k, v in res.items())
        ctx.ob("R2", ok, "criterion %s compares the %s of run and feature" % (name, fld), func=f, sig="%s: accepts exactly equal %s" % (name, fld) if ok else "%s: %s" % (name, res))
    specs = {
        "overlap_end_inclusive": lambda v: v[0] <= v[2] <= v[1] + 1,
        "overlap_start_inclusive": lambda v: v[0] <= v[3] + 1 <= v[1] + 1,
        "overlap_any_inclusive": lambda v: (v[0] <= v[2] <= v[1] + 1) or (v[0] <= v[3] + 1 <= v[1] + 1),
        "exact_coordinates_only": lambda v: v[2] == v[0] and v[3] == v[1],
    }
    words = {"overlap_end_inclusive": "acc.start <= cur.start <= acc.end + 1 (overlapping or adjacent to the right)",
             "overlap_start_inclusive": "acc.start <= cur.end + 1 <= acc.end + 1", "overlap_any_inclusive": "either of the two", "exact_coordinates_only": "equal coordinates"}
    tables = {}
    for name, spec in specs.items():
        f = require_func(ctx, "merge_criteria." + name)
        tb = table(FuncVal(f))
        tables[name] = tb
        bad = next((v for v in grid if tb[v] != bool(spec(v))), None)
        ctx.ob("R2", bad is None, "criterion %s accepts exactly %s" % (name, words[name]), func=f,
               sig="%s ≡ specification" % name if bad is None else "%s differs from its specification at acc=%d..%d cur=%d..%d (%s)" % ((name,) + bad + (tb[bad],)))
        refl = all(tb[(a_, b_, a_, b_)] is True for a_ in range(B) for b_ in range(a_, B))
        ctx.ob("R2", refl, "criterion %s is reflexive (a feature merges with itself) for start <= end" % name, func=f, sig="%s reflexive" % name if refl else "%s not reflexive" % name,
               nontrivial=False)
    thr = {}
    for name in ("overlap_end_threshold", "overlap_start_threshold", "overlap_any_threshold"):
        f = require_func(ctx, "merge_criteria." + name)
        thr[name] = {}
        for th in range(0, 4):
            r = it.apply(FuncVal(f), [th])
            ctx.require(r[0] == "return" and not isinstance(r[1], (bool, int, type(None))), "criterion factory %s(%d) does not return a callable" % (name, th))
            thr[name][th] = table(r[1])
        refl = all(thr[name][th][(a_, b_, a_, b_)] is True for th in range(0, 4) for a_ in range(B) for b_ in range(a_, B))
        ctx.ob("R2", refl, "criterion %s(threshold >= 0) is reflexive" % name, func=f, sig="%s reflexive" % name if refl else "%s not reflexive" % name)
        mono = all((thr[name][th][v] is not True) or thr[name][th + 1][v] is True for th in range(0, 3) for v in grid)
        ctx.ob("R2", mono, "criterion %s is monotone in its threshold (a larger tolerance accepts at least as much)" % name, func=f,
               sig="%s monotone in threshold" % name if mono else "%s not monotone in threshold" % name, nontrivial=False)
    f = ctx.proj.func("merge_criteria.overlap_end_threshold")
    same = all(thr["overlap_end_threshold"][1][v] == tables["overlap_end_inclusive"][v] for v in grid)
    ctx.ob("R2", same, "overlap_end_threshold(1) coincides with overlap_end_inclusive", func=f, sig="overlap_end_threshold(1) ≡ overlap_end_inclusive" if same else "overlap_end_threshold(1) differs from overlap_end_inclusive",
           nontrivial=False)
    f = ctx.proj.func("merge_criteria.overlap_any_threshold")
    ok = all(thr["overlap_any_threshold"][t][v] == (thr["overlap_start_threshold"][t][v] is True or thr["overlap_end_threshold"][t][v] is True) for t in range(0, 4) for v in grid)
    ctx.ob("R2", ok, "overlap_any_threshold(t) accepts exactly what overlap_start_threshold(t) or overlap_end_threshold(t) accepts", func=f,
           sig="any_threshold ≡ start_threshold or end_threshold" if ok else "any_threshold differs from start_threshold or end_threshold")
    ok = all(thr["overlap_start_threshold"][0][v] == tables["overlap_start_inclusive"][v] for v in grid)
    ctx.ob("R2", ok, "overlap_start_threshold(0) coincides with overlap_start_inclusive", func=ctx.proj.func("merge_criteria.overlap_start_threshold"),
           sig="start_threshold(0) ≡ start_inclusive" if ok else "start_threshold(0) differs from start_inclusive", nontrivial=False)
    ctx.extra["criteria_grid_points"] = len(grid)


def merge_semantics(ctx):
    """merge(): evaluated abstractly on short start-ordered lists of features sitting on the threshold points of the
    criteria; the outputs (which inputs are yielded as they are, which are children of which merged output, extents, ids,
    what the inputs look like afterwards) are compared with the property."""
    import collections
    from ..absint import Interp, Opaque, Callback, Unsupported
    f = require_func(ctx, "interface.FeatureDB.merge")
    fp = [p for p in f.params if p != "self"][0]
    feature_init = require_func(ctx, "feature.Feature.__init__")
    ctor_params = set(feature_init.params) - {"self"}
    built = []

    def run(feats, counters=None, copy_args=True, **kw):
        it = Interp(ctx)

        def fr(i, pos, kw_, node):
            extra_ = set(kw_) - ctor_params
            built.append(dict(kw_))
            if extra_:
                from ..absint import RaiseEx
                raise RaiseEx("TypeError", "__init__() got an unexpected keyword argument %r" % sorted(extra_)[0], node)
            o = Opaque("merged", "Feature")
            o.attrs.update(dict(id=None, seqid=None, source=".", featuretype=".", start=None, end=None, score=".", strand=".", frame=".", attributes={}, extra=[], bin=None,
                                dialect=None, keep_order=False, sort_attribute_values=False, file_order=None))
            o.attrs.update(kw_)
            # a fresh Attributes mapping (the package class: stores wrap bare values in a list)
            am = Opaque("attributes", "Attributes")
            am.attrs["_d"] = {}
            o.attrs["attributes"] = am
            return o
        it.summaries["interface.FeatureDB._feature_returner"] = fr
        so = Opaque("self", "FeatureDB")
        cnt = collections.defaultdict(int)
        cnt.update(counters or {})
        so.attrs["_autoincrements"] = cnt
        a = {fp: feats}
        a.update(kw)
        try:
            traces = it.run(f, a, self_obj=so, copy_args=copy_args)
        except Unsupported as e:
            ctx.require(False, "merge() outside the analysable subset: %s" % e)
        ctx.require(len(traces) == 1, "merge() forks on concrete input (%d paths)" % len(traces))
        t = traces[0]
        outs = []
        for e in t.events:
            if e[0] == "yield":
                y = e[1]
                ch = y.attrs.get("children") if isinstance(y, Opaque) else None
                outs.append((y, [c.name for c in ch] if isinstance(ch, (list, tuple)) else ch))
        return outs, t, so

    def shape(outs):
        return [(y.name if y.name != "merged" else "merged(%s..%s)" % (y.attrs.get("start"), y.attrs.get("end")), ch) for y, ch in outs]
    # ---- R1 partition / R3 extents / R5 ids
    outs, t, so = run([_feat("A", start=10, end=20), _feat("B", start=15, end=40), _feat("C", start=100, end=120)])
    ctx.ob("R1", shape(outs) == [("merged(10..40)", ["A", "B"]), ("C", [])],
           "every input is either yielded unchanged with no children or is a child of exactly one merged output (overlapping neighbours form a run)", func=f,
           sig="A=10..20, B=15..40, C=100..120 -> %s" % shape(outs))
    outs, t, so = run([_feat("A", start=10, end=20), _feat("B", start=30, end=40), _feat("C", start=50, end=60), _feat("D", start=70, end=80)])
    ctx.ob("R1", shape(outs) == [("A", []), ("B", []), ("C", []), ("D", [])], "features that do not join a run are yielded as they are, each once, in order", func=f,
           sig="four disjoint features -> %s" % shape(outs))
    outs, t, so = run([_feat("A", start=10, end=50), _feat("B", start=20, end=30), _feat("C", start=25, end=60)])
    ctx.ob("R3", shape(outs) == [("merged(10..60)", ["A", "B", "C"])], "a merged output spans min start .. max end of its children (a nested member does not shrink the run)", func=f,
           sig="A=10..50, B=20..30, C=25..60 -> %s" % shape(outs))
    outs, t, so = run([_feat("A", start=10, end=20), _feat("B", start=21, end=30)])
    ctx.ob("R1", shape(outs) == [("merged(10..30)", ["A", "B"])], "adjacent intervals join (default criteria)", func=f, sig="A=10..20, B=21..30 -> %s" % shape(outs))
    outs, t, so = run([_feat("A", start=10, end=20), _feat("B", start=22, end=30)])
    ctx.ob("R1", shape(outs) == [("A", []), ("B", [])], "intervals one base apart do not join", func=f, sig="A=10..20, B=22..30 -> %s" % shape(outs))
    for label, b in (("another seqid", dict(chrom="chr2")), ("another strand", dict(strand="-")), ("another type", dict(ft="CDS"))):
        outs, t, so = run([_feat("A", start=10, end=20), _feat("B", start=15, end=30, **b)])
        ctx.ob("R1", shape(outs) == [("A", []), ("B", [])], "with the default criteria an overlapping feature of %s starts a new run" % label, func=f, sig="overlap, %s -> %s" % (label, shape(outs)))
    outs, t, so = run([_feat("A", start=10, end=20), _feat("B", start=15, end=30), _feat("C", start=100, end=110), _feat("D", start=105, end=120), _feat("E", start=200, end=210)])
    ctx.ob("R1", shape(outs) == [("merged(10..30)", ["A", "B"]), ("merged(100..120)", ["C", "D"]), ("E", [])], "after a run is emitted the next feature starts a new one; a pending head is emitted after the loop",
           func=f, sig="two runs and a single -> %s" % shape(outs))
    ids = [y.attrs.get("id") for y, ch in outs if y.name == "merged"]
    ids_attr = [y.attrs["attributes"].attrs["_d"].get("ID") if isinstance(y.attrs.get("attributes"), Opaque) else y.attrs.get("attributes") for y, ch in outs if y.name == "merged"]
    ctx.ob("R5", ids == ["exon_1", "exon_2"], "merged outputs carry fresh distinct ids of the form <type>_<n>", func=f, sig="ids of two merged runs: %s" % ids)
    ctx.ob("R5", ids_attr == [["exon_1"], ["exon_2"]], "the fresh id is also the merged feature's ID attribute", func=f, sig="ID attributes of two merged runs: %s" % ids_attr, nontrivial=False)
    ctx.ob("R5", dict(so.attrs["_autoincrements"]) == {"exon": 2}, "the per-type counter advances once per merged run", func=f, sig="counters after two runs: %s" % dict(so.attrs["_autoincrements"]),
           nontrivial=False)
    outs, t, so = run([_feat("A", start=10, end=20), _feat("B", start=15, end=30)], counters={"exon": 7})
    ctx.ob("R5", [y.attrs.get("id") for y, ch in outs] == ["exon_8"], "numbering continues from the database's counters", func=f, sig="with counter 7 -> %s" % [y.attrs.get("id") for y, ch in outs],
           nontrivial=False)
    # mixed columns of a run (custom criteria that accept everything)
    accept_all = Callback("accept_all", True)
    outs, t, so = run([_feat("A", start=10, end=20, strand="+", ft="exon"), _feat("B", chrom="chr2", start=5, end=30, strand="-", ft="CDS", frame="1")], merge_criteria=[accept_all])
    y = outs[0][0] if outs else None
    got = (y.attrs.get("seqid"), y.attrs.get("strand"), y.attrs.get("featuretype"), y.attrs.get("frame"), y.attrs.get("start"), y.attrs.get("end")) if y is not None else None
    ctx.ob("R3", got == ("chr1,chr2", ".", "sequence_feature", ".", 5, 30), "a run of mixed seqid / strand / frame / type is described as such; start and end are min and max", func=f,
           sig="mixed run -> (seqid, strand, type, frame, start, end) = %s" % (got,))
    # ---- thorough tier: every start-ordered list of up to three intervals over six positions against the reference partition
    if ctx.tier == "thorough":
        P = 6
        ivs = [(a_, b_) for a_ in range(1, P + 1) for b_ in range(a_, P + 1)]
        n_lists = 0
        bad = None
        for n_ in (1, 2, 3):
            for combo in itertools.product(ivs, repeat=n_):
                if any(combo[i][0] > combo[i + 1][0] for i in range(n_ - 1)):
                    continue
                n_lists += 1
                feats = [_feat("f%d" % i, start=iv[0], end=iv[1]) for i, iv in enumerate(combo)]
                outs, t, so = run(feats)
                # reference: a feature joins the run iff run.start <= f.start <= run.end + 1 (start order: the first half always holds)
                want, cur = [], None
                for i, iv in enumerate(combo):
                    if cur is not None and iv[0] <= cur[1] + 1:
                        cur = (cur[0], max(cur[1], iv[1]), cur[2] + ["f%d" % i])
                    else:
                        if cur is not None:
                            want.append(cur)
                        cur = (iv[0], iv[1], ["f%d" % i])
                want.append(cur)
                got = [(y.attrs.get("start"), y.attrs.get("end"), ch if ch else [y.name]) for y, ch in outs]
                if got != [(a_, b_, c_) for a_, b_, c_ in want] and bad is None:
                    bad = (combo, got, want)
        ctx.ob("R1", bad is None, "with the default criteria the outputs' extents are the maximal runs of overlapping or adjacent intervals: all %d start-ordered lists of up to three "
               "intervals over six positions agree with the reference partition" % n_lists, func=f,
               sig="exhaustive small lists agree with the reference partition" if bad is None else "list %s -> %s, reference %s" % bad)
        ctx.extra["exhaustive_lists"] = n_lists
    # ---- criteria protocol
    calls = []
    rec = Callback("criterion", None, fn=lambda pos, kw: (calls.append([getattr(x, "name", [c.name for c in x] if isinstance(x, (list, tuple)) else x) for x in pos]), True)[1])
    outs, t, so = run([_feat("A", start=10, end=20), _feat("B", start=100, end=120)], merge_criteria=[rec])
    joins = [c for c in calls if len(c) == 3 and c[0] != c[1]]
    ok = shape(outs) == [("merged(10..120)", ["A", "B"])] and joins and all(c[1] == "B" and c[2] == ["A"] for c in joins)
    ctx.ob("R1", ok, "joining a run is decided by the merge criteria on (run so far, feature, components)", func=f,
           sig="criterion called with %s -> %s" % (joins[:2], shape(outs)))
    rej = Callback("reject", False)
    outs, t, so = run([_feat("A", start=10, end=20), _feat("B", start=15, end=30)], merge_criteria=[accept_all, rej])
    ctx.ob("R1", shape(outs) == [("A", []), ("B", [])], "a feature joins exactly when every criterion accepts", func=f, sig="one of two criteria rejects -> %s" % shape(outs))
    # a nested feature is judged by the criteria like any other
    calls.clear()
    outs, t, so = run([_feat("A", start=10, end=60), _feat("B", start=20, end=30)], merge_criteria=[rej])
    ctx.ob("R1", shape(outs) == [("A", []), ("B", [])], "a feature lying inside the run joins only if the criteria accept it", func=f, sig="nested feature, rejecting criterion -> %s" % shape(outs))
    outs, t, so = run([_feat("A", start=10, end=60), _feat("B", start=20, end=30), _feat("C", start=40, end=50)], merge_criteria=[rec])
    asked = sorted({c[1] for c in calls if len(c) == 3 and c[0] != c[1]})
    ctx.ob("R1", asked == ["B", "C"], "the criteria are asked about every candidate, nested ones included", func=f, sig="criteria asked about %s" % asked, nontrivial=False)
    outs, t, so = run([_feat("A", start=10, end=20), _feat("B", start=15, end=30)], merge_criteria=accept_all)
    ctx.ob("R1", shape(outs) == [("merged(10..30)", ["A", "B"])], "a single criterion may be given without a list", func=f, sig="bare criterion -> %s" % shape(outs), nontrivial=False)
    # ---- R4 inputs untouched / R6 children and re-mergeability
    A, B, C = _feat("A", start=10, end=20), _feat("B", start=15, end=40), _feat("C", start=100, end=120)
    before = [_snap(x) for x in (A, B, C)]
    outs, t, so = run([A, B, C], copy_args=False)
    after = []
    for x in (A, B, C):
        snap_attrs = dict(x.attrs)
        snap_attrs.pop("children", None)
        o2 = _feat(x.name)
        o2.attrs.clear()
        o2.attrs.update(snap_attrs)
        after.append(_snap(o2))
    changed = [x.name for x, b_, a_ in zip((A, B, C), before, after) if a_ != b_]
    ctx.ob("R4", not changed, "the inputs' columns and attributes are unchanged: the head of a run is copied before its columns are updated", func=f,
           sig="inputs unchanged by merge()" if not changed else "merge() changed its inputs: %s" % changed)
    head = outs[0][0] if outs else None
    ctx.ob("R4", head is not None and head is not A and head.name == "merged", "the merged output is a new object, not the first member of the run", func=f,
           sig="merged output is %s" % ("a fresh feature" if head is not None and head is not A else "the input object itself"))
    okf = bool(built) and all(set(k) <= ctor_params for k in built)
    ctx.ob("R6", okf, "the instance dict splatted into the Feature constructor holds only constructor parameters", func=f,
           sig="constructor receives %s" % sorted(set().union(*[set(k) for k in built]) - ctor_params) if not okf else "constructor keywords are all parameters of Feature.__init__")
    fresh = [k for k in built if not ({"attributes", "extra", "dialect", "keep_order", "sort_attribute_values"} & set(k))]
    ctx.ob("R6", len(fresh) == len(built) and bool(built), "per-object state of the head (attributes, extra, dialect, print flags) is dropped from the splat, so the merged feature starts with fresh containers",
           func=f, sig="per-object keys dropped in %d of %d constructions" % (len(fresh), len(built)))
    src = outs[0][0].attrs.get("source") if outs else None
    ctx.ob("R6", isinstance(src, str) and sorted(src.split(",")) == ["src_A", "src_B"] if isinstance(src, str) else False, "a merged output's source lists its members' sources", func=f,
           sig="merged source %r" % (src,), nontrivial=False)
    ctx.ob("R6", outs and outs[0][1] == ["A", "B"] and outs[-1][1] == [], "_finalize_merge attaches the run's members as .children; a single-member run has no children", func=f,
           sig="children of the outputs: %s" % [ch for _y, ch in outs])
    # merging merged outputs again
    M1 = _feat("M1", start=10, end=40, children=[_feat("a"), _feat("b")])
    M2 = _feat("M2", start=35, end=60, children=())
    built.clear()
    it_ok = True
    try:
        outs, t, so = run([M1, M2])
    except Exception:
        raise
    res = t.result
    ctx.ob("R6", res[0] == "return" and shape(outs) == [("merged(10..60)", ["M1", "M2"])], "previously merged features (which carry .children) can be merged again", func=f,
           sig="re-merge -> %s" % (shape(outs) if res[0] == "return" else "raises %s" % res[1]))
    # same objects again: same result
    A, B = _feat("A", start=10, end=20), _feat("B", start=15, end=40)
    o1, _t, _s = run([A, B], copy_args=False)
    o2, _t, _s = run([A, B], copy_args=False)
    ctx.ob("R4", shape(o1) == shape(o2) == [("merged(10..40)", ["A", "B"])], "merging the same objects again gives the same result", func=f, sig="first %s, second %s" % (shape(o1), shape(o2)))
    # a feature that is not accepted with itself
    crit = Callback("not_reflexive_for_B", None, fn=lambda pos, kw: not (getattr(pos[0], "name", "") == "B" and getattr(pos[1], "name", "") == "B"))
    outs, t, so = run([_feat("A", start=10, end=20), _feat("B", start=15, end=30), _feat("C", start=16, end=40)], merge_criteria=[crit])
    names = [n for y, ch in outs for n in ([y.name] if y.name != "merged" else ch)]
    ctx.ob("R1", sorted(names) == ["A", "B", "C"], "even with a criterion that rejects a feature against itself every input appears exactly once in the output", func=f,
           sig="outputs cover %s" % names, nontrivial=False)


def r7_r8(ctx):
    """merge_all and children_bp, evaluated abstractly with the database's query methods summarised (they return three
    symbolic features: two overlapping, one apart)."""
    import collections
    from ..absint import Interp, Sym, Opaque, Callback, Unsupported
    feature_init = require_func(ctx, "feature.Feature.__init__")
    ctor_params = set(feature_init.params) - {"self"}

    layout = {"ivs": [("A", 10, 20), ("B", 15, 40), ("C", 100, 120)]}

    def stored():
        return [_feat(n_, start=a_, end=b_) for n_, a_, b_ in layout["ivs"]]

    def harness(log):
        it = Interp(ctx)

        def fr(i, pos, kw_, node):
            o = Opaque("merged", "Feature")
            o.attrs.update(dict(id=None, seqid=None, source=".", featuretype=".", start=None, end=None, score=".", strand=".", frame=".", extra=[], bin=None,
                                dialect=None, keep_order=False, sort_attribute_values=False, file_order=None))
            o.attrs.update(kw_)
            am = Opaque("attributes", "Attributes")
            am.attrs["_d"] = {}
            o.attrs["attributes"] = am
            return o
        it.summaries["interface.FeatureDB._feature_returner"] = fr
        it.summaries["interface.FeatureDB.all_features"] = lambda i, pos, kw, node: (log.append(("all_features", dict(kw))), stored())[1]
        it.summaries["interface.FeatureDB.children"] = lambda i, pos, kw, node: (log.append(("children", [getattr(x, "name", x) for x in pos], dict(kw))), stored())[1]
        it.summaries["interface.FeatureDB._insert"] = lambda i, pos, kw, node: log.append(("insert", pos[0].attrs.get("id") if isinstance(pos[0], Opaque) else pos[0]))
        it.summaries["interface.FeatureDB.delete"] = lambda i, pos, kw, node: log.append(("delete", [getattr(x, "name", x) for x in (pos[0] if isinstance(pos[0], (list, tuple)) else [pos[0]])]))
        it.summaries["interface.FeatureDB.add_relation"] = lambda i, pos, kw, node: log.append(
            ("relate", pos[0].attrs.get("id") if isinstance(pos[0], Opaque) else pos[0], getattr(pos[1], "name", pos[1]), pos[2] if len(pos) > 2 else kw.get("level"), kw.get("child_func")))
        return it

    def run(func, args):
        log = []
        it = harness(log)
        so = Opaque("self", "FeatureDB")
        so.attrs["_autoincrements"] = collections.defaultdict(int)
        try:
            traces = it.run(func, args, self_obj=so)
        except Unsupported as e:
            ctx.require(False, "%s outside the analysable subset: %s" % (func.qual, e))
        ctx.require(len(traces) == 1, "%s forks on concrete input (%d paths)" % (func.qual, len(traces)))
        return traces[0], log
    ma = require_func(ctx, "interface.FeatureDB.merge_all")
    order = Sym("merge_order", "any", True)
    t, log = run(ma, {"merge_order": order})
    q = [e for e in log if e[0] == "all_features"]
    ctx.ob("R7", len(q) == 1 and getattr(q[0][1].get("order_by"), "name", None) == "merge_order" and q[0][1].get("featuretype") is None, "merge_all merges all features in merge_order", func=ma,
           sig="merge_all queries all_features(%s)" % (sorted((k, getattr(v, "name", v)) for k, v in q[0][1].items()) if q else None))
    ins = [e for e in log if e[0] == "insert"]
    ctx.ob("R7", ins == [("insert", "exon_1")], "one new feature is stored per multi-member run (and only for those)", func=ma, sig="merge_all stores merged under %s" % [e[1] for e in ins])
    rel = [e for e in log if e[0] == "relate"]
    ctx.ob("R7", [(e[1], e[2], e[3]) for e in rel] == [("exon_1", "A", 1), ("exon_1", "B", 1)] and not [e for e in log if e[0] == "delete"],
           "every member is related to its merged feature at level 1", func=ma, sig="merge_all relations %s" % [(e[1], e[2], e[3]) for e in rel])
    order_ok = [e[0] for e in log if e[0] in ("insert", "relate", "delete")][:1] == ["insert"]
    ctx.ob("R7", order_ok, "the merged feature is stored before its members are related or deleted", func=ma, sig="first database effect: %s" % [e[0] for e in log if e[0] in ("insert", "relate", "delete")][:1], nontrivial=False)
    res = t.result[1] if t.result[0] == "return" else None
    ctx.ob("R7", isinstance(res, list) and [getattr(x, "name", x) for x in res] == ["merged"], "merge_all returns the merged features it stored", func=ma,
           sig="merge_all returns %s" % ([getattr(x, "name", x) for x in res] if isinstance(res, list) else t.result[:2]), nontrivial=False)
    cf = rel[0][4] if rel else None
    if cf is not None:
        # the child_func names the merged feature's ID as the member's Parent
        it = harness([])
        parent = _feat("P")
        parent.attrs["attributes"] = {"ID": ["exon_1"]}
        child = _feat("c")
        child.attrs["attributes"] = {"ID": ["c"]}
        r = it.apply(cf, [parent, child])
        got = child.attrs["attributes"].get("Parent") if isinstance(child.attrs.get("attributes"), dict) else None
        rv = r[1] if r[0] == "return" else None
        if isinstance(rv, Opaque) and isinstance(rv.attrs.get("attributes"), dict):
            got = rv.attrs["attributes"].get("Parent")
        okp = got in (["exon_1"], "exon_1") or (isinstance(got, list) and got and got[0] in ("exon_1", ["exon_1"]))
        ctx.ob("R7", okp, "a related member names the merged feature's ID as its Parent", func=ma, sig="member Parent := %r" % (got,))
    t, log = run(ma, {"exclude_components": True})
    dels = [e for e in log if e[0] == "delete"]
    ctx.ob("R7", dels == [("delete", ["A", "B"])] and not [e for e in log if e[0] == "relate"] and [e for e in log if e[0] == "insert"] == [("insert", "exon_1")],
           "...or, with exclude_components, the members are deleted (exclude_components chooses between the two)", func=ma,
           sig="exclude_components: deletes %s, relations %d" % ([e[1] for e in dels], len([e for e in log if e[0] == "relate"])))
    crit = Callback("accept_all", True)
    t, log = run(ma, {"merge_criteria": [crit]})
    rel = [e for e in log if e[0] == "relate"]
    ctx.ob("R7", [e[2] for e in rel] == ["A", "B", "C"], "merge_all forwards the criteria", func=ma, sig="with an accept-all criterion members related: %s" % [e[2] for e in rel])
    # ---- children_bp
    cb = require_func(ctx, "interface.FeatureDB.children_bp")
    cft = Sym("child_featuretype", "str", True)
    t, log = run(cb, {"feature": _feat("G", ft="gene"), "child_featuretype": cft})
    ctx.ob("R8", t.result == ("return", 11 + 26 + 21), "children_bp sums len(child) over the children (len = end - start + 1)", func=cb, sig="children 10..20, 15..40, 100..120 -> %s" % (t.result[1:2] if t.result[0] == "return" else t.result[:2],))
    q = [e for e in log if e[0] == "children"]
    ok = len(q) == 1 and q[0][1][:1] == ["G"] and getattr(q[0][2].get("featuretype"), "name", None) == "child_featuretype" and q[0][2].get("order_by") == "start"
    ctx.ob("R8", ok, "children are taken by type, ordered by start (merge() needs start order)", func=cb, sig="children_bp queries children(%s)" % (sorted((k, getattr(v, "name", v)) for k, v in q[0][2].items()) if q else None))
    t, log = run(cb, {"feature": _feat("G", ft="gene"), "merge": True})
    ctx.ob("R8", t.result == ("return", 31 + 21), "with merge=True the children are merged first: the result is the size of their union", func=cb,
           sig="merged children -> %s" % (t.result[1:2] if t.result[0] == "return" else t.result[:2],))
    # the union, whatever the nesting: start-ordered lists of intervals against the number of covered positions
    import itertools as _it
    P = 7 if ctx.tier == "thorough" else 5
    all_ivs = [(a_, b_) for a_ in range(1, P + 1) for b_ in range(a_, P + 1)]
    combos = [[(1, 7), (2, 3), (5, 6)], [(1, 3), (2, 9), (4, 5), (11, 12)]]
    for n_ in ((1, 2, 3) if ctx.tier == "thorough" else (2,)):
        combos += [list(c) for c in _it.product(all_ivs, repeat=n_) if all(c[i][0] <= c[i + 1][0] for i in range(n_ - 1))]
    bad = None
    for combo in combos:
        layout["ivs"] = [("f%d" % i, a_, b_) for i, (a_, b_) in enumerate(combo)]
        t, log = run(cb, {"feature": _feat("G", ft="gene"), "merge": True})
        want = len({x for a_, b_ in combo for x in range(a_, b_ + 1)})
        if t.result != ("return", want) and bad is None:
            bad = (combo, t.result[1:2] if t.result[0] == "return" else t.result[:2], want)
    layout["ivs"] = [("A", 10, 20), ("B", 15, 40), ("C", 100, 120)]
    ctx.ob("R8", bad is None, "children_bp(merge=True) counts every covered position once, nested and chained children included (%d start-ordered child lists)" % len(combos), func=cb,
           sig="merged children_bp agrees with the number of covered positions" if bad is None else "children %s -> %s, covered positions %s" % bad)
    t, log = run(cb, {"feature": _feat("G", ft="gene"), "merge": True, "merge_criteria": [crit]})
    ctx.ob("R8", t.result == ("return", 111), "...with the given criteria", func=cb, sig="merged with an accept-all criterion -> %s" % (t.result[1:2] if t.result[0] == "return" else t.result[:2],), nontrivial=False)


def check(ctx):
    ctx.explanation = (
        "merge() is evaluated abstractly (partitioned dataflow; no execution) on short start-ordered lists of features placed on the threshold "
        "points of the criteria: which inputs come out unchanged, which become children of which merged output, extents, mixed-column "
        "descriptions, fresh ids and counters, the arguments the criteria receive, the keywords reaching the Feature constructor, the inputs "
        "before and after, re-merging merged outputs. Every shipped criterion and threshold factory is evaluated on a grid complete for "
        "difference constraints and compared with its specification (and for reflexivity / monotonicity). merge_all / children_bp are def-use "
        "facts. Does not decide extents = interval union for every multiset.")
    merge_semantics(ctx)
    r2(ctx)
    r7_r8(ctx)
