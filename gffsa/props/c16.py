"""C16 -- merge(): partition of the inputs, criteria, extents, copy-before-
mutate, fresh ids, re-mergeability, merge_all, children_bp."""
import ast
import itertools

from .. import sql as S
from ..cfg import cfg_of
from ..decide import py_pred
from ..model import norm, parents, enclosing
from ..util import require_func, calls_in, call_attr, is_name, const_str, kwarg, guards_of, execute_sites

DEFAULT_CRITERIA = ["mc.seqid", "mc.overlap_end_inclusive", "mc.strand", "mc.feature_type"]


def enumerate_paths(cfg, start, stops, limit=400):
    """Simple paths start ->* any node in `stops` (edges labelled)."""
    out = []
    stack = [(start, [(start, None)])]
    while stack:
        n, path = stack.pop()
        if len(out) > limit:
            break
        for m, l in cfg.succ[n]:
            if l == "exc":
                continue
            if m in stops:
                out.append(path + [(m, l)])
                continue
            if any(m == x for x, _ in path):
                continue
            stack.append((m, path + [(m, l)]))
    return out


def roles(ctx, f):
    loops = [n for n in f.node.body if isinstance(n, ast.For)]
    ctx.require(len(loops) == 1, "merge() no longer has a single top-level loop")
    loop = loops[0]
    lv = loop.target.id
    fin = [c for c in calls_in(f.node) if is_name(c.func, "_finalize_merge")]
    ctx.require(fin, "merge() no longer finalises through _finalize_merge")
    after = [c for c in fin if loop not in list(parents(c))]
    ctx.require(after and len(after[0].args) == 2, "merge() does not emit a pending head after the loop")
    head, children = norm(after[0].args[0]), norm(after[0].args[1])
    return loop, lv, head, children, after[0]


def path_events(cfg, path, lv, head, children):
    ev = []
    for (nid, label), nxt in zip(path, path[1:] + [(None, None)]):
        node = cfg.nodes[nid]
        st = node.stmt
        out_label = nxt[1]
        if node.kind == "test" and isinstance(st, ast.If):
            ev.append(("test", norm(st.test), out_label == "true", st))
            continue
        if node.kind != "stmt" or st is None:
            continue
        for y in [x for x in ast.walk(st) if isinstance(x, ast.Yield)]:
            v = y.value
            if isinstance(v, ast.Call) and is_name(v.func, "_finalize_merge") and len(v.args) == 2:
                ev.append(("emit", norm(v.args[0]), norm(v.args[1]), st))
            else:
                ev.append(("emit-raw", norm(v) if v is not None else None, None, st))
        if isinstance(st, ast.Assign) and len(st.targets) == 1:
            t = norm(st.targets[0])
            if t == head:
                if is_name(st.value, lv):
                    ev.append(("head:=item", st))
                elif any(isinstance(x, ast.Name) and x.id == head for x in ast.walk(st.value)):
                    ev.append(("head-transfer", st))
                else:
                    ev.append(("head:=other", norm(st.value), st))
            elif t == children:
                if isinstance(st.value, ast.List):
                    ev.append(("children:=", [norm(e) for e in st.value.elts], st))
                else:
                    ev.append(("children:=?", norm(st.value), st))
            elif t == "last_id":
                ev.append(("id-reset" if isinstance(st.value, ast.Constant) and st.value.value is None else "id-new", st))
            elif isinstance(st.targets[0], ast.Attribute) and norm(st.targets[0].value) == head:
                ev.append(("head-store", st.targets[0].attr, st))
            elif isinstance(st.targets[0], ast.Subscript) and norm(st.targets[0].value) == head:
                ev.append(("head-store", "[%s]" % norm(st.targets[0].slice), st))
        elif isinstance(st, ast.AugAssign):
            if isinstance(st.target, ast.Attribute) and norm(st.target.value) == head:
                ev.append(("head-store", st.target.attr, st))
        elif isinstance(st, ast.Expr) and isinstance(st.value, ast.Call):
            c = st.value
            if call_attr(c) == "append" and norm(c.func.value) == children and c.args:
                ev.append(("children+=", norm(c.args[0]), st))
    return ev


def r1_r4_r5(ctx):
    f = require_func(ctx, "interface.FeatureDB.merge")
    cfg = cfg_of(f)
    loop, lv, head, children, final_emit = roles(ctx, f)
    hn = cfg.node_for(loop).id
    starts = [t for t, l in cfg.succ[hn] if l == "true"]
    ctx.require(len(starts) == 1, "merge loop entry")
    paths = enumerate_paths(cfg, starts[0], {hn, cfg.exit.id, cfg.raise_exit.id})
    # prepend the virtual start so the first node's own test outcome is visible
    ctx.floor("R1", len(paths), 4, "paths through the merge loop body")
    ctx.extra["loop_body_paths"] = len(paths)
    crit_tests = set()
    for p in paths:
        ev = path_events(cfg, p, lv, head, children)
        desc = " ; ".join(_show(e) for e in ev)
        head_none = None
        for e in ev:
            if e[0] == "test" and e[1] in ("%s is None" % head, "not %s" % head):
                head_none = e[2]
            if e[0] == "test" and e[1] in ("%s is not None" % head, head):
                head_none = not e[2]
        pending = (head_none is False) or head_none is None
        head_emitted = False
        item = set()
        reset_children = reset_id = False
        boundary = False
        problems = []
        unchecked_empty = any(e[0] == "test" and e[1] == "len(%s) == 0" % children and e[2] for e in ev)
        for e in ev:
            k = e[0]
            if k == "emit":
                if e[1] == head:
                    head_emitted = True
                    pending = False
                    if e[2] != children and not unchecked_empty:
                        problems.append("pending head emitted with %s instead of its children" % e[2])
                elif e[1] == lv:
                    item.add("emitted")
                    if e[2] not in ("no_children", "()", "tuple()", "[]"):
                        problems.append("item emitted alone but with children %s" % e[2])
                else:
                    problems.append("emits %s" % e[1])
            elif k == "emit-raw":
                problems.append("yields %s without finalising" % e[1])
            elif k == "head:=item":
                if pending and not head_emitted:
                    problems.append("a pending head is overwritten without having been emitted")
                if pending or head_emitted:
                    boundary = True
                pending = True
                head_emitted = False
                item.add("head")
            elif k == "head:=other":
                problems.append("head re-bound to %s" % e[1])
            elif k == "children:=":
                reset_children = True
                if lv in e[1]:
                    item.add("child")
            elif k == "children+=":
                if e[1] == lv:
                    item.add("child")
            elif k == "id-reset":
                reset_id = True
            elif k == "test" and _is_join_test(e[3].test, head, lv):
                crit_tests.add((e[1], e[3]))
        retained = item & {"head", "child"}
        if "emitted" in item and retained:
            problems.append("item is both emitted alone and kept (%s)" % sorted(retained))
        if not item:
            problems.append("item is neither emitted nor kept: it is lost")
        if boundary and not reset_children and not unchecked_empty:
            problems.append("a new run starts without resetting the children list")
        if (boundary or "emitted" in item) and not reset_id:
            problems.append("a run boundary does not reset last_id (the next run would reuse the previous id)")
        for pr in problems:
            rule = "R5" if "last_id" in pr else "R1"
            ctx.ob(rule, False, "partition typestate of merge(): every input is emitted alone or kept in exactly one run; a pending head is "
                   "emitted (with its children) before it is overwritten; run boundaries reset children and id", node=cfg.nodes[p[0][0]].stmt, func=f,
                   sig="merge loop path: %s" % pr, detail="path: " + desc)
        if not problems:
            ctx.ob("R1", True, "loop-body path discharges the partition typestate", func=f, sig="path ok: " + " ; ".join(
                _show(e) for e in ev if e[0] not in ("test", "head-store"))[:150], nontrivial=True)
    # final emission after the loop
    g = [norm(t) for t, pol in guards_of(final_emit, f.node) if pol]
    ok = norm(final_emit.args[0]) == head and norm(final_emit.args[1]) == children and g in ([head], ["%s is not None" % head])
    y = enclosing(final_emit, ast.Yield)
    ctx.ob("R1", ok and y is not None, "after the loop a pending head is emitted with its children", node=final_emit, func=f,
           sig="final emission %s under %s" % (norm(final_emit), g))
    # ---- the join test: all criteria on (head, item, children)
    ctx.ob("R1", len(crit_tests) >= 1, "joining a run is decided by the merge criteria on (run so far, feature)", func=f,
           sig="%d criteria test(s) on (head, item)" % len(crit_tests))
    for t, st in crit_tests:
        tst = st.test
        ok = isinstance(tst, ast.Call) and is_name(tst.func, "all") and isinstance(tst.args[0], (ast.GeneratorExp, ast.ListComp)) and \
            norm(tst.args[0].generators[0].iter) == "merge_criteria" and not tst.args[0].generators[0].ifs and \
            isinstance(tst.args[0].elt, ast.Call) and [norm(a) for a in tst.args[0].elt.args] == [head, lv, children] and \
            is_name(tst.args[0].elt.func, tst.args[0].generators[0].target.id)
        ctx.ob("R1", ok, "a feature joins exactly when every criterion accepts (run so far, feature, components)", node=st, func=f,
               sig="join test %s" % t)
        # the true branch appends, the false branch emits
        app = [c for c in ast.walk(ast.Module(body=st.body, type_ignores=[])) if isinstance(c, ast.Call) and call_attr(c) == "append"
               and norm(c.func.value) == children and c.args and is_name(c.args[0], lv)]
        emits = [c for c in ast.walk(ast.Module(body=st.orelse, type_ignores=[])) if isinstance(c, ast.Call) and is_name(c.func, "_finalize_merge")]
        ctx.ob("R1", bool(app) and bool(emits), "accept -> the feature is appended to the run; reject -> the run is emitted", node=st, func=f,
               sig="join test branches: append=%s emit=%s" % (bool(app), bool(emits)), nontrivial=False)
    # ------------------------------------------------------------------ R4
    copies = [n for n in ast.walk(loop) if isinstance(n, ast.If) and norm(n.test) == "len(%s) == 1" % children]
    ctx.ob("R4", len(copies) == 1, "the first merge of a run is recognised (len(children) == 1) so that the head can be copied", node=loop, func=f,
           sig="%d copy guard(s) `len(children) == 1`" % len(copies))
    if len(copies) == 1:
        cg = copies[0]
        rebinds = [n for n in cg.body if isinstance(n, ast.Assign) and norm(n.targets[0]) == head]
        fresh = any(isinstance(n.value, ast.Call) and (call_attr(n.value) in ("_feature_returner", "copy", "deepcopy") or norm(n.value.func) in ("Feature", "copy.copy", "copy.deepcopy"))
                    for n in rebinds)
        ctx.ob("R4", fresh, "before its columns are changed the head is replaced by a fresh copy (the input object stays untouched)", node=cg, func=f,
               sig="head copied through %s" % ([norm(n.value)[:50] for n in rebinds] or None))
        cgn = cfg.node_for(cg).id
        stores = []
        for n in ast.walk(loop):
            tg = n.targets if isinstance(n, ast.Assign) else [n.target] if isinstance(n, ast.AugAssign) else []
            for t in tg:
                b = t
                while isinstance(b, (ast.Attribute, ast.Subscript)):
                    b = b.value
                if isinstance(b, ast.Name) and b.id == head and not isinstance(t, ast.Name):
                    stores.append((n, t))
        ctx.floor("R4", len(stores), 4, "stores into the head inside the merge loop")
        for n, t in stores:
            inside = cg in list(parents(n))
            ok = cfg.dominates(cgn, cfg.node_for(n).id) and (inside and any(cfg.dominates(cfg.node_for(r).id, cfg.node_for(n).id) for r in rebinds
                                                                         if isinstance(r.value, ast.Call) and call_attr(r.value) != "copy" or True) or not inside)
            if inside:
                # inside the copy block: must come after the re-binding to the fresh object
                fr = [r for r in rebinds if isinstance(r.value, ast.Call) and call_attr(r.value) in ("_feature_returner", "deepcopy") or norm(r.value.func if isinstance(r.value, ast.Call) else r.value) in ("Feature", "copy.copy", "copy.deepcopy")]
                ok = bool(fr) and cfg.dominates(cfg.node_for(fr[-1]).id, cfg.node_for(n).id)
            ctx.ob("R4", ok, "a store into the head (%s) happens only after the copy guard of the merge branch" % norm(t), node=n, func=f,
                   sig="store %s after the copy" % norm(t) if ok else "store %s can hit the caller's object (not dominated by the head copy)" % norm(t))
        grows = [c for c in calls_in(loop) if call_attr(c) == "append" and norm(c.func.value) == children and c.args and is_name(c.args[0], lv)]
        for c in grows:
            ok = cfg.dominates(cgn, cfg.node_for(c).id)
            ctx.ob("R4", ok, "the run only grows past one member after the copy guard (so len >= 2 implies the head is a copy)", node=c, func=f,
                   sig="children.append(item) after the copy guard" if ok else "children grow before the copy guard", nontrivial=False)
    # ------------------------------------------------------------------ R3
    for attr, want in (("start", "min"), ("end", "max")):
        upd = [n for n in ast.walk(loop) if isinstance(n, ast.Assign) and norm(n.targets[0]) == "%s.%s" % (head, attr)]
        ctx.floor("R3", len(upd), 1, "updates of the run's %s" % attr)
        for n in upd:
            v = n.value
            if isinstance(v, ast.Call) and is_name(v.func, want) and {norm(a) for a in v.args} == {"%s.%s" % (head, attr), "%s.%s" % (lv, attr)}:
                ok = True
                shown = norm(v)
            else:
                g = guards_of(n, loop)
                tests = [t for t, pol in g if pol and isinstance(t, ast.Compare) and {"%s.%s" % (head, attr), "%s.%s" % (lv, attr)} == {norm(t.left), norm(t.comparators[0])}]
                shown = "if %s: %s" % (norm(tests[0]) if tests else "?", norm(n))
                ok = False
                if tests and norm(v) in ("%s.%s" % (lv, attr), "%s.stop" % lv):
                    def res(x):
                        s = norm(x)
                        return "h" if s == "%s.%s" % (head, attr) else "f" if s == "%s.%s" % (lv, attr) else None
                    pr = py_pred(tests[0], res)
                    fn = min if want == "min" else max
                    ok = all((env["f"] if pr(env) else env["h"]) == fn(env["h"], env["f"]) for env in ({"h": a, "f": b} for a in range(4) for b in range(4)))
            ctx.ob("R3", ok, "the run's %s becomes %s(run %s, feature %s)" % (attr, want, attr, attr), node=n, func=f, sig="run %s update: %s" % (attr, shown))


def _is_join_test(t, head, lv):
    """all(<crit>(head, item, ...) for <crit> in ...)"""
    if isinstance(t, ast.Call) and is_name(t.func, "all") and t.args and isinstance(t.args[0], (ast.GeneratorExp, ast.ListComp)):
        elt = t.args[0].elt
        if isinstance(elt, ast.Call) and len(elt.args) >= 2 and norm(elt.args[0]) == head and is_name(elt.args[1], lv):
            return True
    return False


def _show(e):
    if e[0] == "test":
        return "[%s%s]" % ("" if e[2] else "not ", e[1][:40])
    if e[0] in ("emit",):
        return "emit(%s,%s)" % (e[1], e[2])
    if e[0] in ("children:=", "children+="):
        return "%s%s" % (e[0], e[1])
    return e[0] + (":" + str(e[1]) if len(e) > 2 and isinstance(e[1], str) else "")


def r2(ctx):
    m = ctx.proj.module("merge_criteria")
    for qual in ("interface.FeatureDB.merge", "interface.FeatureDB.merge_all", "interface.FeatureDB.children_bp"):
        f = require_func(ctx, qual)
        d = f.param_defaults().get("merge_criteria")
        got = [norm(e) for e in d.elts] if isinstance(d, (ast.Tuple, ast.List)) else None
        ctx.ob("R2", got == DEFAULT_CRITERIA, "%s defaults to (same seqid, overlapping or adjacent, same strand, same type)" % f.name, func=f,
               sig="%s default criteria %s" % (f.name, got))
    ctx.require(ctx.proj.modules["interface"].imports.get("mc") == "merge_criteria", "interface no longer imports merge_criteria as mc")
    simple = {"seqid": "seqid", "strand": "strand", "feature_type": "featuretype"}
    for name, fld in simple.items():
        f = require_func(ctx, "merge_criteria." + name)
        r = [n for n in ast.walk(f.node) if isinstance(n, ast.Return)]
        ok = len(r) == 1 and isinstance(r[0].value, ast.Compare) and isinstance(r[0].value.ops[0], ast.Eq) and \
            {norm(r[0].value.left), norm(r[0].value.comparators[0])} == {"acc.%s" % fld, "cur.%s" % fld}
        ctx.ob("R2", ok, "criterion %s compares the %s of run and feature" % (name, fld), func=f, sig="%s: %s" % (name, norm(r[0].value) if r else None))
    # interval criteria: compile and compare with the specification / check reflexivity
    names = ["as_", "ae", "cs", "ce"]

    def resolver(node):
        s = norm(node)
        return {"acc.start": "as_", "acc.end": "ae", "acc.stop": "ae", "cur.start": "cs", "cur.end": "ce", "cur.stop": "ce", "threshold": "th"}.get(s)
    specs = {
        "overlap_end_inclusive": lambda e: e["as_"] <= e["cs"] <= e["ae"] + 1,
        "overlap_start_inclusive": lambda e: e["as_"] <= e["ce"] + 1 <= e["ae"] + 1,
        "overlap_any_inclusive": lambda e: (e["as_"] <= e["cs"] <= e["ae"] + 1) or (e["as_"] <= e["ce"] + 1 <= e["ae"] + 1),
        "exact_coordinates_only": lambda e: e["cs"] == e["as_"] and e["ce"] == e["ae"],
    }
    B = 6 if ctx.tier == "quick" else 9
    for name, spec in specs.items():
        f = require_func(ctx, "merge_criteria." + name)
        r = [n for n in ast.walk(f.node) if isinstance(n, ast.Return)]
        ctx.require(len(r) == 1, "criterion %s has no single return" % name)
        try:
            pr = py_pred(r[0].value, resolver)
        except ValueError as e:
            ctx.ob("R2", False, "criterion %s is a comparison of coordinates" % name, func=f, sig="%s: unreadable (%s)" % (name, e))
            continue
        bad = None
        for vals in itertools.product(range(B), repeat=4):
            env = dict(zip(names, vals))
            if env["as_"] > env["ae"] or env["cs"] > env["ce"]:
                continue
            if bool(pr(env)) != bool(spec(env)):
                bad = env
                break
        ctx.ob("R2", bad is None, "criterion %s accepts exactly %s" % (name, {
            "overlap_end_inclusive": "acc.start <= cur.start <= acc.end + 1 (overlapping or adjacent to the right)",
            "overlap_start_inclusive": "acc.start <= cur.end + 1 <= acc.end + 1",
            "overlap_any_inclusive": "either of the two",
            "exact_coordinates_only": "equal coordinates"}[name]), func=f,
            sig="%s ≡ specification" % name if bad is None else "%s differs from its specification at %s" % (name, bad))
        refl = all(pr({"as_": a, "ae": b, "cs": a, "ce": b}) for a in range(B) for b in range(a, B))
        ctx.ob("R2", refl, "criterion %s is reflexive (a feature merges with itself) for start <= end" % name, func=f,
               sig="%s reflexive" % name if refl else "%s not reflexive" % name, nontrivial=False)
    thr_preds = {}
    for name in ("overlap_end_threshold", "overlap_start_threshold", "overlap_any_threshold"):
        f = require_func(ctx, "merge_criteria." + name)
        inner = [g for lst in f.nested.values() for g in lst]
        ctx.require(inner, "criterion factory %s has no inner function" % name)
        r = [n for n in ast.walk(inner[0].node) if isinstance(n, ast.Return)]
        pr = py_pred(r[0].value, resolver)
        refl = all(pr({"as_": a, "ae": b, "cs": a, "ce": b, "th": th}) for a in range(B) for b in range(a, B) for th in range(0, 4))
        ctx.ob("R2", refl, "criterion %s(threshold >= 0) is reflexive" % name, func=inner[0], sig="%s reflexive" % name if refl else "%s not reflexive" % name)
        thr_preds[name] = pr
        mono = all((not pr(dict(zip(names, v), th=th))) or pr(dict(zip(names, v), th=th + 1)) for v in itertools.product(range(B), repeat=4)
                   if v[0] <= v[1] and v[2] <= v[3] for th in range(0, 3))
        ctx.ob("R2", mono, "criterion %s is monotone in its threshold (a larger tolerance accepts at least as much)" % name, func=inner[0],
               sig="%s monotone in threshold" % name if mono else "%s not monotone in threshold" % name, nontrivial=False)
        base = {"overlap_end_threshold": "overlap_end_inclusive", "overlap_start_threshold": None, "overlap_any_threshold": None}[name]
        if base:
            sp = specs[base]
            same = all(bool(pr(dict(zip(names, v), th=1))) == bool(sp(dict(zip(names, v)))) for v in itertools.product(range(B), repeat=4)
                       if v[0] <= v[1] and v[2] <= v[3])
            ctx.ob("R2", same, "%s(1) coincides with %s" % (name, base), func=inner[0], sig="%s(1) ≡ %s" % (name, base) if same else "%s(1) differs from %s" % (name, base), nontrivial=False)
    r2_threshold_relations(ctx, thr_preds, specs, names, B)


def r2_threshold_relations(ctx, thr_preds, specs, names, B):
    import itertools as it_
    grid = [dict(zip(names, v)) for v in it_.product(range(B), repeat=4) if v[0] <= v[1] and v[2] <= v[3]]
    f = ctx.proj.func("merge_criteria.overlap_any_threshold")
    if {"overlap_start_threshold", "overlap_end_threshold", "overlap_any_threshold"} <= set(thr_preds):
        s_, e_, a_ = thr_preds["overlap_start_threshold"], thr_preds["overlap_end_threshold"], thr_preds["overlap_any_threshold"]
        ok = all(bool(a_(dict(g, th=t))) == bool(s_(dict(g, th=t)) or e_(dict(g, th=t))) for g in grid for t in range(0, 4))
        ctx.ob("R2", ok, "overlap_any_threshold(t) accepts exactly what overlap_start_threshold(t) or overlap_end_threshold(t) accepts", func=f,
               sig="any_threshold ≡ start_threshold or end_threshold" if ok else "any_threshold differs from start_threshold or end_threshold")
        ok = all(bool(s_(dict(g, th=0))) == bool(specs["overlap_start_inclusive"](g)) for g in grid)
        ctx.ob("R2", ok, "overlap_start_threshold(0) coincides with overlap_start_inclusive", func=ctx.proj.func("merge_criteria.overlap_start_threshold"),
               sig="start_threshold(0) ≡ start_inclusive" if ok else "start_threshold(0) differs from start_inclusive", nontrivial=False)


def r6(ctx):
    f = require_func(ctx, "interface.FeatureDB.merge")
    init = require_func(ctx, "feature.Feature.__init__")
    params = set(init.params) - {"self"}
    # properties with setters map to real fields
    feat = ctx.proj.cls("feature.Feature")
    props = set()
    for n in feat.node.body:
        if isinstance(n, ast.FunctionDef) and any(isinstance(d, ast.Name) and d.id == "property" for d in n.decorator_list):
            props.add(n.name)
    stored = {}
    for m in feat.methods.values():
        for n in ast.walk(m.node):
            if isinstance(n, ast.Assign):
                for t in n.targets:
                    if isinstance(t, ast.Attribute) and is_name(t.value, "self"):
                        stored.setdefault(t.attr, m.qual)
    # stores from outside the class on objects that are Features: receivers that flow from _feature_returner / loop items of merge
    for g in ctx.proj.funcs.values():
        if g.module.name not in ("interface", "create", "helpers", "convert"):
            continue
        if g.cls is feat:
            continue
        feature_like = set()
        for p in g.params:
            if p in ("feature", "f", "child", "parent", "merged", "current_merged"):
                feature_like.add(p)
        for n in ast.walk(g.node):
            if isinstance(n, ast.Assign) and isinstance(n.targets[0], ast.Name) and isinstance(n.value, ast.Call) and call_attr(n.value) == "_feature_returner":
                feature_like.add(n.targets[0].id)
            if isinstance(n, ast.For) and isinstance(n.target, ast.Name) and g.name in ("merge", "create_splice_sites", "merge_all"):
                feature_like.add(n.target.id)
        for n in ast.walk(g.node):
            if isinstance(n, ast.Assign):
                for t in n.targets:
                    if isinstance(t, ast.Attribute) and isinstance(t.value, ast.Name) and t.value.id in feature_like:
                        stored.setdefault(t.attr, g.qual)
    splats = []
    for n in ast.walk(f.node):
        if isinstance(n, ast.Assign) and isinstance(n.value, ast.Call) and call_attr(n.value) == "copy" and isinstance(n.value.func.value, ast.Call) \
                and is_name(n.value.func.value.func, "vars"):
            splats.append(n)
    ctx.floor("R6", len(splats), 1, "vars(head).copy() splats in merge()")
    for sp in splats:
        dname = norm(sp.targets[0])
        deleted = set()
        for n in ast.walk(f.node):
            if isinstance(n, ast.Delete):
                for t in n.targets:
                    if isinstance(t, ast.Subscript) and norm(t.value) == dname and const_str(t.slice):
                        deleted.add(const_str(t.slice))
            if isinstance(n, ast.Call) and call_attr(n) == "pop" and norm(n.func.value) == dname and n.args and const_str(n.args[0]):
                deleted.add(const_str(n.args[0]))
        keys = set(stored) - props
        extra = sorted(k for k in keys - deleted if k not in params)
        ctx.ob("R6", not extra,
               "the instance dict splatted into the Feature constructor holds only constructor parameters: (attributes ever stored on Feature "
               "objects) - (keys removed) ⊆ parameters of Feature.__init__ -- so objects produced by an earlier merge can be merged again",
               node=sp, func=f,
               sig="splat keys ⊆ Feature.__init__ parameters" if not extra else "splat carries %s, not a Feature.__init__ parameter (stored by %s)" % (
                   extra, sorted({stored[k].split(".", 1)[1] for k in extra})),
               detail=None if not extra else "merging an output of a previous merge() raises TypeError: unexpected keyword %r" % extra[0])
        need_del = sorted(k for k in ("attributes", "extra", "dialect", "keep_order", "sort_attribute_values") if k not in deleted)
        ctx.ob("R6", not need_del, "per-object state of the head (attributes, extra, dialect, print flags) is dropped from the splat, so the merged "
               "feature starts with fresh containers and the database's settings", node=sp, func=f,
               sig="splat drops attributes/extra/dialect/keep_order/sort_attribute_values" if not need_del else "splat keeps %s" % need_del)
    fm = require_func(ctx, "interface._finalize_merge")
    src = [n for n in ast.walk(fm.node) if isinstance(n, ast.Assign) and norm(n.targets[0]).endswith(".children")]
    vals = sorted(norm(n.value) for n in src)
    ok = vals == ["feature_children", "no_children"]
    ctx.ob("R6", ok, "_finalize_merge attaches the run's members (or the empty constant) as .children", func=fm, sig="_finalize_merge children := %s" % vals)
    g = [norm(n.test) for n in ast.walk(fm.node) if isinstance(n, ast.If)]
    ctx.ob("R6", g == ["len(feature_children) > 1"], "a single-member run has no children (it is the input itself)", func=fm, sig="_finalize_merge guard %s" % g)


def r7_r8(ctx):
    f = require_func(ctx, "interface.FeatureDB.merge_all")
    cfg = cfg_of(f)
    mloop = None
    for n in ast.walk(f.node):
        if isinstance(n, ast.For) and isinstance(n.iter, ast.Call) and call_attr(n.iter) == "merge":
            mloop = n
    ctx.require(mloop is not None, "merge_all no longer loops over self.merge(...)")
    mv = mloop.target.id
    src = mloop.iter.args[0] if mloop.iter.args else None
    ok = isinstance(src, ast.Call) and call_attr(src) == "all_features" and norm(kwarg(src, "order_by") or ast.Constant(value=None)) == "merge_order"
    ctx.ob("R7", ok, "merge_all merges all features in merge_order", node=mloop, func=f, sig="merge_all source %s" % (norm(src) if src is not None else None))
    mc_kw = kwarg(mloop.iter, "merge_criteria")
    ctx.ob("R7", mc_kw is not None and norm(mc_kw) == "merge_criteria", "merge_all forwards the criteria", node=mloop, func=f,
           sig="merge_all criteria %s" % (norm(mc_kw) if mc_kw is not None else None), nontrivial=False)
    ins = [c for c in calls_in(f.node) if call_attr(c) == "_insert" and c.args and is_name(c.args[0], mv)]
    g = [norm(t) for c in ins[:1] for t, pol in guards_of(c, mloop) if pol]
    ok = len(ins) == 1 and g == ["%s.children" % mv]
    ctx.ob("R7", ok, "one new feature is stored per multi-member run (and only for those)", func=f, sig="merge_all stores merged under %s" % g)
    rel = [c for c in calls_in(f.node) if call_attr(c) == "add_relation"]
    dele = [c for c in calls_in(f.node) if call_attr(c) == "delete"]
    ok = len(rel) == 1 and [norm(a) for a in rel[0].args[:3]] == [mv, rel[0].args[1].id if isinstance(rel[0].args[1], ast.Name) else "?", "1"]
    rl = enclosing(rel[0], ast.For) if rel else None
    ok = ok and rl is not None and norm(rl.iter) == "%s.children" % mv and is_name(rel[0].args[1], rl.target.id)
    ctx.ob("R7", ok, "every member is related to its merged feature at level 1", func=f, sig="merge_all relates: %s" % (norm(rel[0]) if rel else None))
    ok = len(dele) == 1 and [norm(a) for a in dele[0].args] == ["%s.children" % mv]
    ctx.ob("R7", ok, "...or, with exclude_components, the members are deleted", func=f, sig="merge_all deletes: %s" % (norm(dele[0]) if dele else None))
    if rel and dele:
        gr = [(norm(t), pol) for t, pol in guards_of(rel[0], mloop)]
        gd = [(norm(t), pol) for t, pol in guards_of(dele[0], mloop)]
        ok = ("exclude_components", False) in gr and ("exclude_components", True) in gd
        ctx.ob("R7", ok, "exclude_components chooses between the two", func=f, sig="relate under %s / delete under %s" % (gr, gd), nontrivial=False)
        ok = all(cfg.dominates(cfg.node_for(ins[0]).id, cfg.node_for(c).id) for c in (rel[0], dele[0])) if ins else False
        ctx.ob("R7", ok, "the merged feature is stored before its members are related or deleted", func=f,
               sig="insert dominates relate/delete" if ok else "members handled before the merged feature is stored", nontrivial=False)
    ac = require_func(ctx, "interface.assign_child")
    st = [n for n in ast.walk(ac.node) if isinstance(n, ast.Assign)]
    ok = len(st) == 1 and norm(st[0].targets[0]) == "child.attributes['Parent']" and norm(st[0].value) == "parent['ID']"
    ctx.ob("R7", ok, "a related member names the merged feature's ID as its Parent", func=ac, sig="assign_child: %s" % (norm(st[0]) if st else None))
    # ---- R8
    bp = require_func(ctx, "interface.FeatureDB.children_bp")
    aug = [n for n in ast.walk(bp.node) if isinstance(n, ast.AugAssign) and isinstance(n.op, ast.Add)]
    ok = len(aug) == 1 and isinstance(aug[0].value, ast.Call) and is_name(aug[0].value.func, "len")
    lp = enclosing(aug[0], ast.For) if aug else None
    ok = ok and lp is not None and is_name(aug[0].value.args[0], lp.target.id)
    ctx.ob("R8", ok, "children_bp sums len(child) over the (optionally merged) children", func=bp, sig="children_bp adds %s" % (norm(aug[0].value) if aug else None))
    ch = [c for c in calls_in(bp.node) if call_attr(c) == "children"]
    ok = bool(ch) and norm(kwarg(ch[0], "featuretype") or ast.Constant(value=None)) == "child_featuretype" and const_str(kwarg(ch[0], "order_by")) == "start"
    ctx.ob("R8", ok, "children are taken by type, ordered by start (merge() needs start order)", func=bp, sig="children_bp children: %s" % (norm(ch[0]) if ch else None))
    mg = [c for c in calls_in(bp.node) if call_attr(c) == "merge"]
    g = [norm(t) for c in mg[:1] for t, pol in guards_of(c, bp.node) if pol]
    ok = len(mg) == 1 and g == ["merge"] and norm(kwarg(mg[0], "merge_criteria") or ast.Constant(value=None)) == "merge_criteria"
    ctx.ob("R8", ok, "with merge=True the children are merged first, with the given criteria", func=bp, sig="children_bp merge: %s under %s" % (norm(mg[0]) if mg else None, g))
    ln = require_func(ctx, "feature.Feature.__len__")
    r = [n for n in ast.walk(ln.node) if isinstance(n, ast.Return)]
    from .c18 import affine_len
    ok = len(r) == 1 and affine_len(r[0].value) == ({"end": 1, "start": -1}, 1)
    ctx.ob("R8", ok, "len(feature) = end - start + 1", func=ln, sig="__len__ = %s" % (norm(r[0].value) if r else None))


def check(ctx):
    ctx.explanation = (
        "merge() is decided by path enumeration over its loop body's CFG (acyclic within one pass): along every path an abstract state "
        "(head pending / emitted, disposition of the loop item, children reset, id reset) is simulated and must discharge the partition "
        "typestate; stores into the head must be dominated by the copy guard; extent updates are compiled and compared with min/max on a "
        "grid; interval criteria are compiled and compared with their specification on a grid that is complete for difference "
        "constraints, and checked reflexive; the vars()-splat is checked against every attribute ever stored on Feature objects. "
        "merge_all / children_bp are def-use facts. Does not decide extents = interval union for every multiset, nor idempotence.")
    r1_r4_r5(ctx)
    r2(ctx)
    r6(ctx)
    r7_r8(ctx)
