"""C10 -- update/delete histories: backup, delete, counters, driver order,
add_relation."""
import ast

from .. import sql as S
from ..callgraph import Effects
from ..cfg import cfg_of
from ..model import norm, parents
from ..util import require_func, execute_sites, calls_in, call_attr, is_name, const_str, kwarg, guards_of
from .c02 import schema

WRITE_VERBS = {"INSERT", "UPDATE", "DELETE", "CREATE TABLE", "CREATE INDEX", "DROP INDEX", "DROP TABLE", "ANALYZE"}


COPY = ("shutil.copy2", "shutil.copy", "shutil.copyfile")
IMPORTERS = ("create._GFFDBCreator", "create._GTFDBCreator")


def _is_copy(e):
    return e[0] == "call-opaque" and getattr(e[1], "name", None) in COPY


def _is_write(e):
    """Events after which the database may have changed."""
    from ..absint import Opaque
    if e[0] == "execute":
        return True
    if e[0] == "construct" and e[1] in IMPORTERS:
        return True   # the importer connects to (and under `force` removes) the database file
    if e[0] == "call-opaque" and isinstance(e[1], Opaque) and isinstance(e[2], str):
        if e[2] in ("commit", "executescript") or e[1].name in ("_GFFDBCreator", "_GTFDBCreator"):
            return True
    return False


def _traces(ctx, func, args, self_obj, summaries=None):
    from ..absint import Interp, Unsupported
    it = Interp(ctx)
    for k, v in (summaries or {}).items():
        it.summaries[k] = v
    try:
        return it.run(func, args, self_obj=self_obj)
    except Unsupported as e:
        ctx.require(False, "%s outside the analysable subset: %s" % (func.qual, e))


def _self(dbfn, **attrs):
    from ..absint import Opaque
    so = Opaque("self", "obj")
    so.attrs["dbfn"] = dbfn
    so.attrs.update(attrs)
    return so


def r1(ctx, eff):
    """Backup: evaluated abstractly for make_backup x (database is a file / an open connection); the copy must be the first
    event that can change anything, be taken exactly when both hold, and copy <dbfn> to <dbfn>.bak."""
    from ..absint import Sym, Opaque, AStr
    upd_f, del_f = require_func(ctx, "interface.FeatureDB.update"), require_func(ctx, "interface.FeatureDB.delete")
    cases = [("update", upd_f, lambda: {"data": Sym("data", "str", True)}, dict(dialect={"fmt": "gff3"}, _autoincrements=Opaque("COUNTERS", "dict"))),
             ("update with further keyword arguments", upd_f, lambda: {"data": Sym("data", "str", True), "merge_strategy": "merge", "checklines": 5},
              dict(dialect={"fmt": "gff3"}, _autoincrements=Opaque("COUNTERS", "dict"))),
             ("delete", del_f, lambda: {"features": [Opaque("F", "Feature"), "ID2"]}, {}),
             ("delete of a single id", del_f, lambda: {"features": "ID1"}, {})]
    for name, f, mk, attrs in cases:
        n_w = 0
        for mb in (True, False):
            for kind, dbfn in (("file", Sym("dbfn", "str", True)), ("connection", Opaque("conn", "Connection"))):
                a = mk()
                a["make_backup"] = mb
                for t in _traces(ctx, f, a, _self(dbfn, **attrs)):
                    ev = t.events
                    copies = [i for i, e in enumerate(ev) if _is_copy(e)]
                    writes = [i for i, e in enumerate(ev) if _is_write(e)]
                    n_w += len(writes)
                    label = "%s(make_backup=%s) on a %s" % (name, mb, kind)
                    want = 1 if (mb and kind == "file") else 0
                    ctx.ob("R1", len(copies) == want, "the backup depends on make_backup and on the database being a file, on nothing else", func=f,
                           sig="%s: %d backup copies" % (label, len(copies)))
                    for i in copies:
                        args_ = ev[i][2]
                        shown = [x.name if isinstance(x, Sym) else x.render() if isinstance(x, AStr) else repr(x) for x in args_]
                        ok = len(args_) == 2 and shown == ["dbfn", "\u27e6dbfn\u27e7.bak"]
                        ctx.ob("R1", ok, "the backup copies the database file to <dbfn>.bak", func=f, sig="%s backup copy(%s)" % (name, ", ".join(shown)))
                        early = [j for j in writes if j < i]
                        ctx.ob("R1", not early, "the backup is taken before anything can write", func=f,
                               sig="%s: backup precedes every write" % name if not early else "%s: %d write(s) before the backup" % (name, len(early)))
        ctx.floor("R1", n_w, 2, "write events in %s" % name)


def r3_r4(ctx, eff):
    from ..absint import Sym, Opaque
    f = require_func(ctx, "interface.FeatureDB.update")
    COUNTERS = Opaque("COUNTERS", "dict")
    DIALECT = {"fmt": "gff3"}
    DBFN = Sym("dbfn", "str", True)
    n_ctor = 0
    for fmt in ("gff3", "gtf"):
        DIALECT = {"fmt": fmt}
        for t in _traces(ctx, f, {"data": Sym("data", "str", True), "make_backup": False}, _self(DBFN, dialect=DIALECT, _autoincrements=COUNTERS)):
            cons = [e for e in t.events if e[0] == "construct" and e[1] in IMPORTERS]
            its = [e for e in t.events if e[0] == "construct" and e[1].startswith("iterators.")]
            calls = [e[2] for e in t.events if e[0] == "call-opaque" and isinstance(e[1], Opaque) and e[1].name in ("_GFFDBCreator", "_GTFDBCreator")]
            peek_dec = [d for d in t.decisions if "_peek" in repr(d[0])]
            empty = any(d[1] is False for d in peek_dec) if peek_dec else None
            if empty:
                writes = [e for e in t.events if _is_write(e)]
                ctx.ob("R4", not writes and t.result[0] == "return", "an update whose source yields nothing returns the database unchanged, before anything is written", func=f,
                       sig="empty update (fmt=%s): %d write event(s)" % (fmt, len(writes)))
                continue
            ctx.ob("R4", bool(peek_dec), "an update whose source yields nothing returns the database unchanged (explicit emptiness test before the importer runs)", func=f,
                   sig="empty update returns self early" if peek_dec else "no early return for an empty update", nontrivial=False)
            n_ctor += len(cons)
            for e in cons:
                kw = e[3]
                ctx.ob("R3", kw.get("_autoincrements") is COUNTERS, "update hands the live counter object to the importer", func=f,
                       sig="importer(_autoincrements=%s)" % ("the database's own counters" if kw.get("_autoincrements") is COUNTERS else repr(kw.get("_autoincrements"))))
                okd = kw.get("dbfn") is DBFN or getattr(kw.get("dbfn"), "name", None) == "dbfn"
                ctx.ob("R4", okd, "update imports into the open database (dbfn)", func=f, sig="importer(dbfn=%r)" % (kw.get("dbfn"),), nontrivial=False)
                ctx.ob("R4", kw.get("dialect") == DIALECT, "update imports with the database's own dialect", func=f, sig="importer(dialect=%r)" % (kw.get("dialect"),), nontrivial=False)
                okdata = isinstance(kw.get("data"), Opaque) and ("Iterator" in kw.get("data").name or "DataIterator" in kw.get("data").name)
                ctx.ob("R4", okdata, "the importer reads the iterator built from `data`", func=f, sig="importer(data=%r)" % (kw.get("data"),), nontrivial=False)
            # populate -> relations -> finalize: decided on the evaluated history (relations two levels deep, counters persisted)
    ctx.floor("R3", n_ctor, 2, "importer constructions in update")
    # the importer keeps the given counter object itself
    init = require_func(ctx, "create._DBCreator.__init__")
    GIVEN = Opaque("GIVEN", "dict")
    for label, extra in (("counters given", {"_autoincrements": GIVEN}), ("no counters given", {})):
        a = {"data": Sym("data", "any", True), "dbfn": Sym("dbfn", "str", True)}
        a.update(extra)
        so = Opaque("self", "obj")
        for t in _traces(ctx, init, a, so, summaries={"iterators.DataIterator": lambda i, pos, kw, node: Opaque("ITER", "obj")}):
            sets_ = [e[3] for e in t.events if e[0] == "setattr" and e[2] == "_autoincrements" and getattr(e[1], "name", None) == "self"]
            final = sets_[-1] if sets_ else None
            if extra:
                same = isinstance(final, Opaque) and final.name == "GIVEN"
                ctx.ob("R3", same, "the importer uses the given counter object itself (no copy)", func=init,
                       sig="%s: self._autoincrements is %s" % (label, "the given object" if same else repr(final)))
            else:
                import collections as _c
                ok = final is not None and not (isinstance(final, Opaque) and final.name == "GIVEN") and (isinstance(final, _c.defaultdict) or "defaultdict" in repr(final))
                ctx.ob("R3", ok, "...or fresh counters when none is given", func=init, sig="%s: self._autoincrements := %r" % (label, final), nontrivial=False)
    # counters written back and reloaded: decided on the evaluated history (r_history: table, open object, reopened object)


def r6(ctx, sch):
    r_history(ctx)


def r_history(ctx):
    """A history create -> update -> empty update -> add_relation -> delete, evaluated on the model database step by step and
    compared after every step with a reference model of features and relations."""
    from . import scen
    fu = require_func(ctx, "interface.FeatureDB.update")
    fd = require_func(ctx, "interface.FeatureDB.delete")
    fa = require_func(ctx, "interface.FeatureDB.add_relation")
    lines = scen.gff_lines()
    im, _t = scen.run_create(ctx, "_GFFDBCreator", lines, directives=["gff-version 3"])
    db = im.db
    counters = {r[0]: r[1] for r in db.rows("autoincrements")}
    it, me, conn = scen.feature_db(ctx, db, counters=counters)
    ids = [f.attrs["id"] for f in lines]
    model_f = list(ids)
    model_r = set(scen.expected_relations(lines, ids))

    def state():
        return [r[0] for r in db.rows("features", ["id"])], db.rows("relations")

    def step(qual, **args):
        t_ = scen.call_method(ctx, it, me, qual, **args)
        scen.returned(ctx, t_, qual.split(".", 1)[1], func=require_func(ctx, qual), rule="R5")
        return t_

    def compare(rule, step, func, what):
        gf, gr = state()
        okf = sorted(gf, key=str) == sorted(model_f, key=str)
        okr = set(gr) == model_r and len(gr) == len(set(gr))
        ctx.ob(rule, okf and okr, "after %s the stored features and relations are exactly those of the reference model (%s)" % (step, what), func=func,
               sig="%s: database equals the model" % step if okf and okr else
               "%s: features +%s -%s, relations +%s -%s" % (step, sorted(set(map(str, gf)) - set(map(str, model_f)))[:3], sorted(set(map(str, model_f)) - set(map(str, gf)))[:3],
                                                            sorted(set(gr) - model_r)[:3], sorted(model_r - set(gr))[:3]))
    compare("R5", "create", fu, "the starting point")
    # ---- update with three new lines (one without an ID: the per-type counter continues)
    more = [scen.feature("N1", "exon", 460, 480, {"ID": ["e9"], "Parent": ["t1"]}), scen.feature("N2", "match_part", 10, 20, {"ID": ["p2"], "Parent": ["e1"]}),
            scen.feature("N3", "region", 5, 6, {"Note": ["second unnamed region"]}, strand=".")]
    t = step("interface.FeatureDB.update", data=list(more), make_backup=False)
    new_ids = [f.attrs["id"] for f in more]
    model_f += new_ids
    model_r = set(scen.expected_relations(lines + more, ids + new_ids))
    compare("R5", "update with three new lines", fu, "update adds the features and their first- and second-level relations, nothing else")
    ctx.ob("R3", new_ids[2] == "region_2", "an automatically numbered key continues the numbering of the database (region_1 exists, the next is region_2)", func=fu,
           sig="second unnamed region stored as %s" % new_ids[2])
    stored_counter = dict((r[0], r[1]) for r in db.rows("autoincrements")).get("region")
    live = me.attrs["_autoincrements"].get("region") if hasattr(me.attrs["_autoincrements"], "get") else None
    ctx.ob("R3", stored_counter == 2 and live == 2, "after the update the counter is 2 both in the autoincrements table and in the open FeatureDB", func=fu,
           sig="counter region: table %s, FeatureDB %s" % (stored_counter, live))
    # ---- an update whose source yields nothing
    before = (state(), db.rows("autoincrements"), db.rows("meta"), db.rows("directives"))
    n_log = len(db.log)
    t = step("interface.FeatureDB.update", data=[], make_backup=False)
    after = (state(), db.rows("autoincrements"), db.rows("meta"), db.rows("directives"))
    writes = [x for x in db.log[n_log:] if x[0] in ("INSERT", "UPDATE", "DELETE", "INSERT-IGNORED")]
    ctx.ob("R4", before == after and not writes, "an update with no features changes nothing", func=fu, sig="empty update: %d row(s) written" % len(writes))
    # ---- add_relation by ids and by Feature objects
    t = step("interface.FeatureDB.add_relation", parent="g1", child="o1", level=1)
    model_r.add(("g1", "o1", 1))
    compare("R6", "add_relation('g1', 'o1', 1)", fa, "exactly the row (parent id, child id, level) is added")
    P = step("interface.FeatureDB.__getitem__", key="t2").result[1]
    C = step("interface.FeatureDB.__getitem__", key="p2").result[1]
    t = step("interface.FeatureDB.add_relation", parent=P, child=C, level=2)
    model_r.add(("t2", "p2", 2))
    compare("R6", "add_relation(Feature t2, Feature p2, 2)", fa, "Feature arguments contribute their ids")
    # ---- delete by id, by Feature, by list
    from ..absint import StreamVal
    for what, arg, gone in (("delete('t1')", "t1", ["t1"]), ("delete(Feature p2)", C, ["p2"]), ("delete(['e3', 'o1'])", ["e3", "o1"], ["e3", "o1"]),
                            ("delete(a one-shot generator of 'e1', 'e5')", StreamVal(["e1", "e5"], "ids"), ["e1", "e5"])):
        t = step("interface.FeatureDB.delete", features=arg, make_backup=False)
        for g in gone:
            if g in model_f:
                model_f.remove(g)
            model_r = {r for r in model_r if r[0] != g and r[1] != g}
        compare("R2", what, fd, "delete removes the feature and every relation mentioning it, and nothing else")
    ctx.ob("R2", conn.commits >= 1, "update and delete commit what they wrote", func=fd, sig="%d commit(s) on the connection" % conn.commits, nontrivial=False)
    # ---- close / reopen: the counters come back from the table
    it2, me2, conn2, t_open = scen.open_feature_db(ctx, db)
    if scen.returned(ctx, t_open, "FeatureDB(dbfn) after the history", func=fu, rule="R3"):
        c2 = me2.attrs.get("_autoincrements")
        got = dict(c2) if hasattr(c2, "items") else c2
        ctx.ob("R3", isinstance(got, dict) and got.get("region") == 2, "reopening the database reloads the counters (region -> 2)", func=fu, sig="counters after reopening: %s" % (got,))
        it, me, conn = it2, me2, conn2
    # ---- after the deletions an unnamed feature still gets a fresh key
    t = step("interface.FeatureDB.update", data=[scen.feature("N4", "region", 7, 8, {"Note": ["third"]}, strand=".")], make_backup=False)
    gf, _gr = state()
    ctx.ob("R3", "region_3" in gf and gf.count("region_3") == 1, "keys handed out earlier are never handed out again (the third unnamed region is region_3)", func=fu,
           sig="third unnamed region stored: %s" % [x for x in gf if str(x).startswith("region")])
    # ---- '<key>_n' keys of create_unique are not recycled either: g1_1, g1_2, delete g1_2, next is g1_3
    dup = lambda nm, s_: scen.feature(nm, "gene", s_, s_ + 5, {"ID": ["g1"], "note": [nm]})
    handed = []
    for nm, s_ in (("U1", 2000), ("U2", 3000)):
        f_ = dup(nm, s_)
        t = step("interface.FeatureDB.update", data=[f_], make_backup=False, merge_strategy="create_unique")
        handed.append(f_.attrs.get("id"))
    t = step("interface.FeatureDB.delete", features=handed[-1], make_backup=False)
    f_ = dup("U3", 4000)
    t = step("interface.FeatureDB.update", data=[f_], make_backup=False, merge_strategy="create_unique")
    fresh = f_.attrs.get("id")
    ok = handed == ["g1_1", "g1_2"] and fresh == "g1_3"
    ctx.ob("R3", ok, "'<key>_n' keys continue their numbering across updates and a deletion: a key handed out earlier is never handed out again", func=fu,
           sig="create_unique keys %s, then (after deleting the last) %s" % (handed, fresh))


def r_histories(ctx):
    """Every sequence of steps over a small alphabet (updates adding a child / a three-level chain / an unnamed feature,
    deletes of an inner feature / of two features / of the feature added last, add_relation, close-and-reopen) up to a depth
    bound, each evaluated on a fresh model database and compared after every step with a reference model."""
    import copy
    import itertools
    from . import scen
    fu = require_func(ctx, "interface.FeatureDB.update")
    base = scen.gff_lines()
    depth = 3 if ctx.tier == "thorough" else 2
    ops = ["update:child", "update:chain", "update:unnamed", "delete:t1", "delete:e2+g1", "delete:last", "add_relation", "reopen"]
    im0, _t = scen.run_create(ctx, "_GFFDBCreator", [scen.feature(f.name, f.attrs["featuretype"], f.attrs["start"], f.attrs["end"], f.attrs["attributes"], strand=f.attrs["strand"])
                                                      for f in base], directives=["gff-version 3"])
    ids0 = [r[0] for r in im0.db.rows("features", ["id"])]
    rel0 = set(im0.db.rows("relations"))
    bad = None
    n_hist = n_steps = 0
    for hist in itertools.product(ops, repeat=depth):
        if bad is not None:
            break
        n_hist += 1
        db = copy.deepcopy(im0.db)
        it, me, conn, t_open = scen.open_feature_db(ctx, db)
        feats = list(ids0)
        lo = set(rel0)             # rows that must be there
        hi = set(rel0)             # rows that may be there
        handed = {i for i in ids0}
        last = None
        serial = 0

        def call(qual, **args):
            return scen.call_method(ctx, it, me, qual, **args)

        def closure(l1):
            return {(a, c, 2) for a, b, _l in l1 for b2, c, _l2 in l1 if b2 == b}
        for k, op in enumerate(hist):
            n_steps += 1
            serial += 1
            label = "history %s, step %d" % (" -> ".join(hist), k + 1)
            if op.startswith("update"):
                if op == "update:child":
                    new = [scen.feature("N", "exon", 460, 480, {"ID": ["n%d" % serial], "Parent": ["t1"]})]
                elif op == "update:chain":
                    new = [scen.feature("X1", "gene", 5000, 6000, {"ID": ["x%d" % serial]}), scen.feature("X2", "mRNA", 5000, 6000, {"ID": ["y%d" % serial], "Parent": ["x%d" % serial]}),
                           scen.feature("X3", "exon", 5000, 5100, {"ID": ["z%d" % serial], "Parent": ["y%d" % serial, "t2"]})]
                else:
                    new = [scen.feature("R", "region", 5, 6, {"Note": ["unnamed"]}, strand=".")]
                t = call("interface.FeatureDB.update", data=list(new), make_backup=False)
                if t.result[0] != "return":
                    bad = "%s: update raises %s" % (label, t.result[1:3])
                    break
                nid = [f.attrs["id"] for f in new]
                if op == "update:unnamed" and (nid[0] in handed or not str(nid[0]).startswith("region_")):
                    bad = "%s: the unnamed feature is stored under %r, keys handed out so far: %s" % (label, nid[0], sorted(x for x in handed if str(x).startswith("region")))
                    break
                handed |= set(nid)
                feats += nid
                last = nid[-1]
                new1 = {(p_, i_, 1) for f, i_ in zip(new, nid) for p_ in f.attrs["attributes"].get("Parent", [])}
                l1_lo = {r for r in lo if r[2] == 1} | new1
                l1_hi = {r for r in hi if r[2] == 1} | new1
                lo |= new1 | {r for r in closure(l1_lo) if any((r[0], b, 1) in new1 or (b, r[1], 1) in new1 for b in {x[1] for x in l1_lo})}
                hi |= new1 | closure(l1_hi)
            elif op.startswith("delete"):
                gone = {"delete:t1": ["t1"], "delete:e2+g1": ["e2", "g1"], "delete:last": [last] if last else []}[op]
                if not gone:
                    continue
                t = call("interface.FeatureDB.delete", features=gone if len(gone) > 1 else gone[0], make_backup=False)
                if t.result[0] != "return":
                    bad = "%s: delete raises %s" % (label, t.result[1:3])
                    break
                feats = [f for f in feats if f not in gone]
                lo = {r for r in lo if r[0] not in gone and r[1] not in gone}
                hi = {r for r in hi if r[0] not in gone and r[1] not in gone}
            elif op == "add_relation":
                if "g1" not in feats or "o1" not in feats or ("g1", "o1", 1) in hi:
                    continue
                t = call("interface.FeatureDB.add_relation", parent="g1", child="o1", level=1)
                if t.result[0] != "return":
                    bad = "%s: add_relation raises %s" % (label, t.result[1:3])
                    break
                lo.add(("g1", "o1", 1))
                hi.add(("g1", "o1", 1))
            else:
                it, me, conn, t_open = scen.open_feature_db(ctx, db)
                if t_open.result[0] != "return":
                    bad = "%s: reopening raises %s" % (label, t_open.result[1:3])
                    break
            gf = [r[0] for r in db.rows("features", ["id"])]
            gr = db.rows("relations")
            if sorted(map(str, gf)) != sorted(map(str, feats)):
                bad = "%s: features +%s -%s" % (label, sorted(set(map(str, gf)) - set(map(str, feats)))[:3], sorted(set(map(str, feats)) - set(map(str, gf)))[:3])
            elif not (lo <= set(gr) <= hi) or len(gr) != len(set(gr)):
                bad = "%s: relations missing %s, unexpected %s" % (label, sorted(lo - set(gr))[:3], sorted(set(gr) - hi)[:3])
            if bad:
                break
    ctx.ob("R5", bad is None, "every history of %d steps over {update with a child / a chain / an unnamed feature, delete an inner feature / two features / the last one added, "
           "add_relation, reopen} leaves exactly the modelled features and relations after every step, and automatic keys never repeat (%d histories, %d steps)" % (depth, n_hist, n_steps),
           func=fu, sig="all histories to depth %d agree with the reference model" % depth if bad is None else bad[:500])
    ctx.extra["histories"] = n_hist


def check(ctx):
    ctx.explanation = (
        "FeatureDB.update/delete/add_relation and the importer's constructor are evaluated abstractly (no execution) into event traces: the "
        "backup copy must be the first event that can change anything and be taken exactly when make_backup holds and the database is a file; "
        "delete's statements and their bound values per element; the live counter object, dbfn, dialect and the built iterator reach the "
        "importer; populate -> relations -> finalize; an empty source returns before any write; counters are written back with INSERT OR "
        "REPLACE and reloaded on open (parsed SQL + provenance). R5 re-uses C02's importer scenarios (relations after a first and a second import into the same model database). "
        "One long history and every history of two (thorough: three) steps over an eight-step alphabet are evaluated on the model database and compared with a reference model after every step. "
        "Does not decide histories beyond that depth or alphabet, nor the '.bak' content after a failure part-way.")
    eff = Effects(ctx)
    sch = schema(ctx)
    r1(ctx, eff)
    r3_r4(ctx, eff)
    from . import c02
    n0 = len(ctx.obs)
    c02.r_scenario(ctx)
    for o in ctx.obs[n0:]:
        o.rule = "C10.R5"
    r6(ctx, sch)
    ctx.attempt(r_histories)
