"""C10 -- update/delete histories: backup, delete, counters, driver order,
add_relation."""
import ast

from .. import sql as S
from ..callgraph import Effects
from ..cfg import cfg_of
from ..model import norm, parents
from ..util import require_func, execute_sites, calls_in, call_attr, is_name, const_str, kwarg, guards_of
from .c02 import schema

WRITE_VERBS = {"INSERT", "UPDATE", "DELETE", "CREATE TABLE", "CREATE INDEX", "DROP INDEX", "DROP TABLE", "ANALYZE"}


COPY = ("shutil.copy2", "shutil.copy", "shutil.copyfile")
IMPORTERS = ("create._GFFDBCreator", "create._GTFDBCreator")


def _is_copy(e):
    return e[0] == "call-opaque" and getattr(e[1], "name", None) in COPY


def _is_write(e):
    """Events after which the database may have changed."""
    from ..absint import Opaque
    if e[0] == "execute":
        return True
    if e[0] == "construct" and e[1] in IMPORTERS:
        return True   # the importer connects to (and under `force` removes) the database file
    if e[0] == "call-opaque" and isinstance(e[1], Opaque) and isinstance(e[2], str):
        if e[2] in ("commit", "executescript") or e[1].name in ("_GFFDBCreator", "_GTFDBCreator"):
            return True
    return False


def _traces(ctx, func, args, self_obj, summaries=None):
    from ..absint import Interp, Unsupported
    it = Interp(ctx)
    for k, v in (summaries or {}).items():
        it.summaries[k] = v
    try:
        return it.run(func, args, self_obj=self_obj)
    except Unsupported as e:
        ctx.require(False, "%s outside the analysable subset: %s" % (func.qual, e))


def _self(dbfn, **attrs):
    from ..absint import Opaque
    so = Opaque("self", "obj")
    so.attrs["dbfn"] = dbfn
    so.attrs.update(attrs)
    return so


def r1(ctx, eff):
    """Backup: evaluated abstractly for make_backup x (database is a file / an open connection); the copy must be the first
    event that can change anything, be taken exactly when both hold, and copy <dbfn> to <dbfn>.bak."""
    from ..absint import Sym, Opaque, AStr
    upd_f, del_f = require_func(ctx, "interface.FeatureDB.update"), require_func(ctx, "interface.FeatureDB.delete")
    cases = [("update", upd_f, lambda: {"data": Sym("data", "str", True)}, dict(dialect={"fmt": "gff3"}, _autoincrements=Opaque("COUNTERS", "dict"))),
             ("update with further keyword arguments", upd_f, lambda: {"data": Sym("data", "str", True), "merge_strategy": "merge", "checklines": 5},
              dict(dialect={"fmt": "gff3"}, _autoincrements=Opaque("COUNTERS", "dict"))),
             ("delete", del_f, lambda: {"features": [Opaque("F", "Feature"), "ID2"]}, {}),
             ("delete of a single id", del_f, lambda: {"features": "ID1"}, {})]
    for name, f, mk, attrs in cases:
        n_w = 0
        for mb in (True, False):
            for kind, dbfn in (("file", Sym("dbfn", "str", True)), ("connection", Opaque("conn", "Connection"))):
                a = mk()
                a["make_backup"] = mb
                for t in _traces(ctx, f, a, _self(dbfn, **attrs)):
                    ev = t.events
                    copies = [i for i, e in enumerate(ev) if _is_copy(e)]
                    writes = [i for i, e in enumerate(ev) if _is_write(e)]
                    n_w += len(writes)
                    label = "%s(make_backup=%s) on a %s" % (name, mb, kind)
                    want = 1 if (mb and kind == "file") else 0
                    ctx.ob("R1", len(copies) == want, "the backup depends on make_backup and on the database being a file, on nothing else", func=f,
                           sig="%s: %d backup copies" % (label, len(copies)))
                    for i in copies:
                        args_ = ev[i][2]
                        shown = [x.name if isinstance(x, Sym) else x.render() if isinstance(x, AStr) else repr(x) for x in args_]
                        ok = len(args_) == 2 and shown == ["dbfn", "\u27e6dbfn\u27e7.bak"]
                        ctx.ob("R1", ok, "the backup copies the database file to <dbfn>.bak", func=f, sig="%s backup copy(%s)" % (name, ", ".join(shown)))
                        early = [j for j in writes if j < i]
                        ctx.ob("R1", not early, "the backup is taken before anything can write", func=f,
                               sig="%s: backup precedes every write" % name if not early else "%s: %d write(s) before the backup" % (name, len(early)))
        ctx.floor("R1", n_w, 2, "write events in %s" % name)


def r2(ctx, eff):
    """delete(): for a string id, a Feature and a mixed list the statements executed, with their bound values, are exactly one
    DELETE on features and one on relations per element."""
    from ..absint import Sym, Opaque
    f = require_func(ctx, "interface.FeatureDB.delete")
    F = lambda: Opaque("F", "Feature")
    for label, feats, ids in (("a string id", "ID1", ["ID1"]), ("a Feature", F(), ["F.id"]), ("a list of a Feature and an id", [F(), "ID2"], ["F.id", "ID2"])):
        for t in _traces(ctx, f, {"features": feats, "make_backup": False}, _self(Sym("dbfn", "str", True))):
            ex = t.executes()
            per = {}
            other = []
            for e in ex:
                text = e[1] if isinstance(e[1], str) else str(e[1])
                try:
                    st = S.parse(text)
                except S.SQLError:
                    other.append(" ".join(text.split())[:40])
                    continue
                vals = [getattr(x, "name", x) for x in (e[2] if isinstance(e[2], (list, tuple)) else [e[2]])]
                if isinstance(e[2], dict):
                    vals = [getattr(x, "name", x) for x in e[2].values()]
                n_ph = len(S.placeholders(st))
                if st.verb != "DELETE" or len(set(vals)) != 1 or (not isinstance(e[2], dict) and len(vals) != n_ph):
                    other.append("%s %s %s" % (st.verb, getattr(st, "table", "?"), vals))
                    continue
                per.setdefault(vals[0], []).append(st)
            ctx.ob("R2", not other, "delete removes nothing else (no further statement)", func=f, sig="delete(%s): other statements %s" % (label, other))
            ctx.ob("R2", sorted(per, key=str) == sorted(ids, key=str), "the DELETEs are bound to the id of each element (a Feature is replaced by its id)", func=f,
                   sig="delete(%s): ids deleted %s" % (label, sorted(per, key=str)))
            for i_, sts in per.items():
                tabs = sorted(st.table.lower() for st in sts)
                ctx.ob("R2", tabs == ["features", "relations"], "delete issues one DELETE on features and one on relations per element", func=f,
                       sig="delete(%s): %s -> %s" % (label, i_, tabs))
                for st in sts:
                    w = st.where
                    if st.table.lower() == "features":
                        ok = w is not None and w[0] == "cmp" and w[1] in ("=", "==") and {w[2][0], w[3][0]} == {"col", "param"} and (w[2] if w[2][0] == "col" else w[3])[2].lower() == "id"
                        ctx.ob("R2", ok, "the feature row is removed by exact id", func=f, sig="DELETE FROM features WHERE %s" % S.show(w))
                    elif st.table.lower() == "relations":
                        cols = set()
                        ok = False
                        if w is not None and w[0] == "or" and len(w[1]) == 2 and all(x[0] == "cmp" and x[1] in ("=", "==") for x in w[1]):
                            for x in w[1]:
                                col = x[2] if x[2][0] == "col" else x[3]
                                oth = x[3] if x[2][0] == "col" else x[2]
                                if col[0] == "col" and oth[0] == "param":
                                    cols.add(col[2].lower())
                            ok = cols == {"parent", "child"}
                        elif w is not None and w[0] == "in" and w[1][0] == "param" and isinstance(w[2], list):
                            cols = {x[2].lower() for x in w[2] if x[0] == "col"}
                            ok = cols == {"parent", "child"}
                        ctx.ob("R2", ok, "every relation naming the feature as parent or as child is removed", func=f, sig="DELETE FROM relations WHERE %s" % S.show(w))
            commits = [e for e in t.events if e[0] == "call-opaque" and e[2] == "commit"]
            ctx.ob("R2", bool(commits) and t.result[0] == "return", "the deletion is committed", func=f, sig="delete(%s): %d commit(s)" % (label, len(commits)), nontrivial=False)
    others = [e for e in eff.transitive(f.qual) if e[1] == "SQL" and e[2] == "DELETE" and e[0] != f.qual and not e[0].startswith(f.qual)]
    deep = [e for e in others if e[0] not in {g.qual for g in __import__("gffsa.util", fromlist=["closure"]).closure(ctx, f)}]
    ctx.ob("R2", not deep, "delete removes nothing else (no further DELETE in its call closure)", func=f,
           sig="no other DELETE reachable" if not deep else "DELETE on %s reachable via %s" % (deep[0][3], deep[0][0]))


def r3_r4(ctx, eff):
    from ..absint import Sym, Opaque
    f = require_func(ctx, "interface.FeatureDB.update")
    COUNTERS = Opaque("COUNTERS", "dict")
    DIALECT = {"fmt": "gff3"}
    DBFN = Sym("dbfn", "str", True)
    n_ctor = 0
    for fmt in ("gff3", "gtf"):
        DIALECT = {"fmt": fmt}
        for t in _traces(ctx, f, {"data": Sym("data", "str", True), "make_backup": False}, _self(DBFN, dialect=DIALECT, _autoincrements=COUNTERS)):
            cons = [e for e in t.events if e[0] == "construct" and e[1] in IMPORTERS]
            its = [e for e in t.events if e[0] == "construct" and e[1].startswith("iterators.")]
            calls = [e[2] for e in t.events if e[0] == "call-opaque" and isinstance(e[1], Opaque) and e[1].name in ("_GFFDBCreator", "_GTFDBCreator")]
            peek_dec = [d for d in t.decisions if "_peek" in repr(d[0])]
            empty = any(d[1] is False for d in peek_dec) if peek_dec else None
            if empty:
                writes = [e for e in t.events if _is_write(e)]
                ctx.ob("R4", not writes and t.result[0] == "return", "an update whose source yields nothing returns the database unchanged, before anything is written", func=f,
                       sig="empty update (fmt=%s): %d write event(s)" % (fmt, len(writes)))
                continue
            ctx.ob("R4", bool(peek_dec), "an update whose source yields nothing returns the database unchanged (explicit emptiness test before the importer runs)", func=f,
                   sig="empty update returns self early" if peek_dec else "no early return for an empty update", nontrivial=False)
            n_ctor += len(cons)
            for e in cons:
                kw = e[3]
                ctx.ob("R3", kw.get("_autoincrements") is COUNTERS, "update hands the live counter object to the importer", func=f,
                       sig="importer(_autoincrements=%s)" % ("the database's own counters" if kw.get("_autoincrements") is COUNTERS else repr(kw.get("_autoincrements"))))
                okd = kw.get("dbfn") is DBFN or getattr(kw.get("dbfn"), "name", None) == "dbfn"
                ctx.ob("R4", okd, "update imports into the open database (dbfn)", func=f, sig="importer(dbfn=%r)" % (kw.get("dbfn"),), nontrivial=False)
                ctx.ob("R4", kw.get("dialect") == DIALECT, "update imports with the database's own dialect", func=f, sig="importer(dialect=%r)" % (kw.get("dialect"),), nontrivial=False)
                okdata = isinstance(kw.get("data"), Opaque) and ("Iterator" in kw.get("data").name or "DataIterator" in kw.get("data").name)
                ctx.ob("R4", okdata, "the importer reads the iterator built from `data`", func=f, sig="importer(data=%r)" % (kw.get("data"),), nontrivial=False)
            order = [c for c in calls if c in ("_populate_from_lines", "_update_relations", "_finalize")]
            ctx.ob("R4", order == ["_populate_from_lines", "_update_relations", "_finalize"],
                   "update = populate, then relations, then finalize (which persists counters, directives, indexes)", func=f,
                   sig="update driver order populate -> relations -> finalize" if order == ["_populate_from_lines", "_update_relations", "_finalize"] else
                   "update driver order %s" % order)
    ctx.floor("R3", n_ctor, 2, "importer constructions in update")
    # the importer keeps the given counter object itself
    init = require_func(ctx, "create._DBCreator.__init__")
    GIVEN = Opaque("GIVEN", "dict")
    for label, extra in (("counters given", {"_autoincrements": GIVEN}), ("no counters given", {})):
        a = {"data": Sym("data", "any", True), "dbfn": Sym("dbfn", "str", True)}
        a.update(extra)
        so = Opaque("self", "obj")
        for t in _traces(ctx, init, a, so, summaries={"iterators.DataIterator": lambda i, pos, kw, node: Opaque("ITER", "obj")}):
            sets_ = [e[3] for e in t.events if e[0] == "setattr" and e[2] == "_autoincrements" and getattr(e[1], "name", None) == "self"]
            final = sets_[-1] if sets_ else None
            if extra:
                same = isinstance(final, Opaque) and final.name == "GIVEN"
                ctx.ob("R3", same, "the importer uses the given counter object itself (no copy)", func=init,
                       sig="%s: self._autoincrements is %s" % (label, "the given object" if same else repr(final)))
            else:
                import collections as _c
                ok = final is not None and not (isinstance(final, Opaque) and final.name == "GIVEN") and (isinstance(final, _c.defaultdict) or "defaultdict" in repr(final))
                ctx.ob("R3", ok, "...or fresh counters when none is given", func=init, sig="%s: self._autoincrements := %r" % (label, final), nontrivial=False)
    fin = require_func(ctx, "create._DBCreator._finalize")
    from ..util import closure
    from ..flow import Flow, show
    pool = closure(ctx, fin)
    fl = Flow(ctx, pool, rows=False)
    sites = [s for s in execute_sites(ctx, pool) if s.stmts and s.stmts[0].verb == "INSERT" and s.stmts[0].table.lower() == "autoincrements"]
    ctx.floor("R3", len(sites), 1, "counter write-back statements")
    for s in sites:
        pt = fl.terms(s.params, s.func) if s.params is not None else set()
        src = {("call", "items", ("attr", ("self",), "_autoincrements"), ())}
        okp = bool(pt) and (pt == src or all(t[0] == "op" and t[1] == "listcomp" for t in pt) or all(show(t).startswith("self._autoincrements.items") for t in pt))
        ok = s.stmts[0].or_clause == "replace" and s.method == "executemany" and okp
        ctx.ob("R3", ok, "every counter is written back with INSERT OR REPLACE", node=s.call, func=s.func,
               sig="counter write-back: INSERT%s, %s" % (" OR " + s.stmts[0].or_clause.upper() if s.stmts[0].or_clause else "", ", ".join(sorted(show(t) for t in pt))))
    dbi = require_func(ctx, "interface.FeatureDB.__init__")
    pool = closure(ctx, dbi)
    sel = [s for s in execute_sites(ctx, pool) if s.stmts and s.stmts[0].verb == "SELECT" and s.stmts[0].tables() == ["autoincrements"]]
    ctx.floor("R3", len(sel), 1, "counter read-back statements")
    cols = [e[2].lower() for e, _ in sel[0].stmts[0].cols if e[0] == "col"]
    fl2 = Flow(ctx, pool)
    asg = [(g, n) for g in pool for n in ast.walk(g.node) if isinstance(n, ast.Assign) and any(isinstance(t, ast.Attribute) and t.attr == "_autoincrements" for t in n.targets)]
    ok = cols == ["base", "n"] and bool(asg)
    shown = None
    for g, n in asg:
        ts = fl2.terms(n.value, g)
        shown = ", ".join(sorted(show(t) for t in ts))
        ok = ok and any("defaultdict" in show(t) for t in ts)
    ctx.ob("R3", ok, "opening a database reloads the counters (base -> n)", func=dbi, sig="counters reloaded from %s as %s" % (cols, shown))


def r6(ctx, sch):
    r_history(ctx)


def r_history(ctx):
    """A history create -> update -> empty update -> add_relation -> delete, evaluated on the model database step by step and
    compared after every step with a reference model of features and relations."""
    from . import scen
    fu = require_func(ctx, "interface.FeatureDB.update")
    fd = require_func(ctx, "interface.FeatureDB.delete")
    fa = require_func(ctx, "interface.FeatureDB.add_relation")
    lines = scen.gff_lines()
    im, _t = scen.run_create(ctx, "_GFFDBCreator", lines, directives=["gff-version 3"])
    db = im.db
    counters = {r[0]: r[1] for r in db.rows("autoincrements")}
    it, me, conn = scen.feature_db(ctx, db, counters=counters)
    ids = [f.attrs["id"] for f in lines]
    model_f = list(ids)
    model_r = set(scen.expected_relations(lines, ids))

    def state():
        return [r[0] for r in db.rows("features", ["id"])], db.rows("relations")

    def step(qual, **args):
        t_ = scen.call_method(ctx, it, me, qual, **args)
        scen.returned(ctx, t_, qual.split(".", 1)[1], func=require_func(ctx, qual), rule="R5")
        return t_

    def compare(rule, step, func, what):
        gf, gr = state()
        okf = sorted(gf, key=str) == sorted(model_f, key=str)
        okr = set(gr) == model_r and len(gr) == len(set(gr))
        ctx.ob(rule, okf and okr, "after %s the stored features and relations are exactly those of the reference model (%s)" % (step, what), func=func,
               sig="%s: database equals the model" % step if okf and okr else
               "%s: features +%s -%s, relations +%s -%s" % (step, sorted(set(map(str, gf)) - set(map(str, model_f)))[:3], sorted(set(map(str, model_f)) - set(map(str, gf)))[:3],
                                                            sorted(set(gr) - model_r)[:3], sorted(model_r - set(gr))[:3]))
    compare("R5", "create", fu, "the starting point")
    # ---- update with three new lines (one without an ID: the per-type counter continues)
    more = [scen.feature("N1", "exon", 460, 480, {"ID": ["e9"], "Parent": ["t1"]}), scen.feature("N2", "match_part", 10, 20, {"ID": ["p2"], "Parent": ["e1"]}),
            scen.feature("N3", "region", 5, 6, {"Note": ["second unnamed region"]}, strand=".")]
    t = step("interface.FeatureDB.update", data=list(more), make_backup=False)
    new_ids = [f.attrs["id"] for f in more]
    model_f += new_ids
    model_r = set(scen.expected_relations(lines + more, ids + new_ids))
    compare("R5", "update with three new lines", fu, "update adds the features and their first- and second-level relations, nothing else")
    ctx.ob("R3", new_ids[2] == "region_2", "an automatically numbered key continues the numbering of the database (region_1 exists, the next is region_2)", func=fu,
           sig="second unnamed region stored as %s" % new_ids[2])
    stored_counter = dict((r[0], r[1]) for r in db.rows("autoincrements")).get("region")
    live = me.attrs["_autoincrements"].get("region") if hasattr(me.attrs["_autoincrements"], "get") else None
    ctx.ob("R3", stored_counter == 2 and live == 2, "after the update the counter is 2 both in the autoincrements table and in the open FeatureDB", func=fu,
           sig="counter region: table %s, FeatureDB %s" % (stored_counter, live))
    # ---- an update whose source yields nothing
    before = (state(), db.rows("autoincrements"), db.rows("meta"), db.rows("directives"))
    n_log = len(db.log)
    t = step("interface.FeatureDB.update", data=[], make_backup=False)
    after = (state(), db.rows("autoincrements"), db.rows("meta"), db.rows("directives"))
    writes = [x for x in db.log[n_log:] if x[0] in ("INSERT", "UPDATE", "DELETE", "INSERT-IGNORED")]
    ctx.ob("R4", before == after and not writes, "an update with no features changes nothing", func=fu, sig="empty update: %d row(s) written" % len(writes))
    # ---- add_relation by ids and by Feature objects
    t = step("interface.FeatureDB.add_relation", parent="g1", child="o1", level=1)
    model_r.add(("g1", "o1", 1))
    compare("R6", "add_relation('g1', 'o1', 1)", fa, "exactly the row (parent id, child id, level) is added")
    P = step("interface.FeatureDB.__getitem__", key="t2").result[1]
    C = step("interface.FeatureDB.__getitem__", key="p2").result[1]
    t = step("interface.FeatureDB.add_relation", parent=P, child=C, level=2)
    model_r.add(("t2", "p2", 2))
    compare("R6", "add_relation(Feature t2, Feature p2, 2)", fa, "Feature arguments contribute their ids")
    # ---- delete by id, by Feature, by list
    for what, arg, gone in (("delete('t1')", "t1", ["t1"]), ("delete(Feature p2)", C, ["p2"]), ("delete(['e3', 'o1'])", ["e3", "o1"], ["e3", "o1"])):
        t = step("interface.FeatureDB.delete", features=arg, make_backup=False)
        for g in gone:
            if g in model_f:
                model_f.remove(g)
            model_r = {r for r in model_r if r[0] != g and r[1] != g}
        compare("R2", what, fd, "delete removes the feature and every relation mentioning it, and nothing else")
    # ---- after the deletions an unnamed feature still gets a fresh key
    t = step("interface.FeatureDB.update", data=[scen.feature("N4", "region", 7, 8, {"Note": ["third"]}, strand=".")], make_backup=False)
    gf, _gr = state()
    ctx.ob("R3", "region_3" in gf and gf.count("region_3") == 1, "keys handed out earlier are never handed out again (the third unnamed region is region_3)", func=fu,
           sig="third unnamed region stored: %s" % [x for x in gf if str(x).startswith("region")])


def check(ctx):
    ctx.explanation = (
        "FeatureDB.update/delete/add_relation and the importer's constructor are evaluated abstractly (no execution) into event traces: the "
        "backup copy must be the first event that can change anything and be taken exactly when make_backup holds and the database is a file; "
        "delete's statements and their bound values per element; the live counter object, dbfn, dialect and the built iterator reach the "
        "importer; populate -> relations -> finalize; an empty source returns before any write; counters are written back with INSERT OR "
        "REPLACE and reloaded on open (parsed SQL + provenance). R5 re-uses C02's importer scenarios (relations after a first and a second import into the same model database). "
        "Does not decide equality with a reference model over histories.")
    eff = Effects(ctx)
    sch = schema(ctx)
    r1(ctx, eff)
    r2(ctx, eff)
    r3_r4(ctx, eff)
    from . import c02
    n0 = len(ctx.obs)
    c02.r_scenario(ctx)
    for o in ctx.obs[n0:]:
        o.rule = "C10.R5"
    r6(ctx, sch)
