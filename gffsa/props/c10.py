"""C10 -- update/delete histories: backup, delete, counters, driver order,
add_relation."""
import ast

from .. import sql as S
from ..callgraph import Effects
from ..cfg import cfg_of
from ..model import norm, parents
from ..util import require_func, execute_sites, calls_in, call_attr, is_name, const_str, kwarg, guards_of
from .c02 import schema

WRITE_VERBS = {"INSERT", "UPDATE", "DELETE", "CREATE TABLE", "CREATE INDEX", "DROP INDEX", "DROP TABLE", "ANALYZE"}


def write_nodes(ctx, func, eff):
    """Statements of `func` that write the database directly or through a
    resolved callee (creator construction included: it may unlink under force)."""
    out = []
    for c in calls_in(func.node):
        why = None
        if isinstance(c.func, ast.Attribute) and c.func.attr == "commit":
            why = "commit"
        for s in eff.sites.get(func.qual, []):
            if s.call is c:
                verbs = {st.verb for st in (s.stmts or [])}
                if verbs & WRITE_VERBS or s.stmts is None:
                    why = "SQL " + (",".join(sorted(verbs)) or "?")
        fs, d = ctx.proj.resolve_call(c, func)
        for g in fs:
            for e in eff.transitive(g.qual):
                kind = e[1]
                if kind == "SQL" and e[2] in WRITE_VERBS:
                    why = why or "calls %s (%s %s)" % (g.qual, e[2], e[3])
                elif kind in ("COMMIT", "SCRIPT"):
                    why = why or "calls %s (%s)" % (g.qual, kind.lower())
                elif kind == "FS" and e[2] in ("unlink", "move"):
                    # only the database file itself matters here (the force block); an iterator removing
                    # its own from_string temp file is not a database write
                    tgt = norm(e[4].args[0]) if e[4].args else ""
                    if tgt in ("dbfn", "self.dbfn"):
                        why = why or "calls %s (%s of the database file)" % (g.qual, e[3])
        if why:
            out.append((c, why))
    return out


def r1(ctx, eff):
    for qual in ("interface.FeatureDB.update", "interface.FeatureDB.delete"):
        f = require_func(ctx, qual)
        cfg = cfg_of(f)
        COPY = ("shutil.copy2", "shutil.copy", "shutil.copyfile")
        copies = [(c, f) for c in calls_in(f.node) if ctx.proj.resolve_call(c, f)[1] in COPY]
        via = None
        if not copies:
            # the backup may live in a helper method: a call whose callee takes the copy
            for c in calls_in(f.node):
                for g_ in ctx.proj.resolve_call(c, f)[0]:
                    inner = [x for x in calls_in(g_.node) if ctx.proj.resolve_call(x, g_)[1] in COPY]
                    if inner and g_.cls is f.cls:
                        copies = [(x, g_) for x in inner]
                        via = c
        ctx.ob("R1", len(copies) == 1, "%s takes one backup copy" % f.name, func=f, sig="%s: %d backup copies" % (f.name, len(copies)))
        if len(copies) != 1:
            continue
        cp, owner = copies[0]
        ok = len(cp.args) == 2 and norm(cp.args[0]) == "self.dbfn" and norm(cp.args[1]) == "self.dbfn + '.bak'"
        ctx.ob("R1", ok, "the backup copies the database file to <dbfn>.bak", node=cp, func=owner, sig="%s backup %s" % (f.name, norm(cp)))
        g = sorted(("" if pol else "not ") + norm(t) for t, pol in guards_of(cp, owner.node))
        if via is not None:
            # guards inside the helper are over its parameters: map them back through the call
            pmap = dict(zip([p for p in owner.params if p != "self"], [norm(a) for a in via.args]))
            pmap.update({k.arg: norm(k.value) for k in via.keywords if k.arg})
            g = sorted(pmap.get(x, x) if not x.startswith("not ") else "not " + pmap.get(x[4:], x[4:]) for x in g)
            g += sorted(("" if pol else "not ") + norm(t) for t, pol in guards_of(via, f.node))
        ok = g == sorted(["make_backup", "isinstance(self.dbfn, str)"])
        ctx.ob("R1", ok, "the backup depends on make_backup and on the database being a file, on nothing else", node=cp, func=owner,
               sig="%s backup guards %s" % (f.name, g))
        # outermost If that guards the copy (or the helper call) must dominate every write
        site = via if via is not None else cp
        outer = None
        for p in parents(site):
            if p is f.node:
                break
            if isinstance(p, ast.If):
                outer = p
        anchor = cfg.node_for(outer if outer is not None else site)
        ws = write_nodes(ctx, f, eff)
        ctx.floor("R1", len(ws), 2, "writing statements in %s" % f.name)
        for c, why in ws:
            n = cfg.node_for(c)
            ok = cfg.dominates(anchor.id, n.id) and n.id != anchor.id and n.id not in _before(cfg, anchor.id)
            ctx.ob("R1", ok, "the backup is taken before `%s` can write (%s)" % (norm(c)[:50], why), node=c, func=f,
                   sig="%s: backup precedes %s" % (f.name, _callee(c)) if ok else "%s: %s is reachable without/before the backup" % (f.name, _callee(c)))


def _callee(c):
    return norm(c.func)


def _before(cfg, nid):
    """nodes from which nid is reachable but that are not reachable from nid
    (strictly before on every path they share)."""
    after = cfg.reachable(nid)
    out = set()
    for m in cfg.reachable_nodes():
        if m != nid and nid in cfg.reachable(m) and m not in after:
            out.add(m)
    return out


def r2(ctx, eff):
    f = require_func(ctx, "interface.FeatureDB.delete")
    sites = [s for s in execute_sites(ctx, [f]) if s.stmts and s.stmts[0].verb == "DELETE"]
    by = {s.stmts[0].table.lower(): s for s in sites}
    ctx.ob("R2", set(by) == {"features", "relations"} and len(sites) == 2, "delete issues one DELETE on features and one on relations", func=f,
           sig="delete statements on %s" % sorted(s.stmts[0].table.lower() for s in sites))
    loop = None
    idvars = set()
    for tbl, s in by.items():
        st = s.stmts[0]
        w = st.where
        if tbl == "features":
            ok = w is not None and w[0] == "cmp" and w[1] == "=" and w[2][0] == "col" and w[2][2].lower() == "id" and w[3][0] == "param"
            ctx.ob("R2", ok, "the feature row is removed by exact id", node=s.call, func=f, sig="DELETE FROM features WHERE %s" % S.show(w))
        elif tbl == "relations":
            cols = set()
            ok = False
            if w is not None and w[0] == "or" and len(w[1]) == 2 and all(x[0] == "cmp" and x[1] == "=" for x in w[1]):
                for x in w[1]:
                    col = x[2] if x[2][0] == "col" else x[3]
                    oth = x[3] if x[2][0] == "col" else x[2]
                    if col[0] == "col" and oth[0] == "param":
                        cols.add(col[2].lower())
                ok = cols == {"parent", "child"}
            elif w is not None and w[0] == "in" and w[1][0] == "param" and isinstance(w[2], list):
                cols = {x[2].lower() for x in w[2] if x[0] == "col"}
                ok = cols == {"parent", "child"}
            ctx.ob("R2", ok, "every relation naming the feature as parent or as child is removed", node=s.call, func=f,
                   sig="DELETE FROM relations WHERE %s" % S.show(w))
        p = s.params
        names = [norm(e) for e in p.elts] if isinstance(p, ast.Tuple) else [norm(p)] if p is not None else []
        n_ph = len(S.placeholders(st))
        ok = len(names) == n_ph and len(set(names)) == 1
        idvars |= set(names)
        ctx.ob("R2", ok, "the DELETE on %s is bound to the one id being deleted" % tbl, node=s.call, func=f,
               sig="DELETE %s bound to %s" % (tbl, names))
        for pp in parents(s.call):
            if isinstance(pp, ast.For):
                loop = pp
                break
        ctx.ob("R2", loop is not None and is_name(loop.iter, "features"), "the DELETE on %s runs for every element" % tbl, node=s.call, func=f,
               sig="DELETE %s inside the loop over features" % tbl if loop is not None else "DELETE %s outside the loop" % tbl, nontrivial=False)
    ctx.ob("R2", len(idvars) == 1, "both statements use the same id", func=f, sig="delete id variables %s" % sorted(idvars), nontrivial=False)
    # no other DELETE reachable from delete()
    others = [e for e in eff.transitive(f.qual) if e[1] == "SQL" and e[2] == "DELETE" and e[0] != f.qual]
    ctx.ob("R2", not others, "delete removes nothing else (no further DELETE in its call closure)", func=f,
           sig="no other DELETE reachable" if not others else "DELETE on %s reachable via %s" % (others[0][3], others[0][0]))


def r3_r4(ctx, eff):
    f = require_func(ctx, "interface.FeatureDB.update")
    cfg = cfg_of(f)
    st = [n for n in ast.walk(f.node) if isinstance(n, ast.Assign) and norm(n.targets[0]) == "kwargs['_autoincrements']"]
    ok = bool(st) and norm(st[0].value) == "self._autoincrements"
    ctx.ob("R3", ok, "update hands the live counter object to the importer", func=f,
           sig="_autoincrements := %s" % (norm(st[0].value) if st else None))
    ctors = [c for c in calls_in(f.node) if ctx.proj.resolve_call(c, f)[1] in ("create._GFFDBCreator", "create._GTFDBCreator")]
    ctx.floor("R3", len(ctors), 2, "importer constructions in update")
    for c in ctors:
        ok = any(k.arg is None and is_name(k.value, "kwargs") for k in c.keywords)
        ok2 = bool(st) and cfg.dominates(cfg.node_for(st[0]).id, cfg.node_for(c).id)
        ctx.ob("R3", ok and ok2, "the importer is constructed with **kwargs after the counters were put in", node=c, func=f,
               sig="%s(**kwargs) after counters" % norm(c.func) if ok and ok2 else "%s constructed without the live counters" % norm(c.func))
        for nm, want in (("dbfn", "self.dbfn"), ("dialect", "self.dialect"), ("data", "data")):
            v = kwarg(c, nm)
            ctx.ob("R4", v is not None and norm(v) == want, "update imports into the open database with its own dialect (%s)" % nm, node=c, func=f,
                   sig="%s %s=%s" % (norm(c.func), nm, norm(v) if v is not None else None), nontrivial=False)
    init = require_func(ctx, "create._DBCreator.__init__")
    asg = [n for n in ast.walk(init.node) if isinstance(n, ast.Assign) and norm(n.targets[0]) == "self._autoincrements"]
    vals = sorted(norm(n.value) for n in asg)
    ok = "kwargs['_autoincrements']" in vals and all(v in ("kwargs['_autoincrements']", "collections.defaultdict(int)") for v in vals)
    ctx.ob("R3", ok, "the importer uses the given counter object itself (no copy), or fresh counters when none is given", func=init,
           sig="importer counters := %s" % vals)
    fin = require_func(ctx, "create._DBCreator._finalize")
    sites = [s for s in execute_sites(ctx, [fin]) if s.stmts and s.stmts[0].verb == "INSERT" and s.stmts[0].table.lower() == "autoincrements"]
    ctx.floor("R3", len(sites), 1, "counter write-back statements")
    for s in sites:
        ok = s.stmts[0].or_clause == "replace" and s.method == "executemany" and s.params is not None and "self._autoincrements.items()" in norm(s.params)
        ctx.ob("R3", ok, "every counter is written back with INSERT OR REPLACE", node=s.call, func=fin,
               sig="counter write-back: INSERT%s, %s" % (" OR " + s.stmts[0].or_clause.upper() if s.stmts[0].or_clause else "", norm(s.params) if s.params is not None else None))
    dbi = require_func(ctx, "interface.FeatureDB.__init__")
    sel = [s for s in execute_sites(ctx, [dbi]) if s.stmts and s.stmts[0].verb == "SELECT" and s.stmts[0].tables() == ["autoincrements"]]
    ctx.floor("R3", len(sel), 1, "counter read-back statements")
    cols = [e[2].lower() for e, _ in sel[0].stmts[0].cols if e[0] == "col"]
    asg = [n for n in ast.walk(dbi.node) if isinstance(n, ast.Assign) and norm(n.targets[0]) == "self._autoincrements"]
    ok = cols == ["base", "n"] and bool(asg) and norm(asg[0].value) in ("collections.defaultdict(int, c)", "collections.defaultdict(int, dict(c))")
    ctx.ob("R3", ok, "opening a database reloads the counters (base -> n)", func=dbi,
           sig="counters reloaded from %s as %s" % (cols, norm(asg[0].value) if asg else None))
    # ---- R4 driver order
    pop = [c for c in calls_in(f.node) if call_attr(c) == "_populate_from_lines"]
    upd = [c for c in calls_in(f.node) if call_attr(c) == "_update_relations"]
    fin_c = [c for c in calls_in(f.node) if call_attr(c) == "_finalize"]
    ctx.require(pop and upd, "update no longer calls populate/update_relations")
    ok = bool(fin_c) and cfg.postdominates(cfg.node_for(fin_c[0]).id, cfg.node_for(pop[0]).id) and \
        cfg.dominates(cfg.node_for(upd[0]).id, cfg.node_for(fin_c[0]).id) and cfg.dominates(cfg.node_for(pop[0]).id, cfg.node_for(upd[0]).id)
    ctx.ob("R4", ok, "update = populate, then relations, then finalize (which persists counters, directives, indexes)", func=f,
           sig="update driver order populate -> relations -> finalize" if ok else "update driver order broken or _finalize skipped")
    # early return path: nothing but the backup and the construction of the data source
    early = [n for n in ast.walk(f.node) if isinstance(n, ast.Return) and n is not f.node.body[-1]]
    empties = [r for r in early if any("_peek" in norm(t) for t, pol in guards_of(r, f.node)) and norm(r.value) == "self"]
    ctx.ob("R4", bool(empties), "an update whose source yields nothing returns the database unchanged (explicit emptiness test before the importer runs)", func=f,
           sig="empty update returns self early" if empties else "no early return for an empty update")
    ws = write_nodes(ctx, f, eff)
    for r in early:
        rn = cfg.node_for(r)
        bad = [c for c, why in ws if rn.id in cfg.reachable(cfg.node_for(c).id)]
        g = [norm(t) for t, pol in guards_of(r, f.node)]
        ctx.ob("R4", not bad, "an update without features returns before anything is written", node=r, func=f,
               sig="empty update (%s): no write before the return" % g if not bad else "empty update: %s executed before the early return" % _callee(bad[0]))


def r6(ctx, sch):
    f = require_func(ctx, "interface.FeatureDB.add_relation")
    cfg = cfg_of(f)
    sites = [s for s in execute_sites(ctx, [f]) if s.stmts and s.stmts[0].verb == "INSERT" and s.stmts[0].table.lower() == "relations"]
    ctx.floor("R6", len(sites), 1, "relation inserts in add_relation")
    s = sites[0]
    cols = [c.lower() for c in (s.stmts[0].columns or sch["relations"]["columns"])]
    p = s.params
    vals = [norm(e) for e in p.elts] if isinstance(p, ast.Tuple) else []
    want = {"parent": "parent.id", "child": "child.id", "level": "level"}
    ok = len(vals) == len(cols) == 3 and all(want.get(c) == v for c, v in zip(cols, vals))
    ctx.ob("R6", ok, "add_relation inserts exactly (parent id, child id, level)", node=s.call, func=f,
           sig="add_relation row %s -> %s" % (vals, cols))
    for nm in ("parent", "child"):
        norms = [n for n in ast.walk(f.node) if isinstance(n, ast.If) and norm(n.test) == "isinstance(%s, str)" % nm
                 and any(isinstance(b, ast.Assign) and is_name(b.targets[0], nm) and norm(b.value) == "self[%s]" % nm for b in n.body)]
        ok = bool(norms) and cfg.dominates(cfg.node_for(norms[0]).id, cfg.node_for(s.call).id)
        ctx.ob("R6", ok, "an id given for `%s` is resolved to the stored feature before the row is written" % nm, func=f,
               sig="%s normalised before the insert" % nm if ok else "%s not normalised before the insert" % nm, nontrivial=False)


def check(ctx):
    ctx.explanation = (
        "CFG dominance and effect closure on FeatureDB.update/delete/add_relation and the importer's finalisation: the backup copy's "
        "guard dominates every statement with a database-write effect (direct SQL, commit, or a resolved callee whose transitive effects "
        "write); the two DELETE statements are parsed and bound to one id; counters flow live into the importer and are written back "
        "with INSERT OR REPLACE and reloaded on open; driver order by dominance/post-dominance; the early return of an empty update has "
        "no write before it. R5 re-uses C02.R2's conjunctive-query comparison of the level-2 closure. Does not decide equality with a "
        "reference model over histories.")
    eff = Effects(ctx)
    sch = schema(ctx)
    r1(ctx, eff)
    r2(ctx, eff)
    r3_r4(ctx, eff)
    from . import c02
    n0 = len(ctx.obs)
    c02.r2(ctx, sch)
    for o in ctx.obs[n0:]:
        o.rule = "C10.R5"
    r6(ctx, sch)
