"""C07 -- parse/print round trip: shape clauses only (what inference records
is replayed; separators longest-first; splitter/joiner literals agree; the
printing layers are the parsing layers in reverse order)."""
import ast

from ..cfg import cfg_of
from ..model import norm, parents, enclosing
from ..util import require_func, calls_in, call_attr, is_name, const_str, kwarg, guards_of

NOT_REPLAYED = {"leading semicolon": "recorded for GFF2 oddities but deliberately not replayed (outside C07's grammar)"}


def dialect_keys(fnode, name="dialect"):
    reads, writes = {}, {}
    for n in ast.walk(fnode):
        if isinstance(n, ast.Subscript) and is_name(n.value, name) and const_str(n.slice) is not None:
            (writes if isinstance(n.ctx, ast.Store) else reads).setdefault(const_str(n.slice), n)
    return reads, writes


def inference_region(f):
    """Statements of _split_keyvals after the provided-dialect block."""
    body = f.node.body
    idx = None
    for i, st in enumerate(body):
        if isinstance(st, ast.If) and "infer_dialect" in norm(st.test) and any(isinstance(x, ast.Return) for x in ast.walk(st)):
            idx = i
    return body[idx + 1:] if idx is not None else body, (body[idx] if idx is not None else None)


def r1(ctx):
    dk = set(ctx.folder.const("constants", "dialect"))
    sk = require_func(ctx, "parser._split_keyvals")
    rc = require_func(ctx, "parser._reconstruct")
    inf, prov = inference_region(sk)
    written = {}
    for st in inf:
        _r, w = dialect_keys(st)
        written.update(w)
    ctx.floor("R1", len(written), 5, "dialect keys recorded by inference")
    r_rc, w_rc = dialect_keys(rc.node)
    r_sk, _ = dialect_keys(sk.node)
    for nested in [g for lst in sk.nested.values() for g in lst]:
        rr, _w = dialect_keys(nested.node)
        r_sk.update(rr)
    for k, n in sorted(written.items()):
        ctx.ob("R1", k in dk, "inference records only keys of the dialect dictionary", node=n, func=sk, sig="inference writes %r%s" % (k, "" if k in dk else " (not a dialect key)"), nontrivial=False)
    for k, n in sorted(list(r_rc.items()) + list(r_sk.items()), key=lambda kv: kv[0]):
        ctx.ob("R1", k in dk, "only keys of the dialect dictionary are consulted", node=n, func=ctx.proj.enclosing_func(n), sig="dialect key %r %s" % (k, "known" if k in dk else "unknown"), nontrivial=False)
    for k, n in sorted(written.items()):
        if k in NOT_REPLAYED:
            ctx.note("reviewed exception: dialect key %r -- %s" % (k, NOT_REPLAYED[k]))
            continue
        ctx.ob("R1", k in r_rc, "every formatting choice recorded by inference (%r) is replayed by reconstruction" % k, node=n, func=sk,
               sig="%r recorded and replayed" % k if k in r_rc else "%r recorded by inference but never read by _reconstruct" % k)
    for k in sorted(set(dk) - set(NOT_REPLAYED)):
        ctx.ob("R1", k in r_rc, "reconstruction consults the dialect's %r" % k, func=rc, sig="_reconstruct reads %r" % k if k in r_rc else "_reconstruct ignores %r" % k)
    # the provided-dialect path consults the same choices when splitting
    if prov is not None:
        rp, _ = dialect_keys(prov)
        for k in ("trailing semicolon", "field separator", "keyval separator", "quoted GFF2 values", "fmt"):
            ctx.ob("R1", k in rp, "splitting with a supplied dialect consults its %r" % k, node=prov, func=sk,
                   sig="provided-dialect split reads %r" % k if k in rp else "provided-dialect split ignores %r" % k)
    ctx.ob("R1", not w_rc, "reconstruction does not modify the dialect", func=rc, sig="_reconstruct writes %s" % sorted(w_rc))
    no_dialect_mutation(ctx, rc, "R1")


MUTATORS = {"append", "extend", "update", "pop", "popitem", "sort", "clear", "setdefault", "remove", "insert", "reverse"}


def no_dialect_mutation(ctx, rc, rule):
    """Printing must not change the dialect: the dict is shared by every
    feature of a database, so a mutation changes how later features print."""
    bad = []
    # names that alias (parts of) the dialect: x = dialect[...] / x = dialect
    tainted = {"dialect"}
    changed = True
    while changed:
        changed = False
        for n in ast.walk(rc.node):
            if isinstance(n, ast.Assign) and len(n.targets) == 1 and isinstance(n.targets[0], ast.Name) and n.targets[0].id not in tainted:
                b = n.value
                while isinstance(b, (ast.Attribute, ast.Subscript)):
                    b = b.value
                if isinstance(b, ast.Name) and b.id in tainted and isinstance(n.value, (ast.Name, ast.Subscript, ast.Attribute)):
                    tainted.add(n.targets[0].id)
                    changed = True
    for n in ast.walk(rc.node):
        tg = n.targets if isinstance(n, ast.Assign) else [n.target] if isinstance(n, (ast.AugAssign, ast.AnnAssign)) else n.targets if isinstance(n, ast.Delete) else []
        for t in tg:
            b = t
            while isinstance(b, (ast.Attribute, ast.Subscript)):
                b = b.value
            if isinstance(b, ast.Name) and b.id in tainted and not isinstance(t, ast.Name):
                bad.append(n)
        if isinstance(n, ast.Call) and isinstance(n.func, ast.Attribute) and n.func.attr in MUTATORS:
            b = n.func.value
            while isinstance(b, (ast.Attribute, ast.Subscript)):
                b = b.value
            if isinstance(b, ast.Name) and b.id in tainted:
                bad.append(n)
    ctx.ob(rule, not bad, "printing never mutates the dialect it is given (the database's dialect object is shared by all its features)", func=rc,
           node=(bad[0] if bad else rc.node), sig="_reconstruct leaves the dialect untouched" if not bad else "_reconstruct mutates the dialect: %s" % norm(bad[0])[:70])


def r_printer(ctx, rule="R6"):
    """Printer template: the string _reconstruct builds for a symbolic mapping equals the template the dialect denotes,
    for every dialect configuration."""
    from .. import printer
    from ..absint import Unsupported
    rc = require_func(ctx, "parser._reconstruct")
    n = bad = 0
    reported = set()
    mappings = [None] + (printer.MAPPINGS_THOROUGH if ctx.tier == "thorough" else [])
    for cfg, mp in [(c_, m_) for m_ in mappings for c_ in printer.configs(ctx.tier)]:
        label = "fmt=%s repeated=%s quoted=%s trailing=%s fieldsep=%r kvsep=%r ignore_escapes=%s keep_order=%s mapping=%s" % (
            cfg["fmt"], cfg["repeated keys"], cfg["quoted GFF2 values"], cfg["trailing semicolon"], cfg["field separator"], cfg["keyval separator"], cfg["_ignore"],
            cfg.get("_keep_order"), mp or "default")
        traces = printer.run(ctx, rc, cfg, mp)
        exp = printer.spec_tokens(cfg, mp)
        for t in traces:
            n += 1
            problem = None
            if t.result[0] != "return":
                problem = "raises %s" % t.result[1]
            else:
                try:
                    got = printer.tokens_of(t.result[1])
                    if got != exp:
                        problem = "prints %s, the dialect denotes %s" % (printer.show(got), printer.show(exp))
                except ValueError as e:
                    problem = str(e)
            if problem:
                bad += 1
                # key the finding by the kind of difference, not by the configuration
                kind = _diff_kind(problem)
                if kind not in reported:
                    reported.add(kind)
                    ctx.ob(rule, False, "for every dialect configuration the printed attribute column of {k1:[v1,v2], k2:[v3], k3:[]} is the template the "
                           "dialect denotes (separators, quoting, repeated keys, per-character encoding of every value, trailing semicolon)", func=rc,
                           sig="printer template: %s" % kind, detail="%s :: %s" % (label, problem))
    ctx.extra["printer_configurations"] = n
    ctx.ob(rule, bad == 0, "printer template evaluated on %d dialect configurations" % n, func=rc,
           sig="printer templates agree with the dialect in all configurations" if bad == 0 else "printer template differs in %d configurations" % bad, nontrivial=True)


def _diff_kind(problem):
    if "prints" not in problem:
        return problem[:80]
    got, exp = problem.split(", the dialect denotes ")
    got = got.replace("prints ", "")
    import re as _re
    g_raw, e_raw = set(_re.findall(r"‹(\w+)›", got)), set(_re.findall(r"‹(\w+)›", exp))
    g_enc, e_enc = set(_re.findall(r"‹%(\w+)›", got)), set(_re.findall(r"‹%(\w+)›", exp))
    if g_enc != e_enc or g_raw != e_raw:
        return "values encoded %s / raw %s, expected encoded %s / raw %s" % (sorted(g_enc), sorted(g_raw), sorted(e_enc), sorted(e_raw))
    strip = lambda x: _re.sub(r"‹%?\w+›", "_", x)
    return "separators/quoting differ: %s vs %s" % (strip(got), strip(exp))


def decoder_names(ctx, sk):
    """Names of the nested helpers of _split_keyvals that percent-decode."""
    out = set()
    for g in [g for lst in sk.nested.values() for g in lst]:
        for c in calls_in(g.node):
            d = ctx.proj.dotted(c.func, g.module, g) or ""
            if d.startswith("urllib") and d.split(".")[-1] in ("unquote", "unquote_plus", "unquote_to_bytes"):
                out.add(g.name)
    return out


def r_decode_layer(ctx, rule="R4"):
    """Decoding is the last parsing layer: applied to each value separately, the decoded text is never split again, and it is
    decided only after inference has fixed the format."""
    sk = require_func(ctx, "parser._split_keyvals")
    pool = [sk] + [g for lst in sk.nested.values() for g in lst]
    decs = []
    for f in pool:
        for c in calls_in(f.node):
            d = ctx.proj.dotted(c.func, f.module, f) or ""
            if d.startswith("urllib") and d.split(".")[-1] in ("unquote", "unquote_plus", "unquote_to_bytes"):
                decs.append((f, c))
    ctx.ob(rule, len(decs) >= 1, "the parser percent-decodes values", func=sk, sig="%d decode call(s)" % len(decs), nontrivial=False)
    for f, c in decs:
        comp = enclosing(c, (ast.ListComp, ast.GeneratorExp))
        elementwise = comp is not None and len(c.args) >= 1 and isinstance(c.args[0], ast.Name) and \
            any(isinstance(g.target, ast.Name) and g.target.id == c.args[0].id for g in comp.generators)
        if not elementwise:
            lp = enclosing(c, ast.For)
            elementwise = lp is not None and len(c.args) >= 1 and isinstance(c.args[0], ast.Name) and isinstance(lp.target, ast.Name) and lp.target.id == c.args[0].id
        ctx.ob(rule, elementwise, "each value is decoded on its own (decoding a joined string would let an escaped separator split it)", node=c, func=f,
               sig="decode applied per value" if elementwise else "decode applied to %s" % (norm(c.args[0]) if c.args else "?"))
        if f is not sk:
            splits = [x for x in calls_in(f.node) if call_attr(x) in ("split", "rsplit", "partition", "splitlines")]
            ctx.ob(rule, not splits, "decoded text is never split again", node=(splits[0] if splits else f.node), func=f,
                   sig="no split in the decoder" if not splits else "decoder splits: %s" % norm(splits[0]))
    # decided after the format is final: no store to dialect['fmt'] reachable after a decode (or decoder call) in the main function
    cfg = cfg_of(sk)
    dec_nodes = []
    names = {f.name for f, _c in decs if f is not sk}
    for c in calls_in(sk.node):
        if (isinstance(c.func, ast.Name) and c.func.id in names) or any(c is x for f, x in decs if f is sk):
            dec_nodes.append(c)
    fmt_stores = [n for n in ast.walk(sk.node) if isinstance(n, ast.Assign) and isinstance(n.targets[0], ast.Subscript)
                  and norm(n.targets[0].value) == "dialect" and const_str(n.targets[0].slice) == "fmt" and enclosing(n, ast.FunctionDef) is sk.node]
    for c in dec_nodes:
        cn = cfg.node_for(c)
        late = [n for n in fmt_stores if cfg.node_for(n).id in cfg.reachable(cn.id)]
        ctx.ob(rule, not late, "whether to decode is decided after inference has fixed the format (no later assignment of dialect['fmt'])", node=c, func=sk,
               sig="decode after the format is final" if not late else "format still assigned (line %d) after values were decoded" % late[0].lineno)
    ctx.ob(rule, len(dec_nodes) >= 2, "both parsing paths decode", func=sk, sig="%d decoding site(s) in _split_keyvals" % len(dec_nodes), nontrivial=False)


def r2_r3(ctx):
    sk = require_func(ctx, "parser._split_keyvals")
    rc = require_func(ctx, "parser._reconstruct")
    d = ctx.folder.const("constants", "dialect")
    loops = [n for n in ast.walk(sk.node) if isinstance(n, ast.For) and isinstance(n.iter, (ast.Tuple, ast.List)) and n.iter.elts
             and all(const_str(e) is not None for e in n.iter.elts) and any(";" in const_str(e) for e in n.iter.elts)]
    ctx.floor("R2", len(loops), 1, "separator candidate loops")
    seps = [const_str(e) for e in loops[0].iter.elts]
    bad = [(a, b) for i, a in enumerate(seps) for b in seps[i + 1:] if a in b]
    ctx.ob("R2", not bad, "field separators are tried longest-first: no earlier candidate is contained in a later one", node=loops[0], func=sk,
           sig="separator candidates %r" % (seps,) if not bad else "candidate %r shadows the later %r" % bad[0])
    ctx.ob("R2", set(seps) >= {" ; ", "; ", ";"}, "all three field separators of the grammar are candidates", node=loops[0], func=sk, sig="candidates %r" % (seps,), nontrivial=False)
    brk = [n for n in ast.walk(loops[0]) if isinstance(n, ast.Break)]
    g = [norm(t) for b in brk[:1] for t, pol in guards_of(b, loops[0]) if pol]
    st = [n for n in ast.walk(loops[0]) if isinstance(n, ast.Assign) and norm(n.targets[0]) == "dialect['field separator']"]
    ok = bool(brk) and g == ["len(parts) > 1"] and bool(st) and is_name(st[0].value, loops[0].target.id)
    ctx.ob("R2", ok, "the first candidate that actually splits the string is recorded, and the search stops", node=loops[0], func=sk,
           sig="first splitting candidate recorded under %s" % g)
    # ---- R3 literals
    inf, prov = inference_region(sk)
    mv = d["multival separator"]
    splits = [c for st_ in inf for c in ast.walk(st_) if isinstance(c, ast.Call) and call_attr(c) == "split" and c.args and norm(c.func.value) == "val"]
    ctx.floor("R3", len(splits), 1, "multi-value splits in inference")
    for c in splits:
        ctx.ob("R3", const_str(c.args[0]) == mv, "values are split on the dialect's multi-value separator", node=c, func=sk, sig="multi-value split literal %r vs dialect %r" % (const_str(c.args[0]), mv))
    if prov is not None:
        for c in [c for c in ast.walk(prov) if isinstance(c, ast.Call) and call_attr(c) == "split" and c.args and norm(c.func.value) == "val"]:
            ok = const_str(c.args[0]) == mv or norm(c.args[0]) == "dialect['multival separator']"
            ctx.ob("R3", ok, "with a supplied dialect values are split on the multi-value separator", node=c, func=sk, sig="provided-dialect multi-value split on %s" % norm(c.args[0]))
    if prov is not None:
        local = {}
        for n in ast.walk(prov):
            if isinstance(n, ast.Assign) and isinstance(n.targets[0], ast.Name) and isinstance(n.value, ast.Subscript) and norm(n.value.value) == "dialect":
                local[n.targets[0].id] = const_str(n.value.slice)
        fs = [c for c in ast.walk(prov) if isinstance(c, ast.Call) and call_attr(c) == "split" and norm(c.func.value) == "keyval_str"]
        ok = bool(fs) and all(c.args and (norm(c.args[0]) == "dialect['field separator']" or local.get(getattr(c.args[0], "id", None)) == "field separator") for c in fs)
        ctx.ob("R3", ok, "with a supplied dialect the column is split on the dialect's field separator", node=prov, func=sk,
               sig="provided-dialect field split on %s" % ([norm(c.args[0]) if c.args else "whitespace" for c in fs] or None))
        kvs = [c for c in ast.walk(prov) if isinstance(c, ast.Call) and call_attr(c) == "split" and norm(c.func.value) in ("p", "p.strip()")]
        ok = bool(kvs) and all(c.args and (norm(c.args[0]) == "dialect['keyval separator']" or local.get(getattr(c.args[0], "id", None)) == "keyval separator") for c in kvs)
        ctx.ob("R3", ok, "with a supplied dialect key and value are split on the dialect's key/value separator (not on arbitrary whitespace)", node=prov, func=sk,
               sig="provided-dialect key/value split on %s" % (sorted({norm(c.args[0]) if c.args else "whitespace" for c in kvs}) or None))
    q_strip = set()
    for n in ast.walk(sk.node):
        if isinstance(n, ast.Compare) and norm(n.left) in ("val[0]", "val[-1]") and const_str(n.comparators[0]) is not None:
            q_strip.add(const_str(n.comparators[0]))
    q_add = [n for n in ast.walk(rc.node) if isinstance(n, ast.BinOp) and isinstance(n.op, ast.Mod) and const_str(n.left) and "%s" in const_str(n.left)]
    qa = const_str(q_add[0].left) if q_add else None
    ok = q_strip == {'"'} and qa == '"%s"'
    ctx.ob("R3", ok, "the quote stripped when parsing is the quote added when printing", func=rc, sig="strip %r / add %r" % (sorted(q_strip), qa))
    kv = [c for st_ in inf for c in ast.walk(st_) if isinstance(c, ast.Call) and call_attr(c) == "split" and c.args and const_str(c.args[0]) in ("=", " ") and
          isinstance(c.func.value, (ast.Name, ast.Call))]
    lits = sorted({const_str(c.args[0]) for c in kv})
    ctx.ob("R3", lits == [" ", "="], "inference splits key from value on '=' (gff3) or ' ' (gtf/gff2)", func=sk, sig="key/value split literals %r" % lits)
    rec = {}
    for st_ in inf:
        for n in ast.walk(st_):
            if isinstance(n, ast.Assign) and norm(n.targets[0]) == "dialect['keyval separator']" and const_str(n.value) is not None:
                br = enclosing(n, ast.If)
                rec[const_str(n.value)] = n
    ok = set(rec) == {"=", " "} and d["keyval separator"] == "="
    ctx.ob("R3", ok, "the separator recorded is the one split on ('=' is also the default)", func=sk, sig="recorded key/value separators %r" % sorted(rec))
    for lit, n in rec.items():
        blk = n._parent.body if n in getattr(n._parent, "body", []) else getattr(n._parent, "orelse", [])
        sp = [c for s_ in blk for c in ast.walk(s_) if isinstance(c, ast.Call) and call_attr(c) == "split" and c.args and const_str(c.args[0]) in ("=", " ")]
        ok = bool(sp) and all(const_str(c.args[0]) == lit for c in sp)
        ctx.ob("R3", ok, "in the branch that records %r the split literal is %r" % (lit, lit), node=n, func=sk,
               sig="branch recording %r splits on %r" % (lit, sorted({const_str(c.args[0]) for c in sp})), nontrivial=False)


def _first(nodes):
    return sorted(nodes, key=lambda n: (n.lineno, n.col_offset))[0] if nodes else None


def r4(ctx):
    rc = require_func(ctx, "parser._reconstruct")
    cfg = cfg_of(rc)

    def djoin(key):
        return [c for c in calls_in(rc.node) if call_attr(c) == "join" and norm(c.func.value) == "dialect['%s']" % key]
    mvj = djoin("multival separator")
    kvj = djoin("keyval separator")
    fsj = djoin("field separator")
    quote = [n for n in ast.walk(rc.node) if isinstance(n, ast.If) and norm(n.test) == "dialect['quoted GFF2 values']"]
    trail = [n for n in ast.walk(rc.node) if isinstance(n, ast.If) and norm(n.test) == "dialect['trailing semicolon']"]
    enc = [n for n in ast.walk(rc.node) if isinstance(n, ast.Subscript) and is_name(n.value, "quoter")]
    steps = [("percent-encoding", _first(enc)), ("multi-value join", _first(mvj)), ("quoting", _first(quote)),
             ("key/value join", _first([c for c in kvj if mvj and c.lineno > _first(mvj).lineno] or kvj)),
             ("field join", _first(fsj)), ("trailing semicolon", _first(trail))]
    for name, n in steps:
        ctx.ob("R4", n is not None, "printing has a %s step" % name, func=rc, sig="print step %s %s" % (name, "present" if n is not None else "missing"), nontrivial=False)
    present = [(a, b) for a, b in steps if b is not None]
    for (na, a), (nb, b) in zip(present, present[1:]):
        an, bn = cfg.node_for(a), cfg.node_for(b)
        ok = bn.id in cfg.reachable(an.id) and not (an.id in cfg.reachable(bn.id) and a.lineno > b.lineno) and a.lineno < b.lineno
        ctx.ob("R4", ok, "printing applies %s before %s (the inverse of the parsing order)" % (na, nb), node=b, func=rc,
               sig="print order: %s < %s" % (na, nb) if ok else "print order broken: %s is not before %s" % (na, nb))
    sk = require_func(ctx, "parser._split_keyvals")
    inf, prov = inference_region(sk)
    scfg = cfg_of(sk)

    def find(pred):
        out = []
        for st in inf:
            for n in ast.walk(st):
                if pred(n):
                    out.append(n)
        return _first(out)
    psteps = [
        ("trailing-semicolon strip", find(lambda n: isinstance(n, ast.Assign) and is_name(n.targets[0], "keyval_str") and norm(n.value) == "keyval_str[:-1]")),
        ("field split", find(lambda n: isinstance(n, ast.Call) and call_attr(n) == "split" and norm(n.func.value) == "keyval_str")),
        ("key/value split", find(lambda n: isinstance(n, ast.Call) and call_attr(n) == "split" and n.args and const_str(n.args[0]) in ("=", " "))),
        ("quote strip", find(lambda n: isinstance(n, ast.Assign) and is_name(n.targets[0], "val") and norm(n.value) == "val[1:-1]")),
        ("multi-value split", find(lambda n: isinstance(n, ast.Call) and call_attr(n) == "split" and norm(n.func.value) == "val")),
        ("percent-decoding", find(lambda n: isinstance(n, ast.Call) and (
            (isinstance(n.func, ast.Name) and n.func.id in decoder_names(ctx, sk)) or
            (ctx.proj.dotted(n.func, sk.module, sk) or "").startswith("urllib")))),
    ]
    for name, n in psteps:
        ctx.ob("R4", n is not None, "parsing has a %s step" % name, func=sk, sig="parse step %s %s" % (name, "present" if n is not None else "missing"), nontrivial=False)
    present = [(a, b) for a, b in psteps if b is not None]
    for (na, a), (nb, b) in zip(present, present[1:]):
        ok = a.lineno < b.lineno and scfg.node_for(b).id in scfg.reachable(scfg.node_for(a).id)
        ctx.ob("R4", ok, "parsing applies %s before %s" % (na, nb), node=b, func=sk, sig="parse order: %s < %s" % (na, nb) if ok else "parse order broken: %s not before %s" % (na, nb))
    pn = [s[0] for s in psteps if s[1] is not None]
    rn = [s[0] for s in steps if s[1] is not None]
    inverse = {"trailing-semicolon strip": "trailing semicolon", "field split": "field join", "key/value split": "key/value join",
               "quote strip": "quoting", "multi-value split": "multi-value join", "percent-decoding": "percent-encoding"}
    ok = [inverse[p] for p in pn] == rn[::-1]
    ctx.ob("R4", ok, "the printing layers are exactly the parsing layers, inverted and reversed", func=rc,
           sig="layers mirror each other" if ok else "layers differ: parse %s / print %s" % (pn, rn))
    # valueless flags and empty values
    flag = [n for n in ast.walk(rc.node) if isinstance(n, ast.Assign) and is_name(n.targets[0], "part") and is_name(n.value, "key")]
    ctx.ob("R4", len(flag) >= 1, "a key without a value is printed as the bare key", func=rc, sig="%d bare-key print branch(es)" % len(flag), nontrivial=False)
    empty = [n for n in ast.walk(rc.node) if isinstance(n, ast.If) and norm(n.test) in ("not keyvals",) and any(isinstance(b, ast.Return) and const_str(b.value) == "" for b in n.body)]
    ctx.ob("R4", len(empty) == 1, "an empty attribute mapping prints as the empty column", func=rc, sig="empty mapping -> ''" if empty else "empty mapping not printed as ''", nontrivial=False)


def check(ctx):
    ctx.explanation = (
        "Shape clauses of the round trip: set comparison of the dialect keys written by inference, read by reconstruction and declared in "
        "constants.dialect; substring order of the separator candidates; equality of the literals used to split and to join; CFG order of "
        "the six parsing layers and of the six printing layers, which must mirror each other. Column handling is decided with C01.R5. Does "
        "not decide byte-for-byte identity for every line of the grammar: that is the inverse of a string transducer over unbounded values "
        "(symbolic execution of the parser would be a different family).")
    r1(ctx)
    r2_r3(ctx)
    r4(ctx)
    r_decode_layer(ctx)
    r_printer(ctx)
    from . import c01
    n0 = len(ctx.obs)
    c01.r5(ctx)
    for o in ctx.obs[n0:]:
        o.rule = "C07.R5"
