"""C07 -- parse/print round trip: shape clauses only (what inference records
is replayed; separators longest-first; splitter/joiner literals agree; the
printing layers are the parsing layers in reverse order)."""
import ast

from ..cfg import cfg_of
from ..model import norm, parents, enclosing
from ..util import require_func, calls_in, call_attr, is_name, const_str, kwarg, guards_of

NOT_REPLAYED = {"leading semicolon": "recorded for GFF2 oddities but deliberately not replayed (outside C07's grammar)"}


def dialect_keys(fnode, name="dialect"):
    reads, writes = {}, {}
    for n in ast.walk(fnode):
        if isinstance(n, ast.Subscript) and is_name(n.value, name) and const_str(n.slice) is not None:
            (writes if isinstance(n.ctx, ast.Store) else reads).setdefault(const_str(n.slice), n)
    return reads, writes


def inference_region(f):
    """Statements of _split_keyvals after the provided-dialect block."""
    body = f.node.body
    idx = None
    for i, st in enumerate(body):
        if isinstance(st, ast.If) and "infer_dialect" in norm(st.test) and any(isinstance(x, ast.Return) for x in ast.walk(st)):
            idx = i
    return body[idx + 1:] if idx is not None else body, (body[idx] if idx is not None else None)


def regex_patterns(ctx, modname):
    """{name: pattern} of module-level `name = re.compile("...")`."""
    out = {}
    for n in ctx.proj.module(modname).tree.body:
        if isinstance(n, ast.Assign) and isinstance(n.value, ast.Call) and norm(n.value.func) == "re.compile" and n.value.args \
                and const_str(n.value.args[0]) is not None and isinstance(n.targets[0], ast.Name):
            out[n.targets[0].id] = const_str(n.value.args[0])
    return out


def r1(ctx):
    """The dialect dictionary: what inference returns has exactly the declared keys (checked on the round-trip parses); that
    every recorded choice is replayed when printing, and consulted when splitting with a supplied dialect, is what the printer
    template and the round trip decide over all dialect configurations; printing never modifies the dialect."""
    from ..util import closure
    rc = require_func(ctx, "parser._reconstruct")
    for f in closure(ctx, rc):
        no_dialect_mutation(ctx, f, "R1")
    for k in NOT_REPLAYED:
        ctx.note("reviewed exception: dialect key %r -- %s" % (k, NOT_REPLAYED[k]))


MUTATORS = {"append", "extend", "update", "pop", "popitem", "sort", "clear", "setdefault", "remove", "insert", "reverse"}


def no_dialect_mutation(ctx, rc, rule):
    """Printing must not change the dialect: the dict is shared by every
    feature of a database, so a mutation changes how later features print."""
    bad = []
    # names that alias (parts of) the dialect: x = dialect[...] / x = dialect
    tainted = {"dialect"}
    changed = True
    while changed:
        changed = False
        for n in ast.walk(rc.node):
            if isinstance(n, ast.Assign) and len(n.targets) == 1 and isinstance(n.targets[0], ast.Name) and n.targets[0].id not in tainted:
                b = n.value
                while isinstance(b, (ast.Attribute, ast.Subscript)):
                    b = b.value
                if isinstance(b, ast.Name) and b.id in tainted and isinstance(n.value, (ast.Name, ast.Subscript, ast.Attribute)):
                    tainted.add(n.targets[0].id)
                    changed = True
    for n in ast.walk(rc.node):
        tg = n.targets if isinstance(n, ast.Assign) else [n.target] if isinstance(n, (ast.AugAssign, ast.AnnAssign)) else n.targets if isinstance(n, ast.Delete) else []
        for t in tg:
            b = t
            while isinstance(b, (ast.Attribute, ast.Subscript)):
                b = b.value
            if isinstance(b, ast.Name) and b.id in tainted and not isinstance(t, ast.Name):
                bad.append(n)
        if isinstance(n, ast.Call) and isinstance(n.func, ast.Attribute) and n.func.attr in MUTATORS:
            b = n.func.value
            while isinstance(b, (ast.Attribute, ast.Subscript)):
                b = b.value
            if isinstance(b, ast.Name) and b.id in tainted:
                bad.append(n)
    ctx.ob(rule, not bad, "printing never mutates the dialect it is given (the database's dialect object is shared by all its features)", func=rc,
           node=(bad[0] if bad else rc.node), sig="_reconstruct leaves the dialect untouched" if not bad else "_reconstruct mutates the dialect: %s" % norm(bad[0])[:70])


def r_printer(ctx, rule="R6"):
    """Printer template: the string _reconstruct builds for a symbolic mapping equals the template the dialect denotes,
    for every dialect configuration."""
    from .. import printer
    from ..absint import Unsupported
    rc = require_func(ctx, "parser._reconstruct")
    n = bad = 0
    reported = set()
    mappings = [None] + (printer.MAPPINGS_THOROUGH if ctx.tier == "thorough" else [])
    runs = [(c_, m_) for m_ in mappings for c_ in printer.configs(ctx.tier)]
    # keep_order: keys the dialect does not list stay in mapping order (here: not the alphabetical one) after the listed keys
    runs += [(c_, printer.MAPPINGS_THOROUGH[0]) for c_ in printer.configs(ctx.tier) if c_.get("_keep_order")] if ctx.tier != "thorough" else []
    for cfg, mp in runs:
        label = "fmt=%s repeated=%s quoted=%s trailing=%s fieldsep=%r kvsep=%r ignore_escapes=%s keep_order=%s mapping=%s" % (
            cfg["fmt"], cfg["repeated keys"], cfg["quoted GFF2 values"], cfg["trailing semicolon"], cfg["field separator"], cfg["keyval separator"], cfg["_ignore"],
            cfg.get("_keep_order"), mp or "default")
        try:
            traces = printer.run(ctx, rc, cfg, mp)
        except Unsupported as e:
            # the symbolic template does not apply to this formulation of the printer (it inspects the characters of a value
            # in a way the string-with-holes domain cannot follow): the literal round trip decides alone
            if not ctx.extra.get("printer_template_skipped"):
                ctx.extra["printer_template_skipped"] = str(e)
                ctx.note("the symbolic printer template does not cover this formulation of _reconstruct (%s): decided on literal values only" % e)
            break
        exp = printer.spec_tokens(cfg, mp)
        for t in traces:
            n += 1
            problem = None
            if t.result[0] != "return":
                problem = "raises %s" % t.result[1]
            else:
                try:
                    got = printer.tokens_of(t.result[1])
                    if got != exp:
                        problem = "prints %s, the dialect denotes %s" % (printer.show(got), printer.show(exp))
                except ValueError as e:
                    problem = str(e)
            if problem:
                bad += 1
                # key the finding by the kind of difference, not by the configuration
                kind = _diff_kind(problem)
                if kind not in reported:
                    reported.add(kind)
                    ctx.ob(rule, False, "for every dialect configuration the printed attribute column of {k1:[v1,v2], k2:[v3], k3:[]} is the template the "
                           "dialect denotes (separators, quoting, repeated keys, per-character encoding of every value, trailing semicolon)", func=rc,
                           sig="printer template: %s" % kind, detail="%s :: %s" % (label, problem))
    ctx.extra["printer_configurations"] = n
    ctx.ob(rule, bad == 0, "printer template evaluated on %d dialect configurations" % n, func=rc,
           sig="printer templates agree with the dialect in all configurations" if bad == 0 else "printer template differs in %d configurations" % bad, nontrivial=True)


def _diff_kind(problem):
    if "prints" not in problem:
        return problem[:80]
    got, exp = problem.split(", the dialect denotes ")
    got = got.replace("prints ", "")
    import re as _re
    g_raw, e_raw = set(_re.findall(r"‹(\w+)›", got)), set(_re.findall(r"‹(\w+)›", exp))
    g_enc, e_enc = set(_re.findall(r"‹%(\w+)›", got)), set(_re.findall(r"‹%(\w+)›", exp))
    if g_enc != e_enc or g_raw != e_raw:
        return "values encoded %s / raw %s, expected encoded %s / raw %s" % (sorted(g_enc), sorted(g_raw), sorted(e_enc), sorted(e_raw))
    strip = lambda x: _re.sub(r"‹%?\w+›", "_", x)
    return "separators/quoting differ: %s vs %s" % (strip(got), strip(exp))


def r_roundtrip(ctx, rule="R3"):
    """Template round trip: for every consistent dialect the template it denotes for a symbolic mapping parses back to
    that mapping (dialect supplied and inferred), and inference reports the dialect the template was written in."""
    from .. import printer
    from ..absint import Unsupported
    sk = require_func(ctx, "parser._split_keyvals")
    pats = regex_patterns(ctx, "parser")
    pat = dict(pats)       # every compiled pattern of the parser module, by name
    n = 0
    reported = set()
    nonlist = []

    def fail(kind, detail):
        if kind not in reported:
            reported.add(kind)
            ctx.ob(rule, False, "parsing the template a consistent dialect denotes for {k1:[v1,v2], k2:[v3], k3:[]} returns that mapping (values decoded "
                   "exactly when they were encoded) and, without a supplied dialect, infers the dialect it was written in", func=sk,
                   sig="round trip: %s" % kind, detail=detail)
    runs = []
    for fam, cfg in printer.parse_configs():
        for mp in printer.PARSE_MAPPINGS + printer.PARSE_MAPPINGS_ESCAPES + (printer.PARSE_MAPPINGS_QUOTED if cfg["quoted GFF2 values"] else []) + \
                (printer.PARSE_MAPPINGS_QUOTED_SEMI if cfg["quoted GFF2 values"] and " " in cfg["field separator"] else []):
            runs.append((fam, cfg, mp, False))
        # the ignore_url_escape_characters switch: nothing is decoded, in any dialect
        if cfg["field separator"] == ";" and not cfg["trailing semicolon"]:
            for mp in printer.PARSE_MAPPINGS[:1] + printer.PARSE_MAPPINGS_ESCAPES:
                runs.append((fam, cfg, mp, True))
    for fam, cfg, mp, ignore in runs:
        if True:
            text = printer.template_astr(cfg, mp)
            dial = {k: v for k, v in cfg.items() if not k.startswith("_")}
            decodes = cfg["fmt"] == "gff3" and not ignore
            want = {}
            for k, v in mp:
                want[k] = []
                for x in v:
                    if x.startswith("lit:") or " " in x or "=" in x or ";" in x:
                        want[k].append(printer.value_name(x, decoded=decodes))
                    elif cfg["fmt"] == "gff3" and ignore:
                        want[k].append("enc(%s)" % x)     # written encoded, read back as written
                    else:
                        want[k].append(x)
            for mode, d in (("supplied", dial), ("inferred", None)):
                label = "%s dialect, %s%s, template %r" % (mode, fam, ", escapes ignored" if ignore else "", text.render())
                try:
                    traces = printer.parse_run(ctx, sk, text, d, pat, ignore=ignore)
                except Unsupported as e:
                    ctx.require(False, "attribute parser outside the analysable subset: %s" % e)
                for t in traces:
                    n += 1
                    if t.result[0] != "return":
                        fail("parser raises %s (%s dialect)" % (t.result[1], mode), label)
                        continue
                    res = t.result[1]
                    if not (isinstance(res, tuple) and len(res) == 2 and isinstance(res[0], dict)):
                        fail("parser does not return (mapping, dialect)", label)
                        continue
                    from ..absint import is_strlike
                    odd = [k for k, v_ in res[0].items() if not (isinstance(v_, list) and all(is_strlike(x) or isinstance(x, str) for x in v_))]
                    if odd:
                        nonlist.append((label, odd))
                        fail("values of %s are not lists of strings" % odd, "%s :: parsed %r" % (label, {k: res[0][k] for k in odd}))
                        continue
                    got = printer.names_of(res[0])
                    if got != want:
                        decoded = any(isinstance(x, str) and x.startswith("dec(") for v_ in got.values() for x in v_)
                        undec = any(isinstance(x, str) and x.startswith("enc(") for v_ in got.values() for x in v_)
                        kind = "values decoded although they were not encoded" if decoded else "encoded values not decoded" if undec else "mapping not recovered"
                        fail("%s (%s, %s dialect)" % (kind, fam, mode), "%s :: parsed %s, expected %s" % (label, got, want))
                    if mode == "inferred":
                        dl = res[1] if isinstance(res[1], dict) else {}
                        declared = set(ctx.folder.const("constants", "dialect"))
                        if set(dl) != declared:
                            fail("inferred dialect has keys %s beyond / short of the declared ones" % sorted(set(dl) ^ declared), label)
                        exp = {k: cfg[k] for k in ("fmt", "field separator", "keyval separator", "quoted GFF2 values", "trailing semicolon")}
                        exp["repeated keys"] = bool(cfg["repeated keys"] and any(len(v) > 1 for _k, v in mp))
                        exp["order"] = [k for k, _v in mp]
                        if cfg["repeated keys"]:
                            exp["order"] = [k for k, v in mp for _i in range(max(1, len(v)))]
                        diff = sorted(k for k in exp if dl.get(k) != exp[k])
                        if diff:
                            fail("inferred dialect differs in %s (%s)" % (diff, fam), "%s :: inferred %s, written as %s" % (label, {k: dl.get(k) for k in diff}, {k: exp[k] for k in diff}))
    ctx.extra["roundtrip_traces"] = n
    ctx.extra["roundtrip_nonlist"] = nonlist
    ctx.ob(rule, not reported, "template round trip evaluated on %d parses (36 consistent dialects x mappings incl. literal escapes and blank-carrying quoted values, escapes honoured/ignored, x supplied/inferred)" % n, func=sk,
           sig="template round trip holds" if not reported else "template round trip fails (%d kinds)" % len(reported))
    ctx.assume("template round trip: attribute values are opaque and free of the structural characters %r; keys are plain words" % printer.STRUCTURAL)


def r_literal(ctx, rule="R3"):
    """Literal round trip: concrete values containing the structural characters themselves are printed with every consistent
    dialect and the printed text is parsed back, with the dialect supplied and inferred."""
    from .. import printer
    from ..absint import Unsupported
    rc = require_func(ctx, "parser._reconstruct")
    sk = require_func(ctx, "parser._split_keyvals")
    pat = dict(regex_patterns(ctx, "parser"))       # every compiled pattern of the parser module, by name
    n = 0
    seen = set()

    def fail(kind, detail):
        if kind not in seen:
            seen.add(kind)
            ctx.ob(rule, False, "a mapping whose values contain reserved characters is printed with the dialect as the encode set prescribes and parses back to itself "
                   "(GFF3-style dialects; GTF-style dialects for values free of ';', '\"', ',' and control characters)", func=sk, sig="literal round trip: %s" % kind, detail=detail)
    for fam, cfg in printer.parse_configs():
        gff3 = cfg["fmt"] == "gff3"
        for mp in (printer.LITERAL_GFF3 if gff3 else printer.LITERAL_PLAIN):
            if not gff3 and not cfg["quoted GFF2 values"] and any(" " in x for _k, vs in mp for x in vs):
                continue          # unquoted GFF2 values cannot carry blanks
            if cfg["repeated keys"] is False and False:
                continue
            try:
                text, parsed = printer.literal_roundtrip(ctx, rc, sk, pat, cfg, mp)
            except Unsupported as e:
                ctx.require(False, "printer / parser outside the analysable subset on a literal mapping: %s" % e)
            n += 1
            label = "%s, fieldsep=%r trailing=%s repeated=%s" % (fam, cfg["field separator"], cfg["trailing semicolon"], cfg["repeated keys"])
            if not isinstance(text, str):
                fail("printing %s" % (text,), label)
                continue
            want_text = printer.spec_text(cfg, mp, encode=gff3)
            if text != want_text:
                fail("printed text differs from what the dialect and the encode set denote (%s)" % ("gff3" if gff3 else fam), "%s :: printed %r, expected %r" % (label, text, want_text))
                continue
            want = {k: list(vs) for k, vs in mp}
            for mode, got in parsed.items():
                if got != want:
                    diff = sorted(k for k in set(want) | set(got if isinstance(got, dict) else {}) if not isinstance(got, dict) or got.get(k) != want.get(k))
                    fail("printed mapping does not parse back (%s dialect, %s)" % (mode, "gff3" if gff3 else fam),
                         "%s :: text %r parsed (%s dialect) to %s, expected %s" % (label, text, mode, {k: got.get(k) for k in diff} if isinstance(got, dict) else got, {k: want.get(k) for k in diff}))
    ctx.floor(rule, n, 30, "literal round trips")
    ctx.ob(rule, not seen, "literal round trip evaluated on %d (dialect, mapping) pairs" % n, func=sk,
           sig="literal round trip holds" if not seen else "literal round trip fails (%d kinds)" % len(seen))


def check(ctx):
    ctx.explanation = (
        "Both halves of the round trip are decided on templates by the partitioned string dataflow (strings with holes; no solver): "
        "_reconstruct is evaluated for a symbolic mapping under every dialect configuration and compared token by token with the template "
        "the dialect denotes; that template is then fed to _split_keyvals, with the dialect supplied and inferred, and must parse back to the "
        "mapping, with inference reporting the dialect it was written in. Around that: set comparison of the dialect keys written by "
        "inference / read by reconstruction / declared; literally escaped structural characters in values come back as one decoded value "
        "exactly in gff3 dialects with escapes honoured (decoding per value, after the split, after the format is final); printing never mutates the shared dialect; column handling by abstract evaluation of "
        "feature_from_line / __unicode__ (C01.R5). Values are opaque and free of structural characters: byte-for-byte identity for "
        "arbitrary values (escapes inside values, blanks inside values) is not decided.")
    r1(ctx)
    r_printer(ctx)
    r_roundtrip(ctx)
    r_literal(ctx)
    from . import c01
    n0 = len(ctx.obs)
    c01.r5(ctx)
    for o in ctx.obs[n0:]:
        o.rule = "C07.R5"
