"""C02 -- GFF3 hierarchy.

R1  level-1 relation = every Parent value -> this feature (loop over the whole
    attribute value, (parent, f.id, 1), OR IGNORE, after id assignment);
R2  level-2 rows = composition of two level-1 edges (conjunctive-query
    comparison) and the row written is (ancestor, grandchild, 2);
R3  the closure is computed after all lines are in (dominance in every driver);
R4  children/parents are the exact join with the right direction, optional
    level filter, DISTINCT, placeholders bound to (id, level, ...);
R5  projection from `features` only; relation inserts touch only `relations`.
"""
import ast

from .. import sql as S
from ..absint import Sym
from ..builders import interp_for, BoundQuery, FEATURE_COLS
from ..cfg import cfg_of
from ..model import stmt_of, enclosing, norm, parents
from ..util import require_func, execute_sites, calls_in, call_attr, is_name, const_str, kwarg

SPEC_L2 = ("SELECT r2.child FROM relations r1 JOIN relations r2 ON r2.parent = r1.child "
           "WHERE r1.parent = :p AND r1.level = 1 AND r2.level = 1")
SPEC_L2_NOLEVEL = "SELECT r2.child FROM relations r1 JOIN relations r2 ON r2.parent = r1.child WHERE r1.parent = :p"


def schema(ctx):
    return S.schema_from_script(ctx.folder.const("constants", "SCHEMA"))


def insert_columns(stmt, sch):
    cols = stmt.columns or sch.get(stmt.table.lower(), {}).get("columns", [])
    return [c.lower() for c in cols]


def gff_populate(ctx):
    c = ctx.proj.cls("create._GFFDBCreator")
    f = ctx.proj.method(c, "_populate_from_lines")
    ctx.require(f is not None and f.cls is c, "anchor vanished: _GFFDBCreator._populate_from_lines")
    ctx.touch(f)
    return f


def feature_loop(ctx, f):
    """The `for ... in <parameter>` loop of a populate method and the name of
    its feature variable."""
    param = [p for p in f.params if p != "self"]
    ctx.require(param, "%s lost its lines parameter" % f.qual)
    for n in f.node.body:
        for loop in [x for x in ast.walk(n) if isinstance(x, ast.For)]:
            it = loop.iter
            src = it.args[0] if isinstance(it, ast.Call) and is_name(it.func, "enumerate") and it.args else it
            if is_name(src, param[0]):
                tgt = loop.target
                var = tgt.elts[-1] if isinstance(tgt, ast.Tuple) else tgt
                if isinstance(var, ast.Name):
                    return loop, var.id
    ctx.require(False, "no loop over the lines parameter in %s" % f.qual)














def r3(ctx):
    """The drivers evaluated on the model database: create() and FeatureDB.update() must leave the two-level Parent graph,
    which they do only if second-level relations are computed after all lines are stored."""
    from . import scen
    cr = require_func(ctx, "create._DBCreator.create")
    lines = scen.gff_lines()[::-1]          # children before parents
    im, t = scen.run_create(ctx, "_GFFDBCreator", lines)
    ids = [f.attrs["id"] for f in lines]
    want = scen.expected_relations(lines, ids)
    got = set(im.table("relations")) if t.result[0] == "return" else None
    ctx.ob("R3", got == want, "create(): second-level relations are computed after all lines are imported (children-first file)", func=cr,
           sig="create(): closure after population" if got == want else "create(): %s" % (str(t.result[:3]) if got is None else "missing %s unexpected %s" % (sorted(want - got)[:3], sorted(got - want)[:3])))
    up = require_func(ctx, "interface.FeatureDB.update")
    if got is None:
        return
    it, me, conn, t0 = scen.open_feature_db(ctx, im.db)
    if not scen.returned(ctx, t0, "FeatureDB(dbfn) on the created database", func=up, rule="R3"):
        return
    more = [scen.feature("N2", "match_part", 10, 20, {"ID": ["p2"], "Parent": ["e9"]}), scen.feature("N1", "exon", 460, 480, {"ID": ["e9"], "Parent": ["t1"]})]
    t = scen.call_method(ctx, it, me, "interface.FeatureDB.update", data=list(more), make_backup=False)
    allf = lines + more
    want = scen.expected_relations(allf, [f.attrs["id"] for f in allf])
    got = set(im.db.rows("relations")) if t.result[0] == "return" else None
    ctx.ob("R3", got == want, "update(): second-level relations are computed after all new lines are imported (child line before its parent line)", func=up,
           sig="update(): closure after population" if got == want else "update(): %s" % (str(t.result[:3]) if got is None else "missing %s unexpected %s" % (sorted(want - got)[:3], sorted(got - want)[:3])))


def r4(ctx, sch):
    it = interp_for(ctx)
    proj_cols = ", ".join("features." + c for c in FEATURE_COLS) + ", features.rowid"
    for meth, join_on, join_to in (("children", "child", "parent"), ("parents", "parent", "child")):
        f = require_func(ctx, "interface.FeatureDB." + meth)
        for idname, idv in (("str", Sym("id", "str")), ("Feature", Sym("F", "Feature"))):
            for level in (None, Sym("level", "int")):
                for ft in (None, Sym("ft", "str")):
                    label = "%s(id=%s, level=%s, featuretype=%s)" % (meth, idname, "given" if level is not None else None,
                                                                   "str" if ft is not None else None)
                    for t in it.run(f, dict(id=idv, level=level, featuretype=ft)):
                        ex = t.executes()
                        if t.result[0] == "raise" or len(ex) != 1:
                            ctx.ob("R4", False, "%s builds one statement" % meth, func=f,
                                   sig="%s: %s" % (meth, "raises %s" % t.result[1] if t.result[0] == "raise" else "%d statements" % len(ex)),
                                   detail=label)
                            continue
                        bq = BoundQuery(ex[0][1], ex[0][2])
                        if bq.problems:
                            ctx.ob("R4", False, "%s statement parses and binds" % meth, func=f,
                                   sig="%s: %s" % (meth, bq.problems[0].split("::")[0]), detail=label)
                            continue
                        spec_sql = "SELECT DISTINCT %s FROM features JOIN relations ON relations.%s = features.id WHERE relations.%s = :id" % (
                            proj_cols, join_on, join_to)
                        if level is not None:
                            spec_sql += " AND relations.level = :level"
                        if ft is not None:
                            spec_sql += " AND features.featuretype = :ft"
                        spec = S.to_cq(S.parse(spec_sql), sch)
                        names = {}
                        for i, n in bq.binding.items():
                            names[i] = {"F.id": "id"}.get(n, n) if isinstance(n, str) else repr(n)
                        try:
                            got = S.to_cq(bq.stmt, sch, names)
                        except S.SQLError as e:
                            ctx.ob("R4", False, "%s statement normalises" % meth, func=f, sig="%s: %s" % (meth, e), detail=label)
                            continue
                        eq = S.cq_equivalent(got, spec)
                        ctx.ob("R4", eq,
                               "%s(x) = features F joined with relations R on R.%s = F.id where R.%s = x%s%s" % (
                                   meth, join_on, join_to, ", R.level = level" if level is not None else "",
                                   ", F.featuretype = ft" if ft is not None else ""),
                               func=f,
                               sig="%s level=%s ft=%s: %s" % (meth, level is not None, ft is not None,
                                                             "exact join" if eq else "not the specified join: " + got.describe()),
                               detail=label if eq else label + " :: expected " + spec.describe())
                        ctx.ob("R4", bq.stmt.distinct, "%s returns each feature once (SELECT DISTINCT)" % meth, func=f,
                               sig="%s DISTINCT" % meth if bq.stmt.distinct else "%s without DISTINCT" % meth, nontrivial=False)
                        if idname == "Feature":
                            ok = "F.id" in [n for n in bq.binding.values()]
                            ctx.ob("R4", ok, "a Feature argument is replaced by its id", func=f,
                                   sig="%s Feature -> id" % meth if ok else "%s binds %r for a Feature argument" % (meth, list(bq.binding.values())),
                                   nontrivial=False)


def r5(ctx, sch):
    f = gff_populate(ctx)
    c = ctx.proj.cls("create._GFFDBCreator")
    pool = [f, ctx.proj.method(c, "_update_relations")]
    for s in execute_sites(ctx, [x for x in pool if x is not None]):
        if not s.stmts:
            continue
        for st in s.stmts:
            if st.verb in ("INSERT", "UPDATE", "DELETE") and st.table.lower() not in ("features", "relations"):
                ctx.ob("R5", False, "the GFF importer's row writes touch only features and relations", node=s.call, func=s.func,
                       sig="%s into %s in %s" % (st.verb, st.table, s.func.name))
    ctx.ob("R5", True, "a dangling Parent creates a relation row only; query projections come from `features` (checked by R4's "
           "conjunctive-query comparison)", func=f, sig="dangling parent: relation row only", nontrivial=False)


def check(ctx):
    ctx.explanation = (
        "The GFF3 importer's own methods (_populate_from_lines, then _update_relations) are evaluated by the abstract evaluator against a model "
        "database (a relational evaluator for the SQL subset used, an in-memory file system for the intermediate file): for a 10-line annotation "
        "graph (depth 4, shared child, repeated and dangling Parent values, a line without ID) in several line orders -- all permutations of six "
        "lines in the thorough tier -- and for a second import into the filled database, the relations table must equal the Parent graph two "
        "levels deep. gffutils and sqlite3 are not imported or run; helper extraction, handler tables, generators or named placeholders in the "
        "importer do not matter to the result. The pipeline order and the query side (children()/parents() through _relation and make_query: each "
        "generated statement's conjunctive query compared with the specified join) are decided as before. Does not decide 'for every graph'.")
    sch = schema(ctx)
    r_scenario(ctx)
    r3(ctx)
    r4(ctx, sch)
    ctx.attempt(r_queries)
    r5(ctx, sch)


def r_queries(ctx):
    """children() / parents() evaluated on the created model database for every stored feature x level x featuretype (id and
    Feature argument, with order_by): the returned ids are the Parent graph's, each once, x never its own relative, parents the
    inverse of children."""
    from . import scen
    fc = require_func(ctx, "interface.FeatureDB.children")
    fp = require_func(ctx, "interface.FeatureDB.parents")
    base = scen.gff_lines()
    bad = {}
    n_q = 0
    for o in (list(range(len(base))), list(range(len(base)))[::-1]):
        lines = [scen.feature(f.name, f.attrs["featuretype"], f.attrs["start"], f.attrs["end"], f.attrs["attributes"], strand=f.attrs["strand"]) for f in (base[i] for i in o)]
        im, t = scen.run_create(ctx, "_GFFDBCreator", lines)
        if not scen.returned(ctx, t, "create()", func=fc, rule="R4"):
            return
        it, me, conn, t0 = scen.open_feature_db(ctx, im.db)
        if not scen.returned(ctx, t0, "FeatureDB(dbfn)", func=fc, rule="R4"):
            return
        it.summaries["interface.FeatureDB._feature_returner"] = lambda i, pos, kw, node: kw.get("id")
        ids = [f.attrs["id"] for f in lines]
        rec = {f.attrs["id"]: f for f in lines}
        stored = set(ids)
        rel = scen.expected_relations(lines, ids)
        label0 = "file order" if o[0] == 0 else "reversed file"

        def ask(qual, **kw):
            tr = scen.call_method(ctx, it, me, qual, **kw)
            if tr.result[0] != "return":
                return "raises %s" % (tr.result[1],)
            try:
                return list(tr.result[1])
            except TypeError:
                return "not iterable"
        for x in ids:
            for level in (None, 1, 2):
                for ft in (None, "exon", ("exon", "mRNA")):
                    for meth, f_, a, b in (("children", fc, 0, 1), ("parents", fp, 1, 0)):
                        fts = None if ft is None else ([ft] if isinstance(ft, str) else list(ft))
                        want = sorted({r[b] for r in rel if r[a] == x and (level is None or r[2] == level) and r[b] in stored and
                                       (fts is None or rec[r[b]].attrs["featuretype"] in fts)}, key=str)
                        for arg in ((x, rec[x]) if (level is None and ft is None) else (x,)):
                            n_q += 1
                            got = ask("interface.FeatureDB." + meth, id=arg, level=level, featuretype=ft)
                            lab = "%s(%s, level=%s, featuretype=%s), %s" % (meth, "a Feature" if arg is not x else "an id", level, ft, label0)
                            if not isinstance(got, list) or sorted(got, key=str) != want:
                                bad.setdefault(lab, "%s(%r) returns %s, the Parent graph gives %s" % (meth, x, got, want))
                            elif x in got:
                                bad.setdefault(lab, "%s(%r) lists the feature itself" % (meth, x))
            n_q += 1
            got = ask("interface.FeatureDB.children", id=x, order_by="start")
            if isinstance(got, list):
                st = [rec[i].attrs["start"] for i in got]
                if st != sorted(st) or sorted(got, key=str) != sorted({r[1] for r in rel if r[0] == x and r[1] in stored}, key=str):
                    bad.setdefault("children(order_by='start'), %s" % label0, "children(%r, order_by='start') returns %s (starts %s)" % (x, got, st))
            else:
                bad.setdefault("children(order_by='start'), %s" % label0, "children(%r, order_by='start') %s" % (x, got))
    ctx.ob("R4", not bad, "children()/parents() of every stored feature, per level and featuretype, by id and by Feature, are exactly the Parent graph's (each once, never "
           "the feature itself, parents the inverse of children; %d queries on a created model database, two line orders)" % n_q, func=fc,
           sig="children/parents agree with the Parent graph" if not bad else "; ".join("%s: %s" % kv for kv in sorted(bad.items())[:3])[:700])


# ------------------------------------------------------------------------------------------------ scenario rules
def r_scenario(ctx):
    """The GFF3 importer (_populate_from_lines, then _update_relations) evaluated against the model database on a small
    annotation graph, in several line orders: the relations table equals the Parent graph two levels deep, and nothing else."""
    import itertools
    import random
    from . import scen
    base = scen.gff_lines()
    orders = [list(range(len(base))), list(range(len(base)))[::-1]]
    rnd = random.Random(20240229)
    for _ in range(4 if ctx.tier == "quick" else 40):
        o = list(range(len(base)))
        rnd.shuffle(o)
        orders.append(o)
    if ctx.tier == "thorough":
        six = [0, 1, 2, 3, 4, 5]
        orders += [list(p) + list(range(6, len(base))) for p in itertools.permutations(six)]
    fn = require_func(ctx, "create._GFFDBCreator._update_relations")
    fp = require_func(ctx, "create._GFFDBCreator._populate_from_lines")
    bad1 = bad2 = badf = None
    n = 0
    for o in orders:
        lines = [scen.feature(f.name, f.attrs["featuretype"], f.attrs["start"], f.attrs["end"], f.attrs["attributes"], strand=f.attrs["strand"]) for f in (base[i] for i in o)]
        im = scen.run_gff(ctx, lines)
        n += 1
        ids = [f.attrs["id"] for f in lines]
        want = scen.expected_relations(lines, ids)
        got = im.table("relations")
        gs = set(got)
        label = "line order %s" % "".join(str(i + 1) for i in o)
        if bad1 is None:
            w1, g1 = {r for r in want if r[2] == 1}, {r for r in gs if r[2] == 1}
            if w1 != g1 or len(got) != len(gs):
                bad1 = "%s: missing %s, unexpected %s%s" % (label, sorted(w1 - g1)[:4], sorted(g1 - w1)[:4], ", duplicate rows" if len(got) != len(gs) else "")
        if bad2 is None:
            w2, g2 = {r for r in want if r[2] != 1}, {r for r in gs if r[2] != 1}
            if w2 != g2:
                bad2 = "%s: missing %s, unexpected %s" % (label, sorted(w2 - g2)[:4], sorted(g2 - w2)[:4])
        if badf is None:
            stored = [r[0] for r in im.table("features", ["id"])]
            if sorted(stored, key=str) != sorted(ids, key=str) or any(p == "nowhere" for p in stored):
                badf = "%s: stored ids %s for lines with ids %s" % (label, stored, ids)
    # a second import into the filled database (what update() does): the closure is still two levels deep -- the stored
    # level-2 rows are not composed again
    lines = scen.gff_lines()
    im = scen.run_gff(ctx, lines)
    more = [scen.feature("N1", "exon", 460, 480, {"ID": ["e9"], "Parent": ["t1"]}), scen.feature("N2", "match_part", 10, 20, {"ID": ["p2"], "Parent": ["e1"]})]
    im2 = scen.Import(ctx, "_GFFDBCreator", db=im.db)
    im2.call("_populate_from_lines", lines=list(more))
    im2.call("_update_relations")
    allf = lines + more
    want = scen.expected_relations(allf, [f.attrs["id"] for f in allf])
    got = set(im2.table("relations"))
    ok = got == want and len(im2.table("relations")) == len(got)
    ctx.ob("R2", ok, "importing more lines into a filled database (as update() does) leaves exactly the two-level Parent graph of all lines: stored level-2 rows are "
           "not composed a second time", func=fn,
           sig="relations after a second import equal the two-level graph" if ok else "after a second import: missing %s, unexpected %s" % (sorted(want - got)[:4], sorted(got - want)[:4]))
    ctx.floor("R1", n, 6, "line orders of the GFF3 family evaluated")
    ctx.ob("R1", bad1 is None, "level-1 relations are exactly the (Parent value, feature id) pairs of the file, once each -- also for children before parents, shared "
           "children, a repeated Parent value and a Parent naming no feature (%d line orders of a %d-line graph)" % (n, len(base)), func=fp,
           sig="level-1 relations equal the Parent graph" if bad1 is None else "level-1 relations differ: %s" % bad1)
    ctx.ob("R2", bad2 is None, "level-2 relations are exactly the compositions of two level-1 edges (depth-4 graph: nothing deeper), whatever the line order", func=fn,
           sig="level-2 relations equal the composed Parent graph" if bad2 is None else "level-2 relations differ: %s" % bad2)
    ctx.ob("R1", badf is None, "a Parent value naming no stored feature creates no feature and no error", func=fp,
           sig="no phantom feature" if badf is None else badf, nontrivial=False)
