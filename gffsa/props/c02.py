"""C02 -- GFF3 hierarchy.

R1  level-1 relation = every Parent value -> this feature (loop over the whole
    attribute value, (parent, f.id, 1), OR IGNORE, after id assignment);
R2  level-2 rows = composition of two level-1 edges (conjunctive-query
    comparison) and the row written is (ancestor, grandchild, 2);
R3  the closure is computed after all lines are in (dominance in every driver);
R4  children/parents are the exact join with the right direction, optional
    level filter, DISTINCT, placeholders bound to (id, level, ...);
R5  projection from `features` only; relation inserts touch only `relations`.
"""
import ast

from .. import sql as S
from ..absint import Sym
from ..builders import interp_for, BoundQuery, FEATURE_COLS
from ..cfg import cfg_of
from ..model import stmt_of, enclosing, norm, parents
from ..util import require_func, execute_sites, calls_in, call_attr, is_name, const_str, kwarg

SPEC_L2 = ("SELECT r2.child FROM relations r1 JOIN relations r2 ON r2.parent = r1.child "
           "WHERE r1.parent = :p AND r1.level = 1 AND r2.level = 1")
SPEC_L2_NOLEVEL = "SELECT r2.child FROM relations r1 JOIN relations r2 ON r2.parent = r1.child WHERE r1.parent = :p"


def schema(ctx):
    return S.schema_from_script(ctx.folder.const("constants", "SCHEMA"))


def insert_columns(stmt, sch):
    cols = stmt.columns or sch.get(stmt.table.lower(), {}).get("columns", [])
    return [c.lower() for c in cols]


def gff_populate(ctx):
    c = ctx.proj.cls("create._GFFDBCreator")
    f = ctx.proj.method(c, "_populate_from_lines")
    ctx.require(f is not None and f.cls is c, "anchor vanished: _GFFDBCreator._populate_from_lines")
    ctx.touch(f)
    return f


def feature_loop(ctx, f):
    """The `for ... in <parameter>` loop of a populate method and the name of
    its feature variable."""
    param = [p for p in f.params if p != "self"]
    ctx.require(param, "%s lost its lines parameter" % f.qual)
    for n in f.node.body:
        for loop in [x for x in ast.walk(n) if isinstance(x, ast.For)]:
            it = loop.iter
            src = it.args[0] if isinstance(it, ast.Call) and is_name(it.func, "enumerate") and it.args else it
            if is_name(src, param[0]):
                tgt = loop.target
                var = tgt.elts[-1] if isinstance(tgt, ast.Tuple) else tgt
                if isinstance(var, ast.Name):
                    return loop, var.id
    ctx.require(False, "no loop over the lines parameter in %s" % f.qual)


def r1(ctx, sch):
    f = gff_populate(ctx)
    loop, fv = feature_loop(ctx, f)
    sites = [s for s in execute_sites(ctx, [f]) if s.stmts and any(st.verb == "INSERT" and st.table.lower() == "relations" for st in s.stmts)]
    ctx.floor("R1", len(sites), 1, "relation INSERT sites in the GFF importer")
    for s in sites:
        st = s.stmts[0]
        cols = insert_columns(st, sch)
        ok = cols[:3] == ["parent", "child", "level"] and len(st.values) == 3
        ctx.ob("R1", ok, "the relation row has the columns (parent, child, level)", node=s.call, func=f,
               sig="relation insert columns %s" % ",".join(cols))
        if not ok:
            continue
        ctx.ob("R1", st.or_clause == "ignore", "first-level relations are inserted OR IGNORE (repeated Parent values are harmless)",
               node=s.call, func=f, sig="relation insert conflict clause: %s" % (st.or_clause or "none"))
        lvl = st.values[2]
        params = s.params
        elts = list(params.elts) if isinstance(params, (ast.Tuple, ast.List)) else None
        ctx.require(elts is not None, "relation insert arguments are not a tuple display (%s)" % norm(params) if params is not None else "no args")
        level_ok = (lvl[0] == "num" and lvl[1] == 1)
        if lvl[0] == "param":
            idx = [v for v in st.values if v[0] == "param"].index(lvl)
            level_ok = idx < len(elts) and isinstance(elts[idx], ast.Constant) and elts[idx].value == 1
        ctx.ob("R1", level_ok, "a Parent attribute creates a level-1 relation", node=s.call, func=f,
               sig="Parent relation level: %s" % (S.show(lvl) if lvl[0] != "param" else norm(elts[idx]) if idx < len(elts) else "?"))
        pvals = [v for v in st.values[:2]]
        if any(v[0] != "param" for v in pvals) or len(elts) < 2:
            ctx.ob("R1", False, "parent and child are bound from the feature", node=s.call, func=f,
                   sig="relation insert binds %s" % norm(params))
            continue
        parent_e, child_e = elts[0], elts[1]
        # enclosing loop over the Parent values
        ploop = enclosing(s.call, ast.For)
        whole = None
        if ploop is not None and ploop is not loop:
            whole = ploop.iter
        is_parent_attr = whole is not None and _is_attr_lookup(whole, fv, "Parent")
        ctx.ob("R1", is_parent_attr, "the relation insert runs for every value of the feature's Parent attribute "
               "(a loop over the whole attribute value)", node=s.call, func=f,
               sig="Parent loop iterates %s" % (norm(whole) if whole is not None else "nothing (no loop)"))
        lv = ploop.target.id if ploop is not None and isinstance(ploop.target, ast.Name) else None
        if ploop is not None and lv:
            for n in ast.walk(ploop):
                if isinstance(n, ast.Assign) and isinstance(n.targets[0], ast.Subscript):
                    key_names = {x.id for x in ast.walk(n.targets[0].slice) if isinstance(x, ast.Name)}
                    val_names = {x.id for x in ast.walk(n.value) if isinstance(x, ast.Name)}
                    if lv not in key_names and lv in val_names:
                        ctx.ob("R1", False, "every Parent value of a feature survives: inside the loop over the Parent values nothing is stored under a key "
                               "that does not depend on the value (each pass would overwrite the previous parent)", node=n, func=f,
                               sig="Parent loop overwrites %s with each parent" % norm(n.targets[0]))
        ok_p = isinstance(parent_e, ast.Name) and parent_e.id == lv
        ok_c = norm(child_e) == "%s.id" % fv
        ctx.ob("R1", ok_p and ok_c, "the row is (Parent value, this feature's id)", node=s.call, func=f,
               sig="relation row (%s, %s)" % (norm(parent_e), norm(child_e)))
        # id assigned and merge handling done before the relation is written
        cfg = cfg_of(f)
        idasg = [n for n in ast.walk(loop) if isinstance(n, ast.Assign) and any(norm(t) == "%s.id" % fv for t in n.targets)]
        ctx.floor("R1", len(idasg), 1, "assignments of the feature id in the GFF importer loop")
        site_node = cfg.node_for(s.call)
        dom = all(cfg.dominates(cfg.node_for(a).id, site_node.id) for a in idasg[:1])
        ctx.ob("R1", dom, "the id is assigned before the relation row is written", node=s.call, func=f,
               sig="id assignment dominates relation insert" if dom else "relation insert not dominated by the id assignment")
        tries = [n for n in loop.body if isinstance(n, ast.Try)]
        top = _top_stmt_in(loop.body, s.call)
        after = bool(tries) and top is not None and all(loop.body.index(top) > loop.body.index(t) for t in tries)
        ctx.ob("R1", after, "the relation row is written after collision handling (which may rename the feature)",
               node=s.call, func=f, sig="relation insert after the try/except of the feature insert" if after else
               "relation insert not placed after collision handling")
        # guard: only the presence test of the Parent attribute
        guards = []
        child = ploop if ploop is not None else stmt_of(s.call)
        for p in parents(child):
            if p is loop:
                break
            if isinstance(p, ast.If):
                guards.append(p.test)
            elif isinstance(p, ast.Try):
                pass
        okg = all(_is_presence_test(g, fv, "Parent") for g in guards)
        ctx.ob("R1", okg, "the Parent loop is guarded by nothing but the presence of the attribute", node=s.call, func=f,
               sig="Parent loop guards: %s" % ("; ".join(norm(g) for g in guards) or "none"))


def _top_stmt_in(body, node):
    for p in [node] + list(parents(node)):
        if any(p is b for b in body):
            return p
    return None


def _is_attr_lookup(node, fv, key):
    """f.attributes["Parent"] or f["Parent"] (whole value)."""
    if isinstance(node, ast.Subscript) and const_str(node.slice) == key:
        b = node.value
        if is_name(b, fv):
            return True
        if isinstance(b, ast.Attribute) and b.attr == "attributes" and is_name(b.value, fv):
            return True
    if isinstance(node, ast.Call) and call_attr(node) == "get" and node.args and const_str(node.args[0]) == key:
        b = node.func.value
        if isinstance(b, ast.Attribute) and b.attr == "attributes" and is_name(b.value, fv):
            return True
    return False


def _is_presence_test(test, fv, key):
    if isinstance(test, ast.Compare) and len(test.ops) == 1 and isinstance(test.ops[0], ast.In):
        if const_str(test.left) == key:
            c = test.comparators[0]
            if isinstance(c, ast.Attribute) and c.attr == "attributes" and is_name(c.value, fv):
                return True
            if isinstance(c, ast.Call) and call_attr(c) == "keys":
                return True
    return False


def r2(ctx, sch):
    c = ctx.proj.cls("create._GFFDBCreator")
    f = ctx.proj.method(c, "_update_relations")
    ctx.require(f is not None and f.cls is c, "anchor vanished: _GFFDBCreator._update_relations")
    ctx.touch(f)
    pool = [f] + [g for lst in f.nested.values() for g in lst]
    sites = execute_sites(ctx, pool)
    sel = [s for s in sites if s.stmts and s.stmts[0].verb == "SELECT" and s.stmts[0].tables().count("relations") >= 1
           and "relations" in s.stmts[0].tables()]
    ctx.floor("R2", len(sel), 1, "closure SELECTs over relations in the GFF importer")
    spec = S.to_cq(S.parse(SPEC_L2), sch)
    spec_nolevel = S.to_cq(S.parse(SPEC_L2_NOLEVEL), sch)
    for s in sel:
        try:
            got = S.to_cq(s.stmts[0], sch, {0: "p"})
        except S.SQLError as e:
            ctx.ob("R2", False, "the level-2 SELECT normalises to a conjunctive query", node=s.call, func=f,
                   sig="level-2 SELECT not normalisable: %s" % e)
            continue
        ok = S.cq_equivalent(got, spec)
        if ok:
            sig = "level-2 SELECT ≅ composition of two level-1 edges"
        elif S.cq_equivalent(got, spec_nolevel):
            sig = "level-2 SELECT composes relation rows of any level (no level = 1 on the composed edges)"
        else:
            sig = "level-2 SELECT is not the composition query: " + got.describe()
        ctx.ob("R2", ok, "grandchildren of $p = { R2.child | R1.parent=$p, R1.level=1, R2.parent=R1.child, R2.level=1 }",
               node=s.call, func=f, sig=sig,
               detail=None if ok else "composing rows of every level invents relations when level-2 rows already exist "
                                      "(FeatureDB.update on a database with a depth-3 chain)")
        # $p is the id of each feature
        p = s.params
        src = None
        if isinstance(p, ast.Call) and is_name(p.func, "tuple") and p.args and isinstance(p.args[0], ast.Name):
            src = p.args[0].id
        elif isinstance(p, ast.Tuple) and len(p.elts) == 1:
            e = p.elts[0]
            src = e.value.id if isinstance(e, ast.Subscript) and isinstance(e.value, ast.Name) else (e.id if isinstance(e, ast.Name) else None)
        oloop = enclosing(s.call, ast.For)
        ok_src = oloop is not None and isinstance(oloop.target, ast.Name) and oloop.target.id == src
        idsel = [x for x in sites if x.stmts and x.stmts[0].verb == "SELECT" and x.stmts[0].tables() == ["features"]
                 and len(x.stmts[0].cols) == 1 and x.stmts[0].cols[0][0][0] == "col" and x.stmts[0].cols[0][0][2].lower() == "id"
                 and x.stmts[0].where is None]
        ctx.ob("R2", ok_src and len(idsel) >= 1, "the closure is computed for every stored feature id", node=s.call, func=f,
               sig="closure driven by SELECT id FROM features" if ok_src and idsel else "closure not driven by every feature id")
    # the row written: (ancestor, grandchild, 2)
    ins = [s for s in sites if s.stmts and s.stmts[0].verb == "INSERT" and s.stmts[0].table.lower() == "relations"]
    ctx.floor("R2", len(ins), 1, "level-2 INSERT sites")
    for s in ins:
        st = s.stmts[0]
        cols = insert_columns(st, sch)
        names = [(v[2] if v[0] == "param" else None) for v in st.values]
        ok = cols[:3] == ["parent", "child", "level"] and names == ["parent", "child", "level"] or \
            (cols[:3] == ["parent", "child", "level"] and all(n == "?" for n in names))
        ctx.ob("R2", ok and st.or_clause == "ignore", "level-2 rows are inserted OR IGNORE with named values in column order",
               node=s.call, func=f, sig="level-2 insert %s -> %s (%s)" % (names, cols, st.or_clause))
    _r2_rowflow(ctx, f)


def _r2_rowflow(ctx, f):
    """writer/reader agreement of the temp file that carries (ancestor,
    grandchild) pairs into the level-2 insert."""
    writes = [c for c in calls_in(f.node) if call_attr(c) == "write"]
    ctx.floor("R2", len(writes), 1, "writes of closure pairs")
    w = writes[0]
    loops = []
    for p in parents(w):
        if isinstance(p, ast.For):
            loops.append(p)
    ctx.require(len(loops) >= 2, "closure write is not inside the two cursor loops")
    inner, outer = loops[0], loops[1]
    tup = None
    for n in ast.walk(w):
        if isinstance(n, ast.Call) and call_attr(n) == "join" and n.args and isinstance(n.args[0], (ast.Tuple, ast.List)):
            tup = n.args[0]
    ctx.require(tup is not None and len(tup.elts) == 2, "closure write is not a 2-field join")

    def base(e):
        return e.value.id if isinstance(e, ast.Subscript) and isinstance(e.value, ast.Name) and \
            isinstance(e.slice, ast.Constant) and e.slice.value == 0 else None
    ok = base(tup.elts[0]) == getattr(outer.target, "id", None) and base(tup.elts[1]) == getattr(inner.target, "id", None)
    ctx.ob("R2", ok, "each closure line is (feature id, grandchild id)", node=w, func=f,
           sig="closure line fields (%s, %s)" % (norm(tup.elts[0]), norm(tup.elts[1])))
    gens = [g for lst in f.nested.values() for g in lst]
    ctx.floor("R2", len(gens), 1, "closure row generators")
    g = gens[0]
    ctx.touch(g)
    unpack = [n for n in ast.walk(g.node) if isinstance(n, ast.Assign) and isinstance(n.targets[0], ast.Tuple)
              and any(isinstance(x, ast.Call) and call_attr(x) == "split" for x in ast.walk(n.value))]
    ctx.require(unpack, "closure reader does not unpack split fields")
    names = [getattr(e, "id", None) for e in unpack[0].targets[0].elts]
    rows = [n for n in ast.walk(g.node) if isinstance(n, ast.Call) and is_name(n.func, "dict") and n.keywords]
    rows += [n for n in ast.walk(g.node) if isinstance(n, ast.Dict)]
    ctx.require(rows, "closure reader does not build a row dict")
    r = rows[0]
    if isinstance(r, ast.Call):
        kv = {k.arg: k.value for k in r.keywords}
    else:
        kv = {const_str(k): v for k, v in zip(r.keys, r.values)}
    ok = len(names) == 2 and is_name(kv.get("parent"), names[0]) and is_name(kv.get("child"), names[1])
    ctx.ob("R2", ok, "the reader maps field 1 to parent and field 2 to child", node=r, func=g,
           sig="closure reader row parent=%s child=%s" % (norm(kv["parent"]) if "parent" in kv else None,
                                                         norm(kv["child"]) if "child" in kv else None))
    lv = kv.get("level")
    ok = isinstance(lv, ast.Constant) and lv.value == 2
    ctx.ob("R2", ok, "composed rows are stored at level 2", node=r, func=g,
           sig="closure reader level=%s" % (norm(lv) if lv is not None else None))


def r3(ctx):
    for qual in ("create._DBCreator.create", "create._DBCreator.update", "interface.FeatureDB.update"):
        f = ctx.proj.maybe_func(qual)
        if f is None:
            if qual == "create._DBCreator.update":
                continue
            ctx.require(False, "anchor vanished: %s" % qual)
        ctx.touch(f)
        cfg = cfg_of(f)
        pop = [c for c in calls_in(f.node) if call_attr(c) == "_populate_from_lines"]
        upd = [c for c in calls_in(f.node) if call_attr(c) == "_update_relations"]
        ctx.require(pop and upd, "%s no longer calls _populate_from_lines and _update_relations" % qual)
        for u in upd:
            ok = any(cfg.dominates(cfg.node_for(p).id, cfg.node_for(u).id) and cfg.node_for(p).id != cfg.node_for(u).id
                     and cfg.node_for(u).id in cfg.reachable(cfg.node_for(p).id) for p in pop)
            ctx.ob("R3", ok, "second-level relations are computed after all lines are imported (%s)" % f.name, node=u, func=f,
                   sig="%s: closure %s population" % (f.name, "after" if ok else "not dominated by"))


def r4(ctx, sch):
    it = interp_for(ctx)
    proj_cols = ", ".join("features." + c for c in FEATURE_COLS) + ", features.rowid"
    for meth, join_on, join_to in (("children", "child", "parent"), ("parents", "parent", "child")):
        f = require_func(ctx, "interface.FeatureDB." + meth)
        for idname, idv in (("str", Sym("id", "str")), ("Feature", Sym("F", "Feature"))):
            for level in (None, Sym("level", "int")):
                for ft in (None, Sym("ft", "str")):
                    label = "%s(id=%s, level=%s, featuretype=%s)" % (meth, idname, "given" if level is not None else None,
                                                                   "str" if ft is not None else None)
                    for t in it.run(f, dict(id=idv, level=level, featuretype=ft)):
                        ex = t.executes()
                        if t.result[0] == "raise" or len(ex) != 1:
                            ctx.ob("R4", False, "%s builds one statement" % meth, func=f,
                                   sig="%s: %s" % (meth, "raises %s" % t.result[1] if t.result[0] == "raise" else "%d statements" % len(ex)),
                                   detail=label)
                            continue
                        bq = BoundQuery(ex[0][1], ex[0][2])
                        if bq.problems:
                            ctx.ob("R4", False, "%s statement parses and binds" % meth, func=f,
                                   sig="%s: %s" % (meth, bq.problems[0].split("::")[0]), detail=label)
                            continue
                        spec_sql = "SELECT DISTINCT %s FROM features JOIN relations ON relations.%s = features.id WHERE relations.%s = :id" % (
                            proj_cols, join_on, join_to)
                        if level is not None:
                            spec_sql += " AND relations.level = :level"
                        if ft is not None:
                            spec_sql += " AND features.featuretype = :ft"
                        spec = S.to_cq(S.parse(spec_sql), sch)
                        names = {}
                        for i, n in bq.binding.items():
                            names[i] = {"F.id": "id"}.get(n, n) if isinstance(n, str) else repr(n)
                        try:
                            got = S.to_cq(bq.stmt, sch, names)
                        except S.SQLError as e:
                            ctx.ob("R4", False, "%s statement normalises" % meth, func=f, sig="%s: %s" % (meth, e), detail=label)
                            continue
                        eq = S.cq_equivalent(got, spec)
                        ctx.ob("R4", eq,
                               "%s(x) = features F joined with relations R on R.%s = F.id where R.%s = x%s%s" % (
                                   meth, join_on, join_to, ", R.level = level" if level is not None else "",
                                   ", F.featuretype = ft" if ft is not None else ""),
                               func=f,
                               sig="%s level=%s ft=%s: %s" % (meth, level is not None, ft is not None,
                                                             "exact join" if eq else "not the specified join: " + got.describe()),
                               detail=label if eq else label + " :: expected " + spec.describe())
                        ctx.ob("R4", bq.stmt.distinct, "%s returns each feature once (SELECT DISTINCT)" % meth, func=f,
                               sig="%s DISTINCT" % meth if bq.stmt.distinct else "%s without DISTINCT" % meth, nontrivial=False)
                        if idname == "Feature":
                            ok = "F.id" in [n for n in bq.binding.values()]
                            ctx.ob("R4", ok, "a Feature argument is replaced by its id", func=f,
                                   sig="%s Feature -> id" % meth if ok else "%s binds %r for a Feature argument" % (meth, list(bq.binding.values())),
                                   nontrivial=False)


def r5(ctx, sch):
    f = gff_populate(ctx)
    c = ctx.proj.cls("create._GFFDBCreator")
    pool = [f, ctx.proj.method(c, "_update_relations")]
    for s in execute_sites(ctx, [x for x in pool if x is not None]):
        if not s.stmts:
            continue
        for st in s.stmts:
            if st.verb in ("INSERT", "UPDATE", "DELETE") and st.table.lower() not in ("features", "relations"):
                ctx.ob("R5", False, "the GFF importer's row writes touch only features and relations", node=s.call, func=s.func,
                       sig="%s into %s in %s" % (st.verb, st.table, s.func.name))
    ctx.ob("R5", True, "a dangling Parent creates a relation row only; query projections come from `features` (checked by R4's "
           "conjunctive-query comparison)", func=f, sig="dangling parent: relation row only", nontrivial=False)


def check(ctx):
    ctx.explanation = (
        "Relation writers and readers are compared with the specification: the GFF importer's level-1 insert is read off "
        "the AST/CFG (loop over the whole Parent value, row shape, conflict clause, ordering after id assignment); the "
        "level-2 SELECT is normalised to a conjunctive query and compared, up to alias renaming, with the composition "
        "of two level-1 edges; children()/parents() are evaluated by partitioned dataflow through _relation and "
        "make_query and each generated statement's conjunctive query is compared with the specified join. Does not "
        "decide behaviour under every permutation of lines or 'never its own relative' (data-dependent).")
    sch = schema(ctx)
    r1(ctx, sch)
    r2(ctx, sch)
    r3(ctx)
    r4(ctx, sch)
    r5(ctx, sch)
