"""C02 -- GFF3 hierarchy.

R1  level-1 relation = every Parent value -> this feature (loop over the whole
    attribute value, (parent, f.id, 1), OR IGNORE, after id assignment);
R2  level-2 rows = composition of two level-1 edges (conjunctive-query
    comparison) and the row written is (ancestor, grandchild, 2);
R3  the closure is computed after all lines are in (dominance in every driver);
R4  children/parents are the exact join with the right direction, optional
    level filter, DISTINCT, placeholders bound to (id, level, ...);
R5  projection from `features` only; relation inserts touch only `relations`.
"""
import ast

from .. import sql as S
from ..absint import Sym
from ..builders import interp_for, BoundQuery, FEATURE_COLS
from ..cfg import cfg_of
from ..model import stmt_of, enclosing, norm, parents
from ..util import require_func, execute_sites, calls_in, call_attr, is_name, const_str, kwarg

SPEC_L2 = ("SELECT r2.child FROM relations r1 JOIN relations r2 ON r2.parent = r1.child "
           "WHERE r1.parent = :p AND r1.level = 1 AND r2.level = 1")
SPEC_L2_NOLEVEL = "SELECT r2.child FROM relations r1 JOIN relations r2 ON r2.parent = r1.child WHERE r1.parent = :p"


def schema(ctx):
    return S.schema_from_script(ctx.folder.const("constants", "SCHEMA"))


def insert_columns(stmt, sch):
    cols = stmt.columns or sch.get(stmt.table.lower(), {}).get("columns", [])
    return [c.lower() for c in cols]


def gff_populate(ctx):
    c = ctx.proj.cls("create._GFFDBCreator")
    f = ctx.proj.method(c, "_populate_from_lines")
    ctx.require(f is not None and f.cls is c, "anchor vanished: _GFFDBCreator._populate_from_lines")
    ctx.touch(f)
    return f


def feature_loop(ctx, f):
    """The `for ... in <parameter>` loop of a populate method and the name of
    its feature variable."""
    param = [p for p in f.params if p != "self"]
    ctx.require(param, "%s lost its lines parameter" % f.qual)
    for n in f.node.body:
        for loop in [x for x in ast.walk(n) if isinstance(x, ast.For)]:
            it = loop.iter
            src = it.args[0] if isinstance(it, ast.Call) and is_name(it.func, "enumerate") and it.args else it
            if is_name(src, param[0]):
                tgt = loop.target
                var = tgt.elts[-1] if isinstance(tgt, ast.Tuple) else tgt
                if isinstance(var, ast.Name):
                    return loop, var.id
    ctx.require(False, "no loop over the lines parameter in %s" % f.qual)


def _presence(test, is_attrs):
    """True: the test holds when the Parent attribute is present; False: when it is absent; None: unrelated.
    is_attrs(expr) says whether expr denotes the feature or its attribute mapping."""
    if isinstance(test, ast.UnaryOp) and isinstance(test.op, ast.Not):
        p = _presence(test.operand, is_attrs)
        return None if p is None else not p
    if isinstance(test, ast.Compare) and len(test.ops) == 1 and isinstance(test.ops[0], (ast.In, ast.NotIn)) and const_str(test.left) == "Parent":
        c = test.comparators[0]
        if isinstance(c, ast.Call) and call_attr(c) == "keys":
            c = c.func.value
        if is_attrs(c):
            return isinstance(test.ops[0], ast.In)
    if isinstance(test, ast.Call) and call_attr(test) == "get" and test.args and const_str(test.args[0]) == "Parent" and is_attrs(test.func.value):
        return True
    return None


def r1(ctx, sch):
    """Level-1 relations = {(p, f.id, 1) | f a stored feature, p a value of f's Parent attribute}: decided on value
    provenance (which values reach the bound columns, through helpers and temporaries) and on the loop body's CFG
    (every path on which the feature row was written passes the relation writer or a Parent-absence edge; the id
    is final before the writer)."""
    from ..flow import Flow, show
    from ..util import closure
    from .. import sqlbind
    f = gff_populate(ctx)
    loop, fv = feature_loop(ctx, f)
    pool = closure(ctx, f)
    fl = Flow(ctx, pool)
    lines = [p for p in f.params if p != "self"][0]
    FEATURE = ("elem", ("param", f.qual, lines))
    ATTRS = {("attr", FEATURE, "attributes"), FEATURE}
    PVALUE = {("item", a, "Parent") for a in ATTRS}

    def is_attrs_in(func):
        return lambda e: fl.terms(e, func) <= ATTRS
    sites = [s for s in execute_sites(ctx, pool) if s.stmts and any(st.verb == "INSERT" and st.table.lower() == "relations" for st in s.stmts)]
    ctx.floor("R1", len(sites), 1, "relation INSERT sites reachable from the GFF importer")
    cores = {}   # func qual -> set of CFG node ids through which Parent relations are written
    for s in sites:
        st = s.stmts[0]
        g = s.func
        try:
            rows = sqlbind.bound_rows(s, sch, g)
        except sqlbind.Unbound as e:
            ctx.ob("R1", False, "the relation row's columns are bound to determinable values", node=s.call, func=g, sig="relation insert arguments not determinable: %s" % e)
            continue
        ctx.ob("R1", st.or_clause == "ignore", "first-level relations are inserted OR IGNORE (repeated Parent values are harmless)",
               node=s.call, func=g, sig="relation insert conflict clause: %s" % (st.or_clause or "none"))
        cond = getattr(st, "select", None) is not None and (st.select.where is not None or st.select.source is not None)
        ctx.ob("R1", not cond, "the relation row is written unconditionally (a dangling Parent still creates its relation row)", node=s.call, func=g,
               sig="relation insert is unconditional" if not cond else "relation insert is an INSERT ... SELECT with a condition", nontrivial=False)
        for bind, _loops in rows:
            have = {k for k in bind if isinstance(k, str)}
            ctx.ob("R1", {"parent", "child", "level"} <= have, "the relation row binds (parent, child, level)", node=s.call, func=g,
                   sig="relation insert binds %s" % ",".join(sorted(have)))
            if not {"parent", "child", "level"} <= have:
                continue

            def terms_of(v):
                if isinstance(v, tuple) and v and v[0] == "sql":
                    return {("const", v[1][1])} if v[1][0] in ("num", "str") else {("unknown", S.show(v[1]))}
                return fl.terms(v, g)
            lv, pt, ct = terms_of(bind["level"]), terms_of(bind["parent"]), terms_of(bind["child"])
            ctx.ob("R1", lv == {("const", 1)}, "a Parent attribute creates a level-1 relation", node=s.call, func=g,
                   sig="Parent relation level: %s" % ", ".join(sorted(show(t) for t in lv)))
            okp = bool(pt) and all(t[0] == "elem" and t[1] in PVALUE for t in pt)
            ctx.ob("R1", okp, "the parent column is bound to each value of the feature's whole Parent attribute", node=s.call, func=g,
                   sig="relation parent <- %s" % ", ".join(sorted(show(t) for t in pt)))
            okc = ct == {("attr", FEATURE, "id")}
            ctx.ob("R1", okc, "the child column is bound to this feature's id", node=s.call, func=g,
                   sig="relation child <- %s" % ", ".join(sorted(show(t) for t in ct)))
        # the construct through which the writer is passed: the outermost loop over the Parent values, else the statement
        cfg = cfg_of(g)
        core = stmt_of(s.call)
        for p in parents(s.call):
            if p is g.node:
                break
            if isinstance(p, ast.For) and fl.terms(p.iter, g) <= PVALUE:
                core = p
        cn = cfg.node_for(core) if not isinstance(core, ast.For) else cfg.by_stmt.get(id(core))
        ctx.require(cn is not None, "relation insert has no CFG node")
        if isinstance(core, ast.For):
            # inside the loop over the Parent values every pass reaches the insert
            sn = cfg.node_for(s.call)
            latch = [n.id for n in cfg.nodes if n.kind == "latch" and any(m == cn.id for m, _l in cfg.succ[n.id])]
            seen_, stack_ = set(), [m for m, lab in cfg.succ[cn.id] if lab == "true"]
            skip = False
            while stack_:
                n_ = stack_.pop()
                if n_ in seen_ or n_ == sn.id:
                    continue
                seen_.add(n_)
                if n_ in latch or n_ == cn.id:
                    skip = True
                    break
                for m, lab in cfg.succ[n_]:
                    if lab not in ("exc", "raise"):
                        stack_.append(m)
            ctx.ob("R1", not skip, "every value of the Parent attribute gets its relation row (no pass of the value loop skips the insert)", node=s.call, func=g,
                   sig="every Parent value reaches the insert" if not skip else "a pass of the Parent value loop skips the relation insert")
        cores.setdefault(g.qual, set()).add(cn.id)
    # lift through helpers: a call statement of a function with cores is a core of its caller
    changed = True
    rounds = 0
    while changed and rounds < 6:
        changed = False
        rounds += 1
        for g in pool:
            for c in calls_in(g.node, own=True):
                fs, _d = ctx.proj.resolve_call(c, g)
                if any(h.qual in cores and h.qual != g.qual for h in fs):
                    n_ = cfg_of(g).node_for(c)
                    if n_ is not None and n_.id not in cores.setdefault(g.qual, set()):
                        cores[g.qual].add(n_.id)
                        changed = True
    ctx.ob("R1", f.qual in cores, "the GFF importer's line loop reaches the relation writer", func=f,
           sig="relation writer reachable from the line loop" if f.qual in cores else "line loop never reaches a relation insert")
    if f.qual not in cores:
        return
    by_qual = {g.qual: g for g in pool}

    def bypass_edges(g):
        """(node id, label) of test edges asserting that the feature has no Parent attribute."""
        cfg = cfg_of(g)
        out = set()
        for n in cfg.nodes:
            if n.kind == "test":
                pol = _presence(n.stmt.test, is_attrs_in(g))
                if pol is not None:
                    out.add((n.id, "false" if pol else "true"))
        return out
    # helpers: from entry to exit every path passes the writer or a Parent-absence edge
    for q, ids in cores.items():
        g = by_qual[q]
        if g is f:
            continue
        cfg = cfg_of(g)
        byp = bypass_edges(g)
        seen, stack = set(), [cfg.entry.id]
        leak = False
        while stack:
            n = stack.pop()
            if n in seen or n in ids:
                continue
            seen.add(n)
            if n == cfg.exit.id:
                leak = True
                break
            for m, lab in cfg.succ[n]:
                if (n, lab) in byp or lab == "exc":
                    continue
                stack.append(m)
        ctx.ob("R1", not leak, "in a helper that writes the Parent relations every normal path passes the writer unless the feature has no Parent attribute",
               func=g, sig="%s: writer on every path" % g.name if not leak else "%s: a path returns without writing the relations" % g.name)
    # root: inside the line loop
    cfg = cfg_of(f)
    ids = cores[f.qual]
    ln = cfg.by_stmt.get(id(loop))
    body = set()
    for n in cfg.nodes:
        if n.stmt is not None and n.id != ln.id and any(n.stmt is x for b in loop.body for x in ast.walk(b)):
            body.add(n.id)
    for n in cfg.nodes:
        if n.kind == "latch" and any(m in body for m, _l in cfg.succ[n.id]):
            body.add(n.id)
    inside = [i for i in ids if i in body]
    ctx.ob("R1", bool(inside), "the relation writer runs inside the loop over the lines", func=f,
           sig="relation writer inside the line loop" if inside else "relation writer outside the line loop")
    # statements that write the feature row: direct executes on `features` and calls whose closure contains one
    writers = set()
    feat_sites = [s for s in execute_sites(ctx, pool) if s.stmts and any(st.verb in ("INSERT", "UPDATE", "REPLACE") and st.table.lower() == "features" for st in s.stmts)]
    wfuncs = {s.func.qual for s in feat_sites}
    grow = True
    while grow:
        grow = False
        for g in pool:
            if g.qual in wfuncs:
                continue
            for c in calls_in(g.node, own=True):
                fs, _d = ctx.proj.resolve_call(c, g)
                if any(h.qual in wfuncs for h in fs) and g is not f:
                    wfuncs.add(g.qual)
                    grow = True
                    break
    for s in feat_sites:
        if s.func is f:
            n_ = cfg.node_for(s.call)
            if n_ is not None:
                writers.add(n_.id)
    for c in calls_in(f.node, own=True):
        fs, _d = ctx.proj.resolve_call(c, f)
        if any(h.qual in wfuncs for h in fs):
            n_ = cfg.node_for(c)
            if n_ is not None:
                writers.add(n_.id)
    ctx.floor("R1", len([w for w in writers if w in body]), 1, "feature-row writes in the line loop")
    byp = bypass_edges(f)
    start = [(m, False) for m, lab in cfg.succ[ln.id] if lab == "true"]
    seen, stack = set(), list(start)
    leak = None
    while stack:
        n, written = stack.pop()
        if (n, written) in seen or n in ids:
            continue
        seen.add((n, written))
        if n not in body:
            if written and n != cfg.raise_exit.id:
                leak = n
                break
            continue
        for m, lab in cfg.succ[n]:
            if (n, lab) in byp:
                continue
            stack.append((m, written or (n in writers and lab != "exc")))
    ctx.ob("R1", leak is None, "every pass of the line loop that stored the feature row passes the relation writer (or a Parent-absence edge) before the next line",
           func=f, sig="stored features always reach the relation writer" if leak is None else
           "a path stores the feature row and leaves the iteration without writing its Parent relations")
    # the id is final: assigned before the writer, never changed after it within the iteration
    idops = set()
    idfuncs = set()
    for g in pool:
        if any(isinstance(n, (ast.Assign, ast.AugAssign)) and any(isinstance(t, ast.Attribute) and t.attr == "id" and not is_name(t.value, "self")
                                                                for t in (n.targets if isinstance(n, ast.Assign) else [n.target])) for n in walk_own_(g)):
            idfuncs.add(g.qual)
    for n in cfg.nodes:
        if n.id not in body or n.stmt is None or n.kind != "stmt":
            continue
        st = n.stmt
        if isinstance(st, ast.Assign) and any(isinstance(t, ast.Attribute) and t.attr == "id" and fl.terms(t.value, f) <= {FEATURE} for t in st.targets):
            idops.add(n.id)
            continue
        for c in [x for x in ast.walk(st) if isinstance(x, ast.Call)]:
            fs, _d = ctx.proj.resolve_call(c, f)
            if any(h.qual in idfuncs for h in fs) and any(fl.terms(a, f) <= {FEATURE} for a in list(c.args) + [k.value for k in c.keywords]):
                idops.add(n.id)
    ctx.floor("R1", len(idops), 1, "operations in the line loop that may set the feature's id")
    for core_id in inside:
        dom = any(cfg.dominates(i, core_id) and i != core_id for i in idops)
        ctx.ob("R1", dom, "the id is assigned before the relation row is written", func=f, node=cfg.nodes[core_id].stmt,
               sig="id assignment dominates the relation writer" if dom else "relation writer not dominated by an id assignment")
        after = cfg.reachable(core_id, avoid={ln.id}) & idops
        after.discard(core_id)
        ctx.ob("R1", not after, "the feature's id cannot change after its relation rows were written (collision handling, which may rename it, comes first)",
               func=f, node=cfg.nodes[core_id].stmt,
               sig="no id-affecting operation after the relation writer" if not after else
               "id-affecting operation at line %s follows the relation writer" % min(cfg.nodes[i].lineno for i in after))


def walk_own_(g):
    from ..model import walk_own
    return walk_own(g.node)


def r2(ctx, sch):
    c = ctx.proj.cls("create._GFFDBCreator")
    f = ctx.proj.method(c, "_update_relations")
    ctx.require(f is not None and f.cls is c, "anchor vanished: _GFFDBCreator._update_relations")
    ctx.touch(f)
    from ..util import closure
    pool = closure(ctx, f)
    sites = execute_sites(ctx, pool)
    sel = [s for s in sites if s.stmts and s.stmts[0].verb == "SELECT" and s.stmts[0].tables().count("relations") >= 1
           and "relations" in s.stmts[0].tables()]
    ctx.floor("R2", len(sel), 1, "closure SELECTs over relations in the GFF importer")
    spec = S.to_cq(S.parse(SPEC_L2), sch)
    spec_nolevel = S.to_cq(S.parse(SPEC_L2_NOLEVEL), sch)
    for s in sel:
        try:
            got = S.to_cq(s.stmts[0], sch, {0: "p"})
        except S.SQLError as e:
            ctx.ob("R2", False, "the level-2 SELECT normalises to a conjunctive query", node=s.call, func=f,
                   sig="level-2 SELECT not normalisable: %s" % e)
            continue
        ok = S.cq_equivalent(got, spec)
        if ok:
            sig = "level-2 SELECT ≅ composition of two level-1 edges"
        elif S.cq_equivalent(got, spec_nolevel):
            sig = "level-2 SELECT composes relation rows of any level (no level = 1 on the composed edges)"
        else:
            sig = "level-2 SELECT is not the composition query: " + got.describe()
        ctx.ob("R2", ok, "grandchildren of $p = { R2.child | R1.parent=$p, R1.level=1, R2.parent=R1.child, R2.level=1 }",
               node=s.call, func=f, sig=sig,
               detail=None if ok else "composing rows of every level invents relations when level-2 rows already exist "
                                      "(FeatureDB.update on a database with a depth-3 chain)")
    _r2_rowflow(ctx, f, pool, sites, sel, sch)


def _find(term, pred):
    """First sub-term satisfying pred (pre-order)."""
    is_term = isinstance(term, tuple) and term and isinstance(term[0], str)
    if is_term and pred(term):
        return term
    if isinstance(term, tuple):
        for x in (term[1:] if is_term else term):
            if isinstance(x, tuple):
                r = _find(x, pred)
                if r is not None:
                    return r
    return None


def _r2_rowflow(ctx, f, pool, sites, sel, sch):
    """The pairs (feature id, grandchild id) computed by the level-2 SELECT reach the level-2 INSERT as
    (parent, child, 2): decided on value provenance -- what the writer joins into a line, how the reader splits it,
    and which columns the split fields are bound to -- whatever names, tuple unpackings or row containers are used."""
    from ..flow import Flow, show
    from .. import sqlbind
    fl = Flow(ctx, pool)
    ins = [s for s in sites if s.stmts and s.stmts[0].verb == "INSERT" and s.stmts[0].table.lower() == "relations"]
    ctx.floor("R2", len(ins), 1, "level-2 INSERT sites")
    # ---- the driver: $p of the level-2 SELECT is column 0 of each row of `SELECT id FROM features`
    idsel = [x for x in sites if x.stmts and x.stmts[0].verb == "SELECT" and x.stmts[0].tables() == ["features"]
             and len(x.stmts[0].cols) == 1 and x.stmts[0].cols[0][0][0] == "col" and x.stmts[0].cols[0][0][2].lower() == "id"
             and x.stmts[0].where is None]
    key_of = lambda x: ("row", (x.func.qual, x.call.lineno, x.call.col_offset))
    id_rows = {key_of(x) for x in idsel}
    for s in sel:
        pt = fl.terms(s.params, s.func) if s.params is not None else set()
        # the whole row of the id query, or a 1-tuple of its first column
        ok = bool(pt) and all(
            t in id_rows or (t[0] == "op" and t[1] in ("tuple", "list") and len(t) == 3 and t[2][0] == "pos" and t[2][2] == 0 and t[2][1] in id_rows)
            for t in pt)
        ctx.ob("R2", ok and len(idsel) >= 1, "the closure is computed for every stored feature id", node=s.call, func=s.func,
               sig="closure driven by SELECT id FROM features" if ok and idsel else "closure not driven by every feature id (bound to %s)" % ", ".join(sorted(show(t) for t in pt)))
    ID0 = {("pos", r, 0) for r in id_rows}
    GC0 = {("pos", key_of(s), 0) for s in sel}
    # ---- the writer: one line per pair, <feature id> SEP <grandchild id>
    writes = [(g, c) for g in pool for c in calls_in(g.node) if call_attr(c) == "write" and c.args]
    ctx.floor("R2", len(writes), 1, "writes of closure pairs")
    seps = set()
    handles = set()
    for g, w in writes:
        ts = fl.terms(w.args[0], g)
        joins = [_find(t, lambda x: isinstance(x, tuple) and x[0] == "call" and x[1] == "join" and x[2] is not None and x[2][0] == "const") for t in ts]
        ok = bool(joins) and all(j is not None and len(j[3]) == 1 and j[3][0][0] == "op" and j[3][0][1] in ("tuple", "list") and len(j[3][0]) == 4 and
                                 j[3][0][2] in ID0 and j[3][0][3] in GC0 for j in joins)
        ctx.ob("R2", ok, "each closure line is (feature id, grandchild id)", node=w, func=g,
               sig="closure line fields (feature id, grandchild id)" if ok else "closure line is %s" % ", ".join(sorted(show(t) for t in ts)))
        for j in joins:
            if j is not None:
                seps.add(j[2][1])
        handles |= fl.terms(w.func.value, g)
    # ---- the reader and the insert
    for s in ins:
        st = s.stmts[0]
        ctx.ob("R2", st.or_clause == "ignore", "level-2 rows are inserted OR IGNORE", node=s.call, func=s.func, sig="level-2 insert conflict clause: %s" % (st.or_clause or "none"))
        try:
            rows = sqlbind.bound_rows(s, sch, s.func)
        except sqlbind.Unbound as e:
            ctx.ob("R2", False, "the level-2 row's columns are bound to determinable values", node=s.call, func=s.func, sig="level-2 insert arguments not determinable: %s" % e)
            continue
        for bind, loops in rows:
            g = s.func
            for kind, who in loops:
                if kind == "gen":
                    g = who
                    ctx.touch(g)
            have = {k for k in bind if isinstance(k, str)}
            if not {"parent", "child", "level"} <= have:
                ctx.ob("R2", False, "the level-2 row binds (parent, child, level)", node=s.call, func=g, sig="level-2 insert binds %s" % ",".join(sorted(have)))
                continue

            def terms_of(v):
                if isinstance(v, tuple) and v and v[0] == "sql":
                    return {("const", v[1][1])} if v[1][0] in ("num", "str") else {("unknown", S.show(v[1]))}
                return fl.terms(v, g)
            pt, ct, lt = terms_of(bind["parent"]), terms_of(bind["child"]), terms_of(bind["level"])
            okl = lt == {("const", 2)}
            ctx.ob("R2", okl, "composed rows are stored at level 2", node=s.call, func=g, sig="closure reader level=%s" % ", ".join(sorted(show(t) for t in lt)))

            def field(ts, i):
                """every term is position i of a split of a line of the file; returns the split terms"""
                out = set()
                for t in ts:
                    if not (t[0] == "pos" and t[2] == i and t[1][0] == "call" and t[1][1] in ("split", "rsplit")):
                        return None
                    out.add(t[1])
                return out
            sp, sc = field(pt, 0), field(ct, 1)
            ok = sp is not None and sc is not None and sp == sc and len(sp) == 1
            ctx.ob("R2", ok, "the reader maps field 1 to parent and field 2 to child", node=s.call, func=g,
                   sig="closure reader row parent=field 1, child=field 2" if ok else "closure reader row parent=%s child=%s" % (
                       ", ".join(sorted(show(t) for t in pt)), ", ".join(sorted(show(t) for t in ct))))
            if ok:
                sp_ = next(iter(sp))
                rsep = sp_[3][0][1] if sp_[3] and sp_[3][0][0] == "const" else None
                ctx.ob("R2", rsep in seps and len(seps) == 1, "writer and reader agree on the field separator", node=s.call, func=g,
                       sig="closure file separator %r / %r" % (sorted(seps), rsep), nontrivial=False)
                # the line read comes from the file the writer wrote
                opened = _find(sp_, lambda x: isinstance(x, tuple) and x[0] == "call" and x[1] in ("open", "io.open", "os.fdopen"))
                same = False
                if opened is not None and opened[3]:
                    rp = opened[3][0]
                    for h in handles:
                        hcall = _find(h, lambda x: isinstance(x, tuple) and x[0] == "call")
                        wp = hcall[3][0] if hcall is not None and hcall[3] else None
                        if rp == wp or rp == ("attr", h, "name") or (rp[0] == "pos" and wp is not None and wp[0] == "pos" and rp[1] == wp[1]) or \
                                (hcall is not None and rp == ("attr", hcall, "name")):
                            same = True
                ctx.ob("R2", same, "the reader reads the file the closure pairs were written to", node=s.call, func=g,
                       sig="closure reader opens the writer's file" if same else "closure reader opens %s" % (show(opened) if opened else "nothing recognisable"), nontrivial=False)


def r3(ctx):
    """The drivers evaluated on the model database: create() and FeatureDB.update() must leave the two-level Parent graph,
    which they do only if second-level relations are computed after all lines are stored."""
    from . import scen
    cr = require_func(ctx, "create._DBCreator.create")
    lines = scen.gff_lines()[::-1]          # children before parents
    im, t = scen.run_create(ctx, "_GFFDBCreator", lines)
    ids = [f.attrs["id"] for f in lines]
    want = scen.expected_relations(lines, ids)
    got = set(im.table("relations")) if t.result[0] == "return" else None
    ctx.ob("R3", got == want, "create(): second-level relations are computed after all lines are imported (children-first file)", func=cr,
           sig="create(): closure after population" if got == want else "create(): %s" % (str(t.result[:3]) if got is None else "missing %s unexpected %s" % (sorted(want - got)[:3], sorted(got - want)[:3])))
    up = require_func(ctx, "interface.FeatureDB.update")
    if got is None:
        return
    it, me, conn, t0 = scen.open_feature_db(ctx, im.db)
    if not scen.returned(ctx, t0, "FeatureDB(dbfn) on the created database", func=up, rule="R3"):
        return
    more = [scen.feature("N2", "match_part", 10, 20, {"ID": ["p2"], "Parent": ["e9"]}), scen.feature("N1", "exon", 460, 480, {"ID": ["e9"], "Parent": ["t1"]})]
    t = scen.call_method(ctx, it, me, "interface.FeatureDB.update", data=list(more), make_backup=False)
    allf = lines + more
    want = scen.expected_relations(allf, [f.attrs["id"] for f in allf])
    got = set(im.db.rows("relations")) if t.result[0] == "return" else None
    ctx.ob("R3", got == want, "update(): second-level relations are computed after all new lines are imported (child line before its parent line)", func=up,
           sig="update(): closure after population" if got == want else "update(): %s" % (str(t.result[:3]) if got is None else "missing %s unexpected %s" % (sorted(want - got)[:3], sorted(got - want)[:3])))


def r4(ctx, sch):
    it = interp_for(ctx)
    proj_cols = ", ".join("features." + c for c in FEATURE_COLS) + ", features.rowid"
    for meth, join_on, join_to in (("children", "child", "parent"), ("parents", "parent", "child")):
        f = require_func(ctx, "interface.FeatureDB." + meth)
        for idname, idv in (("str", Sym("id", "str")), ("Feature", Sym("F", "Feature"))):
            for level in (None, Sym("level", "int")):
                for ft in (None, Sym("ft", "str")):
                    label = "%s(id=%s, level=%s, featuretype=%s)" % (meth, idname, "given" if level is not None else None,
                                                                   "str" if ft is not None else None)
                    for t in it.run(f, dict(id=idv, level=level, featuretype=ft)):
                        ex = t.executes()
                        if t.result[0] == "raise" or len(ex) != 1:
                            ctx.ob("R4", False, "%s builds one statement" % meth, func=f,
                                   sig="%s: %s" % (meth, "raises %s" % t.result[1] if t.result[0] == "raise" else "%d statements" % len(ex)),
                                   detail=label)
                            continue
                        bq = BoundQuery(ex[0][1], ex[0][2])
                        if bq.problems:
                            ctx.ob("R4", False, "%s statement parses and binds" % meth, func=f,
                                   sig="%s: %s" % (meth, bq.problems[0].split("::")[0]), detail=label)
                            continue
                        spec_sql = "SELECT DISTINCT %s FROM features JOIN relations ON relations.%s = features.id WHERE relations.%s = :id" % (
                            proj_cols, join_on, join_to)
                        if level is not None:
                            spec_sql += " AND relations.level = :level"
                        if ft is not None:
                            spec_sql += " AND features.featuretype = :ft"
                        spec = S.to_cq(S.parse(spec_sql), sch)
                        names = {}
                        for i, n in bq.binding.items():
                            names[i] = {"F.id": "id"}.get(n, n) if isinstance(n, str) else repr(n)
                        try:
                            got = S.to_cq(bq.stmt, sch, names)
                        except S.SQLError as e:
                            ctx.ob("R4", False, "%s statement normalises" % meth, func=f, sig="%s: %s" % (meth, e), detail=label)
                            continue
                        eq = S.cq_equivalent(got, spec)
                        ctx.ob("R4", eq,
                               "%s(x) = features F joined with relations R on R.%s = F.id where R.%s = x%s%s" % (
                                   meth, join_on, join_to, ", R.level = level" if level is not None else "",
                                   ", F.featuretype = ft" if ft is not None else ""),
                               func=f,
                               sig="%s level=%s ft=%s: %s" % (meth, level is not None, ft is not None,
                                                             "exact join" if eq else "not the specified join: " + got.describe()),
                               detail=label if eq else label + " :: expected " + spec.describe())
                        ctx.ob("R4", bq.stmt.distinct, "%s returns each feature once (SELECT DISTINCT)" % meth, func=f,
                               sig="%s DISTINCT" % meth if bq.stmt.distinct else "%s without DISTINCT" % meth, nontrivial=False)
                        if idname == "Feature":
                            ok = "F.id" in [n for n in bq.binding.values()]
                            ctx.ob("R4", ok, "a Feature argument is replaced by its id", func=f,
                                   sig="%s Feature -> id" % meth if ok else "%s binds %r for a Feature argument" % (meth, list(bq.binding.values())),
                                   nontrivial=False)


def r5(ctx, sch):
    f = gff_populate(ctx)
    c = ctx.proj.cls("create._GFFDBCreator")
    pool = [f, ctx.proj.method(c, "_update_relations")]
    for s in execute_sites(ctx, [x for x in pool if x is not None]):
        if not s.stmts:
            continue
        for st in s.stmts:
            if st.verb in ("INSERT", "UPDATE", "DELETE") and st.table.lower() not in ("features", "relations"):
                ctx.ob("R5", False, "the GFF importer's row writes touch only features and relations", node=s.call, func=s.func,
                       sig="%s into %s in %s" % (st.verb, st.table, s.func.name))
    ctx.ob("R5", True, "a dangling Parent creates a relation row only; query projections come from `features` (checked by R4's "
           "conjunctive-query comparison)", func=f, sig="dangling parent: relation row only", nontrivial=False)


def check(ctx):
    ctx.explanation = (
        "The GFF3 importer's own methods (_populate_from_lines, then _update_relations) are evaluated by the abstract evaluator against a model "
        "database (a relational evaluator for the SQL subset used, an in-memory file system for the intermediate file): for a 9-line annotation "
        "graph (depth 4, shared child, repeated and dangling Parent values, a line without ID) in several line orders -- all permutations of six "
        "lines in the thorough tier -- and for a second import into the filled database, the relations table must equal the Parent graph two "
        "levels deep. gffutils and sqlite3 are not imported or run; helper extraction, handler tables, generators or named placeholders in the "
        "importer do not matter to the result. The pipeline order and the query side (children()/parents() through _relation and make_query: each "
        "generated statement's conjunctive query compared with the specified join) are decided as before. Does not decide 'for every graph'.")
    sch = schema(ctx)
    r_scenario(ctx)
    r3(ctx)
    r4(ctx, sch)
    r5(ctx, sch)


# ------------------------------------------------------------------------------------------------ scenario rules
def r_scenario(ctx):
    """The GFF3 importer (_populate_from_lines, then _update_relations) evaluated against the model database on a small
    annotation graph, in several line orders: the relations table equals the Parent graph two levels deep, and nothing else."""
    import itertools
    import random
    from . import scen
    base = scen.gff_lines()
    orders = [list(range(len(base))), list(range(len(base)))[::-1]]
    rnd = random.Random(20240229)
    for _ in range(4 if ctx.tier == "quick" else 40):
        o = list(range(len(base)))
        rnd.shuffle(o)
        orders.append(o)
    if ctx.tier == "thorough":
        six = [0, 1, 2, 3, 4, 5]
        orders += [list(p) + [6, 7, 8] for p in itertools.permutations(six)]
    fn = require_func(ctx, "create._GFFDBCreator._update_relations")
    fp = require_func(ctx, "create._GFFDBCreator._populate_from_lines")
    bad1 = bad2 = badf = None
    n = 0
    for o in orders:
        lines = [scen.feature(f.name, f.attrs["featuretype"], f.attrs["start"], f.attrs["end"], f.attrs["attributes"], strand=f.attrs["strand"]) for f in (base[i] for i in o)]
        im = scen.run_gff(ctx, lines)
        n += 1
        ids = [f.attrs["id"] for f in lines]
        want = scen.expected_relations(lines, ids)
        got = im.table("relations")
        gs = set(got)
        label = "line order %s" % "".join(str(i + 1) for i in o)
        if bad1 is None:
            w1, g1 = {r for r in want if r[2] == 1}, {r for r in gs if r[2] == 1}
            if w1 != g1 or len(got) != len(gs):
                bad1 = "%s: missing %s, unexpected %s%s" % (label, sorted(w1 - g1)[:4], sorted(g1 - w1)[:4], ", duplicate rows" if len(got) != len(gs) else "")
        if bad2 is None:
            w2, g2 = {r for r in want if r[2] != 1}, {r for r in gs if r[2] != 1}
            if w2 != g2:
                bad2 = "%s: missing %s, unexpected %s" % (label, sorted(w2 - g2)[:4], sorted(g2 - w2)[:4])
        if badf is None:
            stored = [r[0] for r in im.table("features", ["id"])]
            if sorted(stored, key=str) != sorted(ids, key=str) or any(p == "nowhere" for p in stored):
                badf = "%s: stored ids %s for lines with ids %s" % (label, stored, ids)
    # a second import into the filled database (what update() does): the closure is still two levels deep -- the stored
    # level-2 rows are not composed again
    lines = scen.gff_lines()
    im = scen.run_gff(ctx, lines)
    more = [scen.feature("N1", "exon", 460, 480, {"ID": ["e9"], "Parent": ["t1"]}), scen.feature("N2", "match_part", 10, 20, {"ID": ["p2"], "Parent": ["e1"]})]
    im2 = scen.Import(ctx, "_GFFDBCreator", db=im.db)
    im2.call("_populate_from_lines", lines=list(more))
    im2.call("_update_relations")
    allf = lines + more
    want = scen.expected_relations(allf, [f.attrs["id"] for f in allf])
    got = set(im2.table("relations"))
    ok = got == want and len(im2.table("relations")) == len(got)
    ctx.ob("R2", ok, "importing more lines into a filled database (as update() does) leaves exactly the two-level Parent graph of all lines: stored level-2 rows are "
           "not composed a second time", func=fn,
           sig="relations after a second import equal the two-level graph" if ok else "after a second import: missing %s, unexpected %s" % (sorted(want - got)[:4], sorted(got - want)[:4]))
    ctx.floor("R1", n, 6, "line orders of the GFF3 family evaluated")
    ctx.ob("R1", bad1 is None, "level-1 relations are exactly the (Parent value, feature id) pairs of the file, once each -- also for children before parents, shared "
           "children, a repeated Parent value and a Parent naming no feature (%d line orders of a 9-line graph)" % n, func=fp,
           sig="level-1 relations equal the Parent graph" if bad1 is None else "level-1 relations differ: %s" % bad1)
    ctx.ob("R2", bad2 is None, "level-2 relations are exactly the compositions of two level-1 edges (depth-4 graph: nothing deeper), whatever the line order", func=fn,
           sig="level-2 relations equal the composed Parent graph" if bad2 is None else "level-2 relations differ: %s" % bad2)
    ctx.ob("R1", badf is None, "a Parent value naming no stored feature creates no feature and no error", func=fp,
           sig="no phantom feature" if badf is None else badf, nontrivial=False)
