"""C13 -- input forms, peeking, transform, inspect."""
import ast

from ..cfg import cfg_of
from ..model import norm, parents, enclosing
from ..util import require_func, calls_in, call_attr, is_name, const_str, kwarg, guards_of

KINDS = [
    # label, atoms
    ("a DataIterator/_BaseIterator", dict(base=True, isstr=False, fdb=False)),
    ("a string with from_string=True", dict(base=False, isstr=True, from_string=True, exists=False, url=False, fdb=False)),
    ("a path of an existing file", dict(base=False, isstr=True, from_string=False, exists=True, url=False, fdb=False)),
    ("a URL", dict(base=False, isstr=True, from_string=False, exists=False, url=True, fdb=False)),
    ("a string that is neither", dict(base=False, isstr=True, from_string=False, exists=False, url=False, fdb=False)),
    ("a FeatureDB", dict(base=False, isstr=False, fdb=True)),
    ("an iterable of Features", dict(base=False, isstr=False, fdb=False)),
]
WANT = ["return data", "_FileIterator(temp file)", "_FileIterator", "_UrlIterator", "raise ValueError",
        "_FeatureIterator(all_features)", "_FeatureIterator"]


class _Stop(Exception):
    pass


def _atom(test, atoms, ctx, func):
    t = norm(test)
    if isinstance(test, ast.Call) and is_name(test.func, "isinstance") and len(test.args) == 2 and is_name(test.args[0], "data"):
        cls = norm(test.args[1])
        if cls == "_BaseIterator":
            return atoms["base"]
        if cls == "str":
            return atoms["isstr"]
        if cls == "FeatureDB":
            return atoms["fdb"]
        if cls.startswith("("):
            names = [norm(e) for e in test.args[1].elts]
            # a tuple of iterator classes stands for _BaseIterator only if it lists every subclass
            base = ctx.proj.cls("iterators._BaseIterator")
            subs = {c.name for c in ctx.proj.subclasses(base)}
            concrete = {c.name for c in ctx.proj.subclasses(base, strict=True)}
            # a listed class covers its own subclasses
            covered = set()
            for c in ctx.proj.subclasses(base):
                if c.name in names:
                    covered |= {k.name for k in ctx.proj.subclasses(c)}
            if set(names) <= subs:
                if concrete <= covered or "_BaseIterator" in names:
                    return atoms["base"]
                raise _Stop("isinstance test lists %s but misses iterator classes %s" % (names, sorted(concrete - covered)))
        raise _Stop("unmodelled isinstance test %s" % t)
    if isinstance(test, ast.Name) and test.id == "from_string":
        return atoms.get("from_string", False)
    if t == "os.path.exists(data)":
        return atoms.get("exists", False)
    if t == "is_url(data)":
        return atoms.get("url", False)
    if isinstance(test, ast.BoolOp):
        vals = [_atom(v, atoms, ctx, func) for v in test.values]
        return all(vals) if isinstance(test.op, ast.And) else any(vals)
    if isinstance(test, ast.UnaryOp) and isinstance(test.op, ast.Not):
        return not _atom(test.operand, atoms, ctx, func)
    raise _Stop("unmodelled dispatch test %s" % t)


def _walk(stmts, atoms, state, ctx, func):
    for st in stmts:
        if isinstance(st, ast.Expr) and isinstance(st.value, ast.Constant):
            continue
        if isinstance(st, ast.If):
            # `if isinstance(data, str): data = data.encode()` inside the from_string block re-tests the dedented text
            if state.get("tmp") and norm(st.test) == "isinstance(data, str)":
                continue
            if _atom(st.test, atoms, ctx, func):
                r = _walk(st.body, atoms, state, ctx, func)
            else:
                r = _walk(st.orelse, atoms, state, ctx, func)
            if r is not None:
                return r
            continue
        if isinstance(st, ast.Try):
            r = _walk(st.body + st.orelse + st.finalbody, atoms, state, ctx, func)
            if r is not None:
                return r
            continue
        if isinstance(st, ast.Return):
            v = st.value
            if isinstance(v, ast.Name) and v.id in state.get("made", {}):
                v = state["made"][v.id]
            if isinstance(v, ast.Name):
                return "return " + v.id
            if isinstance(v, ast.Call):
                name = norm(v.func)
                if state.get("tmpdata"):
                    return "%s(temp file)" % name
                if state.get("allfeatures"):
                    return "%s(all_features)" % name
                return name
            return "return " + norm(v)
        if isinstance(st, ast.Raise):
            return "raise " + (norm(st.exc.func) if isinstance(st.exc, ast.Call) else norm(st.exc))
        if isinstance(st, ast.Assign):
            tgt = norm(st.targets[0])
            val = norm(st.value)
            if "NamedTemporaryFile" in val or "mkstemp" in val:
                state["tmp"] = tgt
            elif isinstance(st.value, ast.Call) and isinstance(st.targets[0], ast.Name) and isinstance(st.value.func, ast.Name):
                state.setdefault("made", {})[tgt] = st.value
            if tgt == "_kwargs['data']":
                if state.get("tmp") and val.startswith(state["tmp"]):
                    state["tmpdata"] = True
                if val == "data.all_features()":
                    state["allfeatures"] = True
    return None


def r1(ctx):
    f = require_func(ctx, "iterators.DataIterator")
    for (label, atoms), want in zip(KINDS, WANT):
        try:
            got = _walk(f.node.body, atoms, {}, ctx, f)
        except _Stop as e:
            ctx.ob("R1", False, "DataIterator dispatches %s to %s" % (label, want), func=f, sig="dispatch of %s: %s" % (label, e))
            continue
        ctx.ob("R1", got == want, "DataIterator given %s: %s" % (label, want), func=f, sig="dispatch of %s -> %s" % (label, got))
    # every kind is wrapped with the same keyword set
    kw = [n for n in ast.walk(f.node) if isinstance(n, ast.Assign) and is_name(n.targets[0], "_kwargs") and isinstance(n.value, ast.Call)]
    ok = bool(kw) and {k.arg for k in kw[0].value.keywords} >= {"data", "checklines", "transform", "force_dialect_check", None}
    ctx.ob("R1", ok, "all input forms are wrapped with the same checklines/transform/dialect settings", func=f,
           sig="_kwargs carries %s" % (sorted(str(k.arg) for k in kw[0].value.keywords) if kw else None))
    # only the base class yields to consumers
    base = ctx.proj.cls("iterators._BaseIterator")
    iters = [c.qual for c in ctx.proj.subclasses(base) if "__iter__" in c.methods]
    ctx.ob("R1", iters == [base.qual], "there is one common iteration path (__iter__ of the base class only)", func=base.methods.get("__iter__"),
           sig="__iter__ defined in %s" % iters)


def r2(ctx):
    pk = require_func(ctx, "iterators._FeatureIterator.peek")
    cfg = cfg_of(pk)
    loops = [n for n in ast.walk(pk.node) if isinstance(n, ast.For)]
    if not loops:
        return _r2_islice(ctx, pk, cfg)
    loop = loops[0]
    src = loop.iter.args[0] if isinstance(loop.iter, ast.Call) and is_name(loop.iter.func, "enumerate") else loop.iter
    islice = isinstance(src, ast.Call) and call_attr(src) == "islice"
    if islice:
        src = src.args[0]
    ctx.ob("R2", norm(src) == "self.data", "peeking draws from the data source itself", node=loop, func=pk, sig="peek iterates %s" % norm(src))
    item = loop.target.elts[-1].id if isinstance(loop.target, ast.Tuple) else loop.target.id
    apps = [c for c in calls_in(pk.node) if call_attr(c) == "append" and loop in list(parents(c)) and c.args and is_name(c.args[0], item)]
    ctx.ob("R2", len(apps) == 1, "every item taken while peeking is kept", node=loop, func=pk, sig="%d append(s) of the peeked item" % len(apps))
    if apps:
        look = norm(apps[0].func.value)
        an = cfg.node_for(apps[0]).id
        for b in [n for n in ast.walk(loop) if isinstance(n, (ast.Break, ast.Continue, ast.Return))]:
            ok = cfg.dominates(an, cfg.node_for(b).id)
            ctx.ob("R2", ok, "the item is kept before the loop can be left or continued", node=b, func=pk,
                   sig="append dominates %s" % type(b).__name__.lower() if ok else "%s before the peeked item is kept" % type(b).__name__.lower())
        head = cfg.node_for(loop).id
        first = [t for t, l in cfg.succ[head] if l == "true"]
        bypass = any(head in cfg.reachable(t, avoid={an}, include_start=True) for t in first if t != an)
        ctx.ob("R2", not bypass, "no pass through the peek loop drops its item", node=loop, func=pk,
               sig="append on every pass" if not bypass else "a pass through the peek loop skips the append")
        re = [n for n in ast.walk(pk.node) if isinstance(n, ast.Assign) and norm(n.targets[0]) == "self.data"]
        ok = len(re) == 1 and isinstance(re[0].value, ast.Call) and norm(re[0].value.func) in ("itertools.chain", "chain") and \
            [norm(a) for a in re[0].value.args] == [look, "self.data"]
        ctx.ob("R2", ok, "peeked items are chained back in front of the rest, in order", func=pk,
               sig="self.data := %s" % (norm(re[0].value) if re else "not re-chained"))
        if re:
            g = [norm(t) for t, pol in guards_of(re[0], pk.node) if pol]
            okg = g in ([], ["hasattr(self.data, '__next__')"])
            ctx.ob("R2", okg, "re-chaining happens for every one-shot source (anything with __next__)", node=re[0], func=pk, sig="re-chain guard %s" % g)
            rets = [n for n in ast.walk(pk.node) if isinstance(n, ast.Return)]
            okr = all(cfg.node_for(r).id in cfg.reachable(cfg.node_for(loop).id) for r in rets) and all(norm(r.value) == look for r in rets)
            okd = all(not (cfg.node_for(re[0]).id not in cfg.reachable(cfg.entry.id, avoid={cfg.node_for(r).id}) ) for r in rets)
            ctx.ob("R2", okr, "peek returns the look-ahead list", func=pk, sig="peek returns %s" % [norm(r.value) for r in rets], nontrivial=False)
    fpk = require_func(ctx, "iterators._FileIterator.peek")
    loops = [n for n in ast.walk(fpk.node) if isinstance(n, ast.For)]
    src = None
    if loops:
        src = loops[0].iter.args[0] if isinstance(loops[0].iter, ast.Call) and is_name(loops[0].iter.func, "enumerate") else loops[0].iter
    ok = src is not None and norm(src) == "self._custom_iter()"
    ctx.ob("R2", ok, "peeking a file re-opens it (a fresh _custom_iter()), so iteration later starts from the first line", func=fpk,
           sig="file peek iterates %s" % (norm(src) if src is not None else None))
    stores = [n for n in ast.walk(fpk.node) if isinstance(n, ast.Assign) and norm(n.targets[0]).startswith("self.data")]
    ctx.ob("R2", not stores, "peeking a file does not touch the data source", func=fpk, sig="file peek stores %s" % [norm(s) for s in stores], nontrivial=False)


def _r2_islice(ctx, pk, cfg):
    """peek written as  look = list(itertools.islice(self.data, k))  + re-chain."""
    tk = [n for n in ast.walk(pk.node) if isinstance(n, ast.Assign) and isinstance(n.targets[0], ast.Name) and isinstance(n.value, ast.Call)
          and is_name(n.value.func, "list") and n.value.args and isinstance(n.value.args[0], ast.Call) and call_attr(n.value.args[0]) == "islice"]
    ctx.require(len(tk) == 1, "_FeatureIterator.peek neither loops over its data nor takes an islice of it")
    look = tk[0].targets[0].id
    sl = tk[0].value.args[0]
    ok = sl.args and norm(sl.args[0]) == "self.data" and len(sl.args) == 2
    ctx.ob("R2", ok, "peeking draws a bounded prefix from the data source itself, keeping every item drawn", node=tk[0], func=pk,
           sig="peek takes %s" % norm(sl))
    re = [n for n in ast.walk(pk.node) if isinstance(n, ast.Assign) and norm(n.targets[0]) == "self.data"]
    ok = len(re) == 1 and isinstance(re[0].value, ast.Call) and norm(re[0].value.func) in ("itertools.chain", "chain") and \
        [norm(a) for a in re[0].value.args] == [look, "self.data"] and cfg.node_for(re[0]).id in cfg.reachable(cfg.node_for(tk[0]).id)
    ctx.ob("R2", ok, "peeked items are chained back in front of the rest, in order", func=pk, sig="self.data := %s" % (norm(re[0].value) if re else "not re-chained"))
    if re:
        g = [norm(t) for t, pol in guards_of(re[0], pk.node) if pol]
        ctx.ob("R2", g in ([], ["hasattr(self.data, '__next__')"]), "re-chaining happens for every one-shot source", node=re[0], func=pk, sig="re-chain guard %s" % g)
    rets = [n for n in ast.walk(pk.node) if isinstance(n, ast.Return)]
    ctx.ob("R2", bool(rets) and all(norm(r.value) == look for r in rets), "peek returns the look-ahead list", func=pk, sig="peek returns %s" % [norm(r.value) for r in rets], nontrivial=False)
    fpk = require_func(ctx, "iterators._FileIterator.peek")
    loops = [n for n in ast.walk(fpk.node) if isinstance(n, ast.For)]
    src = None
    if loops:
        src = loops[0].iter.args[0] if isinstance(loops[0].iter, ast.Call) and is_name(loops[0].iter.func, "enumerate") else loops[0].iter
    ok = src is not None and norm(src) == "self._custom_iter()"
    ctx.ob("R2", ok, "peeking a file re-opens it (a fresh _custom_iter())", func=fpk, sig="file peek iterates %s" % (norm(src) if src is not None else None))


def r3(ctx):
    it = require_func(ctx, "iterators._BaseIterator.__iter__")
    sites = []
    for f in ctx.proj.funcs_in_module("iterators"):
        for c in calls_in(f.node):
            if norm(c.func) == "self.transform":
                sites.append((f, c))
    ctx.ob("R3", len(sites) == 1 and sites[0][0] is it, "the transform is applied at exactly one site, in the common iteration path", func=it,
           sig="transform called in %s" % sorted(f.qual.split(".", 1)[1] for f, _ in sites))
    # every other use of the transform value may only store or forward it
    for f in ctx.proj.funcs_in_module("iterators") + [ctx.proj.func("create.create_db"), ctx.proj.func("create._DBCreator.__init__")]:
        for n in ast.walk(f.node):
            use = None
            if isinstance(n, ast.Name) and n.id == "transform" and isinstance(n.ctx, ast.Load):
                use = n
            elif isinstance(n, ast.Attribute) and n.attr == "transform" and isinstance(n.ctx, ast.Load) and is_name(n.value, "self"):
                use = n
            if use is None:
                continue
            par = use._parent
            applied = False
            if isinstance(par, ast.Call) and par.func is use:
                applied = f is not it            # called somewhere else than the one site
            elif isinstance(par, ast.Call) and any(a is use for a in par.args):
                applied = True                   # handed to map()/filter()/a helper as a positional argument
            elif isinstance(par, ast.Starred):
                applied = True
            ok = not applied
            ctx.ob("R3", ok, "outside the common iteration path the transform is only stored or forwarded, never applied", node=use, func=f,
                   sig="%s: transform stored/forwarded" % f.name if ok else "%s uses the transform: %s" % (f.name, norm(getattr(par, "_parent", par)) [:70]), nontrivial=False)
    if not sites or sites[0][0] is not it:
        return
    f, c = sites[0]
    cfg = cfg_of(it)
    loops = [n for n in ast.walk(it.node) if isinstance(n, ast.For)]
    ctx.require(len(loops) == 1, "__iter__ no longer has a single loop")
    loop = loops[0]
    item = loop.target.id
    inner = [p for p in parents(c) if isinstance(p, (ast.For, ast.While))]
    ok = inner == [loop] and len(c.args) == 1 and is_name(c.args[0], item)
    ctx.ob("R3", ok, "the transform is called once per item, with the item", node=c, func=it, sig="transform call %s in %d loop(s)" % (norm(c), len(inner)))
    asg = None
    for p in parents(c):
        if isinstance(p, ast.Assign):
            asg = p
            break
    res = asg.targets[0].id if asg is not None and isinstance(asg.targets[0], ast.Name) else None
    ctx.ob("R3", res is not None, "the transform's result replaces the item", node=c, func=it, sig="transform result bound to %s" % res, nontrivial=False)
    ys = [n for n in ast.walk(loop) if isinstance(n, ast.Yield)]
    ctx.floor("R3", len(ys), 1, "yields in __iter__")
    tn = cfg.node_for(c).id
    for y in ys:
        yn = cfg.node_for(y)
        after = yn.id in cfg.reachable(tn) and not (tn in cfg.reachable(yn.id, avoid={cfg.node_for(loop).id}))
        g = [(norm(t), pol) for t, pol in guards_of(y, it.node)]
        if after and any(t == "self.transform" and pol for t, pol in g):
            ok = (res, True) in g and norm(y.value) == res
            ctx.ob("R3", ok, "a transformed item is yielded exactly when the transform's result is true", node=y, func=it,
                   sig="transformed yield guarded by %s" % [t for t, p in g if t != "self.transform"])
        else:
            ok = g == [("self.transform", False)] and norm(y.value) == item
            ctx.ob("R3", ok, "without a transform every item is yielded", node=y, func=it, sig="plain yield guarded by %s" % g)
    # nothing else skips: the loop body has no continue/break/return
    jumps = [n for n in ast.walk(loop) if isinstance(n, (ast.Continue, ast.Break, ast.Return))]
    ctx.ob("R3", not jumps, "only a false transform result skips an item", node=loop, func=it,
           sig="no other skip in __iter__" if not jumps else "%s in the iteration loop" % type(jumps[0]).__name__.lower())
    ok = norm(loop.iter) == "self._custom_iter()"
    ctx.ob("R3", ok, "the common path iterates the subclass's raw item stream", node=loop, func=it, sig="__iter__ iterates %s" % norm(loop.iter), nontrivial=False)


def r4(ctx):
    cd = require_func(ctx, "create.create_db")
    cfg = cfg_of(cd)
    mk = [n for n in ast.walk(cd.node) if isinstance(n, ast.Assign) and is_name(n.targets[0], "iterator") and isinstance(n.value, ast.Call)
          and norm(n.value.func) == "iterators.DataIterator"]
    ctx.require(mk, "create_db no longer builds a DataIterator first")
    st = {norm(n.targets[0]): n for n in ast.walk(cd.node) if isinstance(n, ast.Assign) and norm(n.targets[0]).startswith("kwargs[")}
    d = st.get("kwargs['data']")
    ok = d is not None and norm(d.value) == "iterator"
    ctx.ob("R4", ok, "the importer receives the already-peeked iterator, not the original data", func=cd,
           sig="importer data := %s" % (norm(d.value) if d is not None else "the original data"))
    c = st.get("kwargs['checklines']")
    ok = c is not None and norm(c.value) == "0"
    ctx.ob("R4", ok, "the importer does not peek again (checklines=0)", func=cd, sig="importer checklines := %s" % (norm(c.value) if c is not None else "unchanged"))
    ctor = [x for x in calls_in(cd.node) if is_name(x.func, "cls")]
    ok = bool(ctor) and d is not None and c is not None and all(
        cfg.dominates(cfg.node_for(s).id, cfg.node_for(ctor[0]).id) for s in (d, c))
    ctx.ob("R4", ok, "both settings are in place before the importer is constructed", func=cd,
           sig="kwargs fixed before cls(**kwargs)" if ok else "importer constructed before data/checklines are replaced")
    last = None
    for n in ast.walk(cd.node):
        if isinstance(n, ast.Call) and call_attr(n) == "update" and is_name(n.func.value, "kwargs") and any(k.arg is None and is_name(k.value, "_locals") for k in n.keywords):
            last = n
    if last is not None and d is not None:
        ok = cfg.node_for(d).id in cfg.reachable(cfg.node_for(last).id)
        ctx.ob("R4", ok, "the replacement is not undone by the later kwargs.update(**_locals)", func=cd,
               sig="data replaced after kwargs.update(**_locals)" if ok else "kwargs.update(**_locals) overwrites the peeked iterator", nontrivial=False)


def r5(ctx):
    f = require_func(ctx, "inspect.inspect")
    cfg = cfg_of(f)
    loops = [n for n in ast.walk(f.node) if isinstance(n, ast.For) and isinstance(n.iter, ast.Name)]
    main = None
    for l in loops:
        v = [n for n in ast.walk(f.node) if isinstance(n, ast.Assign) and is_name(n.targets[0], l.iter.id) and "DataIterator" in norm(n.value)]
        if v:
            main = l
    ctx.require(main is not None, "inspect no longer loops over a DataIterator")
    incs = [n for n in ast.walk(main) if isinstance(n, ast.AugAssign) and is_name(n.target, "feature_count") and norm(n.value) == "1" and isinstance(n.op, ast.Add)]
    ctx.ob("R5", len(incs) == 1, "each iterated feature is counted once", node=main, func=f, sig="%d increment(s) of feature_count" % len(incs))
    if len(incs) == 1:
        inc = cfg.node_for(incs[0]).id
        head = cfg.node_for(main).id
        first = [t for t, l in cfg.succ[head] if l == "true"]
        escapes = False
        for t in first:
            if t == inc:
                continue
            r = cfg.reachable(t, avoid={inc}, include_start=True)
            if head in r or cfg.exit.id in r or any(isinstance(cfg.nodes[n].stmt, ast.Break) for n in r):
                escapes = True
        ctx.ob("R5", not escapes, "no pass through the loop (continue / break) misses the count", node=main, func=f,
               sig="count on every pass" if not escapes else "a pass through the inspect loop skips the count")
        g = guards_of(incs[0], main)
        ctx.ob("R5", not g, "the count does not depend on what the feature looks like", node=incs[0], func=f, sig="count guards %s" % [norm(t) for t, _ in g])
        brk = [n for n in ast.walk(main) if isinstance(n, ast.Break)]
        for b in brk:
            t = [norm(t_) for t_, pol in guards_of(b, main)]
            ok = cfg.dominates(inc, cfg.node_for(b).id) and any("feature_count == limit" in x for x in t)
            ctx.ob("R5", ok, "the limit is tested after counting, against the count", node=b, func=f, sig="break under %s after the count" % t if ok else "limit test %s not after the count" % t)
    ret = [n for n in ast.walk(f.node) if isinstance(n, ast.Assign) and norm(n.targets[0]) == "new_results['feature_count']"]
    ok = bool(ret) and norm(ret[0].value) == "feature_count"
    ctx.ob("R5", ok, "the reported feature_count is that counter", func=f, sig="reported feature_count := %s" % (norm(ret[0].value) if ret else None))
    upd = [c for c in calls_in(f.node) if call_attr(c) == "update" and "results[" in norm(c.func.value)]
    okk = any(norm(c.args[0]) == "[getattr(f, obj_attr)]" for c in upd if c.args) and any(norm(c.args[0]) == "f.attributes.keys()" for c in upd if c.args)
    ctx.ob("R5", okk, "per-attribute counters are updated with the feature's own value / keys", func=f, sig="inspect counters updated with %s" % sorted(norm(c.args[0]) for c in upd if c.args))
    di = [c for c in calls_in(f.node) if norm(c.func) == "iterators.DataIterator"]
    ok = bool(di) and len(di[0].args) == 1 and is_name(di[0].args[0], "data")
    ctx.ob("R5", ok, "inspect iterates the data through DataIterator", func=f, sig="inspect wraps %s" % (norm(di[0]) if di else None), nontrivial=False)


def check(ctx):
    ctx.explanation = (
        "Order-sensitive decision table of DataIterator over seven abstract input kinds (the class table decides whether an isinstance "
        "tuple covers every iterator class); CFG rules on _FeatureIterator.peek (append dominates every exit of a pass; re-chain in "
        "order), on the single transform site in _BaseIterator.__iter__ (yield guarded by the result only), on create_db's re-use of the "
        "peeked iterator with checklines=0, and on inspect's counter (post-dominates the loop body entry, precedes the limit test). Does "
        "not decide equality of databases over all seven forms and all checklines (composition over runtime data).")
    r1(ctx)
    r2(ctx)
    r3(ctx)
    r4(ctx)
    r5(ctx)
