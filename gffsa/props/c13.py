"""C13 -- input forms, peeking, transform, inspect."""
import ast

from ..cfg import cfg_of
from ..model import norm, parents, enclosing
from ..util import require_func, calls_in, call_attr, is_name, const_str, kwarg, guards_of

def _run(ctx, func, args, self_obj=None, summaries=None, ext=None):
    from ..absint import Interp, Unsupported
    it = Interp(ctx)
    for k, v in (summaries or {}).items():
        it.summaries[k] = v
    for k, v in (ext or {}).items():
        it.ext_summaries[k] = v
    try:
        return it.run(func, args, self_obj=self_obj)
    except Unsupported as e:
        ctx.require(False, "%s outside the analysable subset: %s" % (func.qual, e))


def r1(ctx):
    """DataIterator's dispatch as a decision table obtained by abstract evaluation over the seven kinds of input."""
    from ..absint import Sym, Opaque, StreamVal, Callback
    f = require_func(ctx, "iterators.DataIterator")
    TF = Callback("transform", None)
    DIALECT = {"fmt": "gff3"}
    common = dict(checklines=Sym("n", "int", True), transform=TF, dialect=DIALECT)
    ext = {"os.path.exists": lambda i, pos, k, node: Opaque("exists", "bool?")}
    summ = {"iterators.is_url": lambda i, pos, k, node: Opaque("is_url", "bool?")}

    def outcomes(data, **kw):
        a = {"data": data}
        a.update(common)
        a.update(kw)
        out = []
        for t in _run(ctx, f, a, summaries=summ, ext=ext):
            dec = {getattr(d[0], "name", None): d[1] for d in t.decisions if isinstance(d[0], Opaque) and d[0].kind == "bool?"}
            cons = [e for e in t.events if e[0] == "construct" and e[1].startswith("iterators.")]
            if t.result[0] == "raise":
                res = "raise " + t.result[1]
            elif cons:
                res = cons[-1][1].split(".")[-1]
            else:
                r = t.result[1]
                res = "return data" if isinstance(r, Opaque) and r.name == "IT" else "return %r" % (r,)
            out.append((dec, res, cons[-1][3] if cons else None, t))
        return out
    base_ = ctx.proj.cls("iterators._BaseIterator")
    rows = [("an iterator object (%s)" % c.name, outcomes(Opaque("IT", c.name)), {(): "return data"}) for c in ctx.proj.subclasses(base_, strict=True)]
    ctx.floor("R1", len(rows), 3, "iterator classes")
    rows += [
        ("a string with from_string=True", outcomes(Sym("text", "str", True), from_string=True), {(): "_FileIterator"}),
        ("a string", outcomes(Sym("path", "str", True)), {(("exists", True),): "_FileIterator", (("exists", False), ("is_url", True)): "_UrlIterator",
                                                           (("exists", False), ("is_url", False)): "raise ValueError"}),
        ("a FeatureDB", outcomes(Opaque("DB", "FeatureDB")), {(): "_FeatureIterator"}),
        ("an iterable of Features", outcomes([Opaque("F", "Feature")]), {(): "_FeatureIterator"}),
        ("a generator of Features", outcomes(StreamVal([Opaque("F", "Feature")])), {(): "_FeatureIterator"}),
    ]
    for label, outs, want in rows:
        got = {tuple(sorted(d.items())): r for d, r, _kw, _t in outs}
        ctx.ob("R1", got == want, "DataIterator given %s: %s" % (label, ", ".join("%s -> %s" % (dict(k) or "always", v) for k, v in want.items())), func=f,
               sig="dispatch of %s -> %s" % (label, {(" ".join("%s=%s" % kv for kv in k) or "always"): v for k, v in sorted(got.items())}))
        for d, res, kw, t in outs:
            if kw is None:
                continue
            okc = getattr(kw.get("checklines"), "name", None) == "n" and getattr(kw.get("transform"), "name", None) == "transform" and kw.get("dialect") == DIALECT
            ctx.ob("R1", okc, "all input forms are wrapped with the same checklines/transform/dialect settings", func=f,
                   sig="%s: wrapped with checklines=%s transform=%s dialect=%s" % (label, getattr(kw.get("checklines"), "name", kw.get("checklines")),
                                                                                   getattr(kw.get("transform"), "name", kw.get("transform")), "given" if kw.get("dialect") == DIALECT else kw.get("dialect")),
                   nontrivial=False)
            dv = kw.get("data")
            if label.startswith("a string with from_string"):
                ok = "Temporary" in repr(dv) or "mkstemp" in repr(dv) or "tmp" in repr(dv).lower()
                writes = [e for e in t.events if e[0] in ("call-opaque",) and e[2] in ("write",)]
                ctx.ob("R1", ok and bool(writes), "from_string text is written to a temporary file which is then read as a file", func=f, sig="from_string: data=%r, %d write(s)" % (dv, len(writes)))
            elif label == "a string":
                ctx.ob("R1", getattr(dv, "name", None) == "path", "a path or URL is handed on unchanged", func=f, sig="string: data=%r" % (dv,), nontrivial=False)
            elif label == "a FeatureDB":
                ctx.ob("R1", "all_features" in repr(dv), "a FeatureDB contributes all of its features", func=f, sig="FeatureDB: data=%r" % (dv,))
            elif "iterable" in label:
                ctx.ob("R1", isinstance(dv, list) and len(dv) == 1, "an iterable is handed on unchanged", func=f, sig="iterable: data=%r" % (dv,), nontrivial=False)
            elif "generator" in label:
                ctx.ob("R1", isinstance(dv, StreamVal) and dv.pos == 0, "a generator is handed on unconsumed", func=f, sig="generator: data=%r" % (dv,), nontrivial=False)
    # only the base class yields to consumers
    base = ctx.proj.cls("iterators._BaseIterator")
    iters = [c.qual for c in ctx.proj.subclasses(base) if "__iter__" in c.methods]
    ctx.ob("R1", iters == [base.qual], "there is one common iteration path (__iter__ of the base class only)", func=base.methods.get("__iter__"),
           sig="__iter__ defined in %s" % iters)


def r2(ctx):
    """Peeking: evaluated on a one-shot stream and on a list of five symbolic items -- what peek returns is a prefix, and
    what the iterator yields afterwards is every item, in order."""
    from ..absint import Opaque, StreamVal, HostIter
    fcls = ctx.proj.cls("iterators._FeatureIterator")
    pk = ctx.proj.method(fcls, "peek")       # wherever the class gets it from (own method or a template in the base class)
    ctx.require(pk is not None, "anchor vanished: _FeatureIterator has no peek")
    ctx.touch(pk)
    n_param = [p for p in pk.params if p != "self"][0]
    def plain_iterator(xs):
        s_ = StreamVal(xs, "data")
        s_.is_generator = False          # iter(list), map(...), an open file: one-shot, but not a generator object
        return s_
    for label, mk in (("a one-shot generator", lambda xs: StreamVal(xs, "data")), ("a one-shot iterator that is not a generator", plain_iterator), ("a list", lambda xs: list(xs))):
        for n in (0, 2, 10):
            xs = [Opaque("x%d" % i, "Feature") for i in range(5)]
            so = Opaque("self", "_FeatureIterator")
            so.attrs["data"] = mk(xs)
            traces = _run(ctx, pk, {n_param: n}, self_obj=so)
            ctx.ob("R2", len(traces) == 1, "peek takes one path through a given source", func=pk, sig="peek(%d) on %s: %d path(s)" % (n, label, len(traces)), nontrivial=False)
            t = traces[0]
            got = t.result[1] if t.result[0] == "return" else None
            names = [getattr(x, "name", x) for x in got] if isinstance(got, (list, tuple)) else None
            allnames = [x.name for x in xs]
            ok = names is not None and names == allnames[:len(names)] and len(names) >= min(n, 5)
            ctx.ob("R2", ok, "peek returns the first items of the source, in order", func=pk, sig="peek(%d) on %s returns %s" % (n, label, names))
            rest = so.attrs.get("data")
            try:
                left = [getattr(x, "name", x) for x in rest]
            except TypeError:
                left = None
            ctx.ob("R2", left == allnames, "after peeking the iterator still delivers every item, the peeked ones first, in the original order", func=pk,
                   sig="after peek(%d) on %s the source yields %s" % (n, label, left))
    fpk = ctx.proj.method(ctx.proj.cls("iterators._FileIterator"), "peek")
    ctx.require(fpk is not None, "anchor vanished: _FileIterator has no peek")
    ctx.touch(fpk)
    n_param = [p for p in fpk.params if p != "self"][0]
    calls = []

    def fresh(i, pos, kw, node):
        calls.append(1)
        return StreamVal([Opaque("l%d" % k, "Feature") for k in range(5)], "file pass %d" % len(calls))
    so = Opaque("self", "_FileIterator")
    so.attrs["data"] = Opaque("path", "str")
    traces = _run(ctx, fpk, {n_param: 2}, self_obj=so, summaries={"iterators._FileIterator._custom_iter": fresh, "iterators._BaseIterator._custom_iter": fresh})
    t = traces[0]
    got = t.result[1] if t.result[0] == "return" else None
    names = [getattr(x, "name", x) for x in got] if isinstance(got, (list, tuple)) else None
    ok = names is not None and names == ["l%d" % k for k in range(len(names))] and len(names) >= 2 and len(calls) >= 1
    ctx.ob("R2", ok, "peeking a file re-opens it (a fresh _custom_iter()), so iteration later starts from the first line", func=fpk,
           sig="file peek reads a fresh pass: %s" % names)
    stores = [e for e in t.events if e[0] == "setattr" and e[2] == "data"]
    ctx.ob("R2", not stores, "peeking a file does not touch the data source", func=fpk, sig="file peek stores %d" % len(stores), nontrivial=False)


def r3(ctx):
    it = require_func(ctx, "iterators._BaseIterator.__iter__")
    sites = []
    for f in ctx.proj.funcs_in_module("iterators"):
        for c in calls_in(f.node):
            if norm(c.func) == "self.transform":
                sites.append((f, c))
    from ..util import closure
    common = set(closure(ctx, it)) | {it}
    outside = [(f, c) for f, c in sites if f not in common]
    ctx.ob("R3", len(sites) >= 1 and not outside, "the transform is applied only on the common iteration path (__iter__ and what it calls); that it is applied once per "
           "item is decided below on the evaluated path", func=it,
           sig="transform applied on the common path only" if sites and not outside else "transform called in %s" % sorted(f.qual.split(".", 1)[1] for f, _ in (outside or sites)))
    # every other use of the transform value may only store or forward it
    for f in ctx.proj.funcs_in_module("iterators") + [ctx.proj.func("create.create_db"), ctx.proj.func("create._DBCreator.__init__")]:
        for n in ast.walk(f.node):
            use = None
            if isinstance(n, ast.Name) and n.id == "transform" and isinstance(n.ctx, ast.Load):
                use = n
            elif isinstance(n, ast.Attribute) and n.attr == "transform" and isinstance(n.ctx, ast.Load) and is_name(n.value, "self"):
                use = n
            if use is None:
                continue
            par = use._parent
            applied = False
            if isinstance(par, ast.Call) and par.func is use:
                applied = f not in common        # called somewhere else than on the common path
            elif isinstance(par, ast.Call) and any(a is use for a in par.args):
                applied = f not in common        # handed to map()/filter()/a helper as a positional argument
            elif isinstance(par, ast.Starred):
                applied = True
            ok = not applied
            ctx.ob("R3", ok, "outside the common iteration path the transform is only stored or forwarded, never applied", node=use, func=f,
                   sig="%s: transform stored/forwarded" % f.name if ok else "%s uses the transform: %s" % (f.name, norm(getattr(par, "_parent", par)) [:70]), nontrivial=False)
    # what the common path hands out, for three symbolic items
    from ..absint import Opaque, Callback
    xs = [Opaque("x%d" % i, "Feature") for i in range(3)]
    ys_ = {x.name: Opaque("t(%s)" % x.name, "Feature") for x in xs}

    def run_iter(tf):
        so = Opaque("self", "obj")
        so.attrs["dialect"] = None
        so.attrs["transform"] = tf
        traces = _run(ctx, it, {}, self_obj=so, summaries={"iterators._BaseIterator._custom_iter": lambda i, pos, kw, node: list(xs)})
        outs = []
        for t in traces:
            outs.append(([getattr(e[1], "name", e[1]) for e in t.events if e[0] == "yield"], [[getattr(a_, "name", a_) for a_ in e[2]] for e in t.events if e[0] == "callback"]))
        return outs
    outs = run_iter(None)
    ctx.ob("R3", outs == [(["x0", "x1", "x2"], [])], "without a transform every item is yielded", func=it, sig="no transform: yields %s" % [o[0] for o in outs])
    outs = run_iter(Callback("transform", None, fn=lambda pos, kw: ys_[pos[0].name]))
    ctx.ob("R3", outs == [(["t(x0)", "t(x1)", "t(x2)"], [["x0"], ["x1"], ["x2"]])], "the transform is called once per item, with the item, and its result replaces the item", func=it,
           sig="transform: yields %s, called with %s" % ([o[0] for o in outs], [o[1] for o in outs]))
    outs = run_iter(Callback("transform", None, fn=lambda pos, kw: None if pos[0].name == "x1" else ys_[pos[0].name]))
    ctx.ob("R3", [o[0] for o in outs] == [["t(x0)", "t(x2)"]], "a transformed item is yielded exactly when the transform's result is true; only a false result skips an item", func=it,
           sig="transform rejecting x1: yields %s" % [o[0] for o in outs])
    outs = run_iter(Callback("transform", None, fn=lambda pos, kw: False))
    ctx.ob("R3", [o[0] for o in outs] == [[]], "a transform that rejects everything yields nothing", func=it, sig="transform rejecting all: yields %s" % [o[0] for o in outs], nontrivial=False)


def r3_whole_path(ctx):
    """__iter__ evaluated together with each iterator class's own _custom_iter (no summary in between): the transform is
    called exactly once per item of the source."""
    from ..absint import Opaque, Callback, StreamVal
    it = require_func(ctx, "iterators._BaseIterator.__iter__")
    base = ctx.proj.cls("iterators._BaseIterator")
    n = 0
    for c in ctx.proj.subclasses(base):
        ci = ctx.proj.method(c, "_custom_iter")
        if ci is None or ci.cls is base:
            continue
        calls = []

        def tf(pos, kw):
            calls.append(getattr(pos[0], "name", pos[0]))
            return pos[0]
        so = Opaque("self", c.name)
        so.attrs.update(dict(dialect=None, transform=Callback("transform", None, fn=tf), directives=[], warnings=[], current_item=None, current_item_number=None))
        summ = {}
        if c.name == "_FeatureIterator":
            so.attrs["data"] = [Opaque("x%d" % i, "Feature") for i in range(3)]
            want = ["x0", "x1", "x2"]
        else:
            so.attrs["data"] = "file.gff"
            lines = ["chr1\t.\tgene\t1\t2\t.\t+\t.\tID=%s\n" % k for k in ("a", "b", "c")]
            summ["iterators.%s.open_function" % c.name] = lambda i, pos, kw, node: StreamVal(lines, "file")
            summ["iterators._FileIterator.open_function"] = summ["iterators.%s.open_function" % c.name]
            summ["feature.feature_from_line"] = lambda i, pos, kw, node: Opaque("f(%s)" % pos[0].split("ID=")[-1], "Feature")
            want = ["f(a)", "f(b)", "f(c)"]
        traces = _run(ctx, it, {}, self_obj=so, summaries=summ)
        n += 1
        ok = len(traces) == 1 and calls == want
        ctx.ob("R3", ok, "the transform is called exactly once per item on the whole iteration path of %s (its own _custom_iter included)" % c.name, func=ci,
               sig="%s: transform called once per item" % c.name if ok else "%s: transform called with %s for items %s" % (c.name, calls, want))
    ctx.floor("R3", n, 2, "iterator classes evaluated end to end")


def r4(ctx):
    """create_db: the importer receives the already-peeked iterator and does not peek again -- read off the importer's
    constructor arguments on the abstract trace."""
    from ..absint import Sym, Opaque
    cd = require_func(ctx, "create.create_db")
    n = 0
    for fmt in ("gff3", "gtf"):
        def s_di(i, pos, kw, node):
            o = Opaque("ITER", "obj")
            o.attrs["dialect"] = {"fmt": fmt}
            o.attrs["directives"] = Opaque("directives", "list")
            return o
        for t in _run(ctx, cd, {"data": Sym("data", "str", True), "dbfn": Sym("dbfn", "str", True), "checklines": 7}, summaries={"iterators.DataIterator": s_di}):
            for e in t.events:
                if e[0] == "construct" and e[1] in ("create._GFFDBCreator", "create._GTFDBCreator"):
                    n += 1
                    d = e[3].get("data")
                    ok = isinstance(d, Opaque) and d.name == "ITER"
                    ctx.ob("R4", ok, "the importer receives the already-peeked iterator, not the original data", func=cd,
                           sig="importer data := %s" % ("the peeked iterator" if ok else "the original data" if getattr(d, "name", None) == "data" else repr(d)))
                    c = e[3].get("checklines")
                    ctx.ob("R4", c == 0 and not isinstance(c, bool), "the importer does not peek again (checklines=0)", func=cd, sig="importer checklines := %r" % (getattr(c, "name", c),))
    ctx.floor("R4", n, 2, "importer constructions in create_db")


def r5(ctx):
    """inspect(): evaluated on three symbolic features with and without a limit."""
    from ..absint import Sym, Opaque
    f = require_func(ctx, "inspect.inspect")

    def feats():
        out = []
        for name, ft, chrom, keys in (("f0", "gene", "chr1", ["ID"]), ("f1", "exon", "chr1", ["ID", "Parent"]), ("f2", "gene", "chr2", [])):
            o = Opaque(name, "Feature")
            o.attrs.update(dict(featuretype=ft, chrom=chrom, seqid=chrom, attributes={k: [Sym("v", "str", True)] for k in keys}))
            out.append(o)
        return out
    seen_wrap = []

    def s_di(i, pos, kw, node):
        seen_wrap.append(getattr(pos[0] if pos else kw.get("data"), "name", None))
        return feats()
    for label, limit, want_n in (("no limit", None, 3), ("limit=2", 2, 2), ("limit larger than the input", 10, 3)):
        traces = _run(ctx, f, {"data": Sym("data", "any", True), "limit": limit, "verbose": False}, summaries={"iterators.DataIterator": s_di})
        for t in traces:
            r = t.result[1] if t.result[0] == "return" else None
            ok = isinstance(r, dict) and r.get("feature_count") == want_n
            ctx.ob("R5", ok, "each iterated feature is counted once; the count stops at the limit", func=f,
                   sig="inspect(%s): feature_count %r" % (label, r.get("feature_count") if isinstance(r, dict) else t.result[:2]))
            if isinstance(r, dict) and limit is None:
                ft = r.get("featuretype")
                ak = r.get("attribute_keys")
                ok2 = ft == {"gene": 2, "exon": 1} and ak == {"ID": 2, "Parent": 1} and r.get("chrom") == {"chr1": 2, "chr2": 1}
                ctx.ob("R5", ok2, "per-attribute counters are updated with the feature's own value / keys", func=f, sig="inspect counters featuretype=%s attribute_keys=%s" % (ft, ak))
            if isinstance(r, dict) and limit == 2:
                ok3 = r.get("featuretype") == {"gene": 1, "exon": 1}
                ctx.ob("R5", ok3, "the limit is tested after counting, against the count (exactly `limit` features are looked at)", func=f,
                       sig="inspect(limit=2) featuretype=%s" % (r.get("featuretype"),))
    ctx.ob("R5", bool(seen_wrap) and all(x == "data" for x in seen_wrap), "inspect iterates the data through DataIterator", func=f, sig="inspect wraps %s" % sorted(set(map(str, seen_wrap))), nontrivial=False)


def r5_sources(ctx):
    """inspect() evaluated end to end on a database built from a file (and on the file itself): for every look_for subset
    and every limit the counters are those of the first `limit` features in iteration order."""
    from . import scen
    from ..absint import Unsupported
    import itertools as _it
    f = require_func(ctx, "inspect.inspect")
    rows = [("chr1", "gene", 100, 900, "+", "ID=g1;Name=G1"), ("chr1", "mRNA", 100, 900, "+", "ID=t1;Parent=g1"), ("chr1", "exon", 100, 200, "+", "ID=e1;Parent=t1"),
            ("chr1", "exon", 300, 400, "+", "ID=e2;Parent=t1"), ("chr2", "gene", 5, 50, "-", "ID=g2"), ("chr2", "exon", 5, 50, "-", "ID=e3;Parent=g2;Note=x"),
            ("chr3", "tRNA", 7, 70, "-", "ID=r1")]
    text = "".join("%s\tsrc\t%s\t%d\t%d\t.\t%s\t.\t%s\n" % r for r in rows)
    it, db, t = scen.create_db_from_text(ctx, text, path="inspected.gff3")
    if not scen.returned(ctx, t, "create_db", func=f, rule="R5"):
        return
    fdb = t.result[1]
    value = {"featuretype": lambda r: r[1], "chrom": lambda r: r[0], "seqid": lambda r: r[0], "strand": lambda r: r[4], "start": lambda r: r[2], "source": lambda r: "src"}
    subsets = [["featuretype", "chrom", "attribute_keys", "feature_count"], ["featuretype"], ["chrom", "strand"], ["seqid", "start"], ["attribute_keys"], ["feature_count"], ["source", "featuretype"]]
    limits = [None, 0, 1, 2, 3, len(rows) - 1, len(rows), len(rows) + 5]
    n = 0
    bad = None
    for label, data in (("a FeatureDB", fdb), ("a path", "inspected.gff3")):
        for lf in subsets:
            for limit in limits:
                n += 1
                try:
                    tr = it.run(f, {"data": data, "look_for": list(lf), "limit": limit, "verbose": False}, copy_args=False)
                except Unsupported as e:
                    ctx.require(False, "inspect(%s) outside the analysable subset: %s" % (label, e))
                ctx.require(len(tr) == 1, "inspect forks on concrete data (%d paths)" % len(tr))
                seen = rows[:limit] if limit else rows
                want = {k: {} for k in lf}
                for r in seen:
                    for k in lf:
                        if k in value:
                            want[k][value[k](r)] = want[k].get(value[k](r), 0) + 1
                        elif k == "attribute_keys":
                            for kv in r[5].split(";"):
                                want[k][kv.split("=")[0]] = want[k].get(kv.split("=")[0], 0) + 1
                want["feature_count"] = len(seen)
                got = tr[0].result[1] if tr[0].result[0] == "return" else ("raises", tr[0].result[1])
                if isinstance(got, dict):
                    got = {k: (dict(v) if isinstance(v, dict) else v) for k, v in got.items()}
                if got != want and bad is None:
                    bad = "inspect(%s, look_for=%s, limit=%s) reports %s; the first %d features give %s" % (label, lf, limit, got, len(seen), want)
    ctx.ob("R5", bad is None, "inspect reports exact counts of what was iterated: %d combinations of source x look_for x limit agree with counting the first `limit` "
           "features by hand" % n, func=f, sig="inspect counts agree with the iterated features" if bad is None else bad[:600])


def check(ctx):
    ctx.explanation = (
        "DataIterator's dispatch is a decision table obtained by abstract evaluation over every kind of input; _FeatureIterator.peek is "
        "evaluated on a one-shot stream value and on a list (what is returned, what the source still yields afterwards); the common iteration "
        "path is evaluated with no / replacing / rejecting transforms; create_db's importer arguments and inspect's counters are read off "
        "abstract traces. Does not decide equality of databases over all seven forms and all checklines (composition over runtime data).")
    r1(ctx)
    r2(ctx)
    r3(ctx)
    r3_whole_path(ctx)
    r4(ctx)
    r5(ctx)
    r5_sources(ctx)
