"""C05 -- duplicate keys are resolved exactly as the merge strategy says.

Decided by abstract evaluation (the partitioned dataflow interpreter; no
execution): the dispatcher _do_merge and one pass of each importer's line
loop are evaluated on symbolic features for every strategy and for the
scenarios the property names; what comes back -- returned pair, renamed id,
merged attribute sets, forced columns, statements executed with their bound
values -- is compared with what the property prescribes.  The remaining
clauses are structural: the candidate query as a conjunctive query, the
constructor's rejection of start/end, and who deletes relations on replace.
"""
import ast
import collections

from .. import sql as S
from ..absint import Interp, Sym, Opaque, Unsupported, RaiseEx, AStr
from ..model import norm, enclosing
from ..util import require_func, execute_sites, calls_in, call_attr, is_name, const_str, closure
from .c01 import populate_methods
from .c02 import schema

STRATEGIES = ["error", "warning", "replace", "create_unique", "merge"]
FIXED8 = ["seqid", "source", "featuretype", "start", "end", "score", "strand", "frame"]


def mkfeat(name, id_, attrs, **over):
    F = Opaque(name, "Feature")
    base = dict(id=id_, seqid="chr1", source="src", featuretype="exon", start=10, end=20, score=".", strand="+", frame=".",
                attributes=attrs, extra=[])
    base.update(over)
    F.attrs.update(base)
    return F


def _names(vals):
    return sorted(getattr(v, "name", v) for v in vals)


# ---------------------------------------------------------------- dispatcher
def dispatcher(ctx):
    dm = require_func(ctx, "create._DBCreator._do_merge")
    params = [p for p in dm.params if p != "self"]
    ctx.require(len(params) >= 2, "_do_merge signature changed")
    fv, sv = params[0], params[1]
    v1, v2, v3, v4 = (Sym(n, "str", True) for n in ("v1", "v2", "v3", "v4"))

    def run(strategy, cands, fmf=(), counters=None, fattrs=None, **fover):
        it = Interp(ctx)
        so = Opaque("self", "obj")
        cnt = collections.defaultdict(int)
        cnt.update(counters or {})
        so.attrs.update(dict(force_merge_fields=list(fmf), verbose=False, _autoincrements=cnt, default_encoding="utf-8", merge_strategy=strategy))
        it.summaries["create._DBCreator._candidate_merges"] = lambda interp, pos, kw, node: list(cands)
        F = mkfeat("F", "K", fattrs if fattrs is not None else {"a": [v1], "b": [v2]}, **fover)
        try:
            traces = it.run(dm, {fv: F, sv: strategy}, self_obj=so)
        except Unsupported as e:
            ctx.require(False, "_do_merge outside the analysable subset: %s" % e)
        return F, traces

    def outcome(t):
        if t.result[0] == "raise":
            return ("raise", t.result[1])
        r = t.result[1]
        if isinstance(r, (tuple, list)) and len(r) == 2:
            x = r[0]
            return ("pair", x.name if isinstance(x, Opaque) else x, r[1])
        return ("other", repr(r))

    def single(strategy, cands, **kw):
        F, traces = run(strategy, cands, **kw)
        outs = sorted({outcome(t) for t in traces}, key=repr)
        # the newcomer as the dispatcher left it (the arguments are copied per evaluation)
        for t in traces:
            r = t.result[1] if t.result[0] == "return" else None
            if isinstance(r, (tuple, list)) and r and isinstance(r[0], Opaque) and r[0].name == "F":
                F = r[0]
        return F, traces, outs
    E = lambda **over: mkfeat("E", "K", {"a": [v1, v3], "c": [v4]}, **over)
    # ---- R1 the simple strategies
    F, tr, outs = single("error", [E()])
    ctx.ob("R1", outs == [("raise", "ValueError")], "'error' aborts with an exception", func=dm, sig="error -> %s" % outs)
    F, tr, outs = single("warning", [E()])
    writes = [e for t in tr for e in t.events if e[0] in ("execute", "setattr")]
    ctx.ob("R1", outs == [("pair", None, "warning")] and not writes, "'warning' hands nothing back to be written (None, strategy) and changes nothing", func=dm,
           sig="warning -> %s, %d side effects" % (outs, len(writes)))
    F, tr, outs = single("replace", [E()])
    changed = [e for t in tr for e in t.events if e[0] in ("execute", "setattr")]
    ctx.ob("R1", outs == [("pair", "F", "replace")] and not changed, "'replace' hands back the newcomer unchanged", func=dm,
           sig="replace -> %s, %d side effects" % (outs, len(changed)))
    F, tr, outs = single("create_unique", [E()])
    ctx.ob("R1", outs == [("pair", "F", "create_unique")], "'create_unique' hands back the renamed newcomer", func=dm, sig="create_unique -> %s" % outs)
    ctx.ob("R6", F.attrs.get("id") == "K_1", "'create_unique' numbers the newcomer after the colliding key: <key>_1, <key>_2, ...", func=dm,
           sig="create_unique: K -> %r" % (F.attrs.get("id"),))
    F, tr, outs = single("create_unique", [E()], counters={"K": 2})
    ctx.ob("R6", F.attrs.get("id") == "K_3", "later collisions continue the per-key numbering", func=dm, sig="create_unique with two earlier collisions: K -> %r" % (F.attrs.get("id"),))
    F, tr, outs = single("bogus", [E()])
    ctx.ob("R1", outs == [("raise", "ValueError")], "an unknown strategy is rejected", func=dm,
           sig="unknown strategy -> raise" if outs == [("raise", "ValueError")] else "unknown strategy falls through silently: %s" % outs)
    # ---- R2 what must agree for a merge
    F, tr, outs = single("merge", [E()])
    ctx.ob("R2", outs == [("pair", "E", "merge")], "features whose eight fixed columns agree are merged", func=dm, sig="merge, all columns equal -> %s" % outs)
    other = {"seqid": "chr2", "source": "other", "featuretype": "gene", "start": 11, "end": 21, "score": "5", "strand": "-", "frame": "1"}
    for col in FIXED8:
        F, tr, outs = single("merge", [E(**{col: other[col]})])
        ok = outs == [("pair", "F", "create_unique")]
        ctx.ob("R2", ok, "a stored feature differing in `%s` is not merged: the newcomer is filed under a fresh key" % col, func=dm,
               sig="merge, %s differs -> %s" % (col, outs))
        if col not in ("start", "end"):
            F, tr, outs = single("merge", [E(**{col: other[col]})], fmf=[col])
            ctx.ob("R2", outs == [("pair", "E", "merge")], "`%s` named in force_merge_fields is exempt from the comparison" % col, func=dm,
                   sig="merge, %s differs but forced -> %s" % (col, outs))
    # ---- R3 union without repeats / forced columns
    cand = E()
    F, tr, outs = single("merge", [cand])
    got = cand.attrs.get("attributes")
    want = {"a": ["v1", "v3"], "b": ["v2"], "c": ["v4"]}
    norm_ = {k: _names(v) for k, v in got.items()} if isinstance(got, dict) else None
    dup = isinstance(got, dict) and any(len(_names(v)) != len(set(_names(v))) for v in got.values())
    ctx.ob("R3", norm_ == want and not dup, "merged attributes = union of the newcomer's and the stored feature's values, without repeats, every key of either kept", func=dm,
           sig="merge {a:[v1], b:[v2]} with stored {a:[v1,v3], c:[v4]} -> %s" % norm_)
    c1, c2 = mkfeat("E1", "K", {"a": [v3]}), mkfeat("E2", "K_1", {"a": [v4], "b": [v2]})
    F, tr, outs = single("merge", [c1, c2])
    merged = [c for c in (c1, c2) if isinstance(c.attrs.get("attributes"), dict) and _names(c.attrs["attributes"].get("a", [])) == ["v1", "v3", "v4"]]
    ctx.ob("R3", bool(merged) and all(_names(c.attrs["attributes"].get("b", [])) == ["v2"] for c in merged), "with several mergeable candidates the union covers all of them", func=dm,
           sig="merge with two candidates -> a=%s" % [_names(c.attrs["attributes"].get("a", [])) for c in (c1, c2) if isinstance(c.attrs.get("attributes"), dict)])
    cand = E(source="other")
    F, tr, outs = single("merge", [cand], fmf=["source"])
    ctx.ob("R3", cand.attrs.get("source") == "other,src", "a forced column becomes the comma-joined sorted set of the values seen", func=dm,
           sig="forced source: stored 'other', newcomer 'src' -> %r" % (cand.attrs.get("source"),))
    cand = E(source="other,src")
    F, tr, outs = single("merge", [cand], fmf=["source"])
    ctx.ob("R3", cand.attrs.get("source") == "other,src",
           "a forced column stays the set of values seen when a third arrival repeats one of them (the stored value is itself a joined set)", func=dm,
           sig="forced source: stored 'other,src', newcomer 'src' -> %r" % (cand.attrs.get("source"),),
           detail="three arrivals with sources a, b, a must leave 'a,b'")
    cand = E(source="other")
    F, tr, outs = single("merge", [cand], fmf=[])
    ctx.ob("R3", cand.attrs.get("source") == "other", "without force_merge_fields no column of the stored feature is touched", func=dm,
           sig="unforced source stays %r" % (cand.attrs.get("source"),), nontrivial=False)
    # ---- R4 the no-candidate path: fresh key + duplicates bookkeeping
    F, tr, outs = single("merge", [E(start=11)])
    ex = [e for t in tr for e in t.executes()]
    dups = []
    for e in ex:
        try:
            st = S.parse(e[1] if isinstance(e[1], str) else e[1].render())
        except S.SQLError:
            continue
        if st.verb == "INSERT" and st.table.lower() == "duplicates":
            cols = [c.lower() for c in (st.columns or ["idspecid", "newid"])]
            if isinstance(e[2], dict):
                # named placeholders: the value bound to each column of the VALUES list
                dups.append({c: e[2].get(v[2]) if (isinstance(v, tuple) and v[0] == "param" and v[2] != "?") else v for c, v in zip(cols, st.values)})
            else:
                dups.append(dict(zip(cols, e[2])) if isinstance(e[2], (list, tuple)) else None)
    ctx.ob("R4", len(dups) >= 1, "a non-mergeable newcomer is recorded in `duplicates` (so later arrivals can find it)", func=dm,
           sig="duplicate bookkeeping present" if dups else "the dispatcher never records a renamed newcomer in `duplicates`")
    for d in dups[:1]:
        ok = d == {"idspecid": "K", "newid": "K_1"}
        ctx.ob("R4", ok, "a non-mergeable newcomer is remembered as (colliding key as it was before the rename, fresh key)", func=dm,
               sig="duplicates row %s" % d)
    ctx.ob("R4", F.attrs.get("id") == "K_1" and outs == [("pair", "F", "create_unique")], "...and is filed under a fresh '<key>_n' (create_unique)", func=dm,
           sig="no-candidate path: %s, id %r" % (outs, F.attrs.get("id")))
    F, tr, outs = single("merge", [E()])
    ex = [e for t in tr for e in t.executes()]
    ctx.ob("R4", not ex, "...exactly when no stored feature agrees on the compared columns (a merge records nothing)", func=dm,
           sig="merge path executes %d statement(s)" % len(ex), nontrivial=False)
    ctx.extra["dispatcher_scenarios"] = 30


# ------------------------------------------------------------------ importers








# ------------------------------------------------------------ structural rest
def structural(ctx, sch):
    init = require_func(ctx, "create._DBCreator.__init__")
    # start/end cannot be forced under merge: abstract evaluation of the constructor's validation
    outs = {}
    for fmf in (["start"], ["end"], ["source", "end"], ["source"]):
        for strat in ("merge", "create_unique"):
            it = Interp(ctx)
            try:
                traces = it.run(init, {"data": Sym("data", "any", True), "dbfn": Sym("dbfn", "str", True), "merge_strategy": strat, "force_merge_fields": list(fmf)},
                                self_obj=Opaque("self", "obj"))
            except Unsupported:
                traces = None
            if traces is None:
                outs = None
                break
            outs[(tuple(fmf), strat)] = sorted({t.result[1] if t.result[0] == "raise" else "ok" for t in traces})
        if outs is None:
            break
    if outs is not None:
        ok = all(("ValueError" in v and len(v) == 1) == (k[1] == "merge" and bool({"start", "end"} & set(k[0]))) for k, v in outs.items())
        ctx.ob("R2", ok, "start/end cannot be forced under 'merge' (rejected at construction)", func=init,
               sig="start/end in force_merge_fields -> ValueError" if ok else "start/end in force_merge_fields not rejected: %s" % outs)
    else:
        ok = False
        for n in ast.walk(init.node):
            if isinstance(n, ast.If) and any(isinstance(b, ast.Raise) for b in n.body):
                lits = {x.value for x in ast.walk(n.test) if isinstance(x, ast.Constant) and isinstance(x.value, str)}
                if {"start", "end"} <= lits and "force_merge_fields" in norm(n.test):
                    ok = True
        ctx.ob("R2", ok, "start/end cannot be forced under 'merge' (rejected at construction)", func=init,
               sig="start/end in force_merge_fields -> ValueError" if ok else "start/end in force_merge_fields not rejected")
    # merge candidates and the duplicates row: decided on the evaluated collisions (r_scenario: a differing newcomer is filed
    # under K_1 with its duplicates row; a third arrival agreeing with K_1 is found through it -- in one import and across an update)


def _tables(st):
    out = []
    try:
        for ref, _on in [(st.source, None)] + list(st.joins):
            if ref is not None and ref[0] == "table":
                out.append(ref[1].lower())
    except AttributeError:
        pass
    return out


def check(ctx):
    ctx.explanation = (
        "Decision tables obtained by abstract evaluation (partitioned dataflow, no execution): _do_merge is evaluated on symbolic features for "
        "every strategy and for the scenarios the property names (each fixed column differing, forced or not; overlapping attribute sets; several "
        "candidates; a stored forced column that is already a joined set; the no-candidate path with its duplicates row); each "
        "importer's line loop is evaluated against a model database (relational evaluator; real key collisions raise IntegrityError) for colliding "
        "lines under every strategy -- error, warning, replace, create_unique with three arrivals, merge with equal columns, with forced columns "
        "(also for an attribute-identical newcomer), with a differing column (fresh '<key>_1' and its duplicates row) and with a third arrival that "
        "agrees with '<key>_1' -- and the stored rows, attributes and relations are compared with what the strategy prescribes. Structural: candidate query as a conjunctive query, constructor validation, who deletes relations on "
        "'replace'. Does not decide the outcome for every interleaving of collisions (history-dependent data).")
    sch = schema(ctx)
    dispatcher(ctx)
    r_scenario(ctx)
    structural(ctx, sch)


# ------------------------------------------------------------------------------------------------ scenario rules
def _collision_lines(gtf, second_over=None, third=None):
    """A stored feature K, a colliding newcomer (same key; different attribute values and different parents) and optionally a third arrival."""
    from . import scen
    if gtf:
        mk = lambda name, attrs, **kw: scen.feature(name, "exon", kw.pop("start", 10), kw.pop("end", 20), dict(attrs, exon_id=["K"]), **kw)
        first = mk("F1", {"gene_id": ["g1"], "transcript_id": ["t1"], "a": ["v1"]})
        second = mk("F2", {"gene_id": ["g2"], "transcript_id": ["t2"], "a": ["v2"], "b": ["v3"]}, **(second_over or {}))
        out = [first, second]
        if third is not None:
            out.append(mk("F3", {"gene_id": ["g3"], "transcript_id": ["t3"], "a": ["v4"]}, **third))
        return out
    mk = lambda name, attrs, **kw: scen.feature(name, "exon", kw.pop("start", 10), kw.pop("end", 20), dict(attrs, ID=["K"]), **kw)
    first = mk("F1", {"Parent": ["P1"], "a": ["v1"]})
    second = mk("F2", {"Parent": ["P2"], "a": ["v2"], "b": ["v3"]}, **(second_over or {}))
    out = [first, second]
    if third is not None:
        out.append(mk("F3", {"Parent": ["P3"], "a": ["v4"]}, **third))
    return out


def _links(gtf, f, child):
    a = f.attrs["attributes"]
    if gtf:
        t, g = a["transcript_id"][0], a["gene_id"][0]
        return {(t, child, 1), (g, child, 2), (g, t, 1)}
    return {(p, child, 1) for p in a.get("Parent", [])}


def r_scenario(ctx):
    """Each importer's line loop evaluated on the model database for colliding lines under every strategy: the stored
    features, their attributes and the relations are compared with what the strategy prescribes."""
    from . import scen
    keys = list(ctx.folder.const("constants", "_keys"))
    for cls in ("_GFFDBCreator", "_GTFDBCreator"):
        gtf = cls == "_GTFDBCreator"
        m = require_func(ctx, "create.%s._populate_from_lines" % cls)
        name = cls
        extra = dict(id_spec={"exon": "exon_id"}) if gtf else {}

        def run(strategy, lines, **kw):
            im = scen.Import(ctx, cls, merge_strategy=strategy, **dict(extra, **kw))
            t = im.call("_populate_from_lines", lines=list(lines))
            rows = {}
            for r in im.table("features", keys):
                rows.setdefault(r[0], []).append(scen.decoded_row(r, keys))
            return im, t, rows, set(im.table("relations"))
        # ---- error
        lines = _collision_lines(gtf)
        im, t, rows, rel = run("error", lines)
        ok = t.result[0] == "raise" and t.result[1] == "ValueError" and list(rows) == ["K"] and rows["K"][0]["attributes"].get("a") == ["v1"] and rel == _links(gtf, lines[0], "K")
        ctx.ob("R1", ok, "%s: 'error' aborts the import with an exception, nothing is written for the newcomer" % name, func=m,
               sig="%s: error aborts" % name if ok else "%s: error -> %s, rows %s" % (name, t.result[:2], sorted(rows)))
        # ---- warning
        lines = _collision_lines(gtf)
        im, t, rows, rel = run("warning", lines)
        ok = t.result[0] == "return" and list(rows) == ["K"] and rows["K"][0]["attributes"].get("a") == ["v1"] and "b" not in rows["K"][0]["attributes"]
        ctx.ob("R1", ok, "%s: 'warning' keeps the first feature and ignores the later one" % name, func=m,
               sig="%s: warning keeps the first" % name if ok else "%s: warning -> %s rows %s" % (name, t.result[:2], {k: [r["attributes"] for r in v] for k, v in rows.items()}))
        leak = rel - _links(gtf, lines[0], "K")
        ctx.ob("R5", not leak,
               "%s: when a colliding newcomer is discarded ('warning': nothing is written for it) none of its Parent/transcript/gene links is inserted" % name,
               func=m, sig="%s: relation insert reachable on the discard path of the collision handler" % name if leak else "%s: no relation insert on the discard path" % name,
               detail=None if not leak else "relations of the ignored line stored: %s" % sorted(leak))
        # ---- replace
        lines = _collision_lines(gtf, second_over=dict(source="other", start=11))
        im, t, rows, rel = run("replace", lines)
        want = scen.expected_row(lines[1], keys)
        ok = t.result[0] == "return" and list(rows) == ["K"] and len(rows["K"]) == 1 and all(rows["K"][0].get(k) == want[k] for k in keys)
        ctx.ob("R1", ok, "%s: 'replace' keeps the last: the stored row becomes the newcomer" % name, func=m,
               sig="%s: replace keeps the last" % name if ok else "%s: replace -> %s row %s" % (name, t.result[:2], rows.get("K")))
        ok = _links(gtf, lines[1], "K") <= rel
        ctx.ob("R5", ok, "%s: under 'replace' the newcomer's links are added under its id (no Parent link is lost or invented)" % name, func=m,
               sig="%s: relation rows under replace: %s" % (name, sorted(rel)), nontrivial=False)
        stale = {r for r in _links(gtf, lines[0], "K") if r[1] == "K"} - _links(gtf, lines[1], "K")
        kept = stale & rel
        ctx.ob("R5", not kept,
               "%s: when 'replace' overwrites a stored feature, the relations that named the replaced feature as child are removed before the "
               "newcomer's links are added (inline, in _replace, or in one sweep)" % name, func=m,
               sig="%s: replace keeps the replaced row's relations (no DELETE FROM relations ... child)" % name if kept else
               "%s: replaced row's relations are deleted" % name,
               detail=None if not kept else "children(old parent) still lists the key after its feature was replaced by one with a different Parent: %s" % sorted(kept))
        # ---- create_unique
        lines = _collision_lines(gtf, third={})
        im, t, rows, rel = run("create_unique", lines)
        ok = t.result[0] == "return" and sorted(rows) == ["K", "K_1", "K_2"] and rows["K"][0]["attributes"].get("a") == ["v1"] and rows["K_1"][0]["attributes"].get("a") == ["v2"] \
            and rows["K_2"][0]["attributes"].get("a") == ["v4"]
        ctx.ob("R1", ok, "%s: 'create_unique' keeps all, later ones under '<key>_1', '<key>_2'" % name, func=m,
               sig="%s: create_unique keeps all" % name if ok else "%s: create_unique -> %s rows %s" % (name, t.result[:2], sorted(rows)))
        want_rel = _links(gtf, lines[0], "K") | _links(gtf, lines[1], "K_1") | _links(gtf, lines[2], "K_2")
        ctx.ob("R5", rel == want_rel, "%s: under 'create_unique' each feature's links are recorded under its final id" % name, func=m,
               sig="%s: create_unique relations as prescribed" % name if rel == want_rel else "%s: create_unique relations missing %s unexpected %s" % (name, sorted(want_rel - rel)[:3], sorted(rel - want_rel)[:3]))
        # ---- merge, columns agree
        lines = _collision_lines(gtf)
        im, t, rows, rel = run("merge", lines)
        a = rows.get("K", [{}])[0].get("attributes", {}) if rows.get("K") else {}
        ok = t.result[0] == "return" and list(rows) == ["K"] and sorted(a.get("a", [])) == ["v1", "v2"] and a.get("b") == ["v3"] and \
            all(sorted(a.get(k, [])) == sorted(set(lines[0].attrs["attributes"].get(k, [])) | set(lines[1].attrs["attributes"].get(k, []))) for k in set(lines[0].attrs["attributes"]) | set(lines[1].attrs["attributes"]))
        ctx.ob("R3", ok, "%s: 'merge' unions the attribute values (without repeats) of features whose other columns agree, under the one key" % name, func=m,
               sig="%s: merged attributes are the union" % name if ok else "%s: merge -> %s rows %s" % (name, t.result[:2], {k: [r["attributes"] for r in v] for k, v in rows.items()}))
        want_rel = _links(gtf, lines[0], "K") | _links(gtf, lines[1], "K")
        ctx.ob("R5", rel == want_rel, "%s: under 'merge' the newcomer's links are added under the merged key (no Parent link is lost or invented)" % name, func=m,
               sig="%s: merge relations as prescribed" % name if rel == want_rel else "%s: merge relations missing %s unexpected %s" % (name, sorted(want_rel - rel)[:3], sorted(rel - want_rel)[:3]))
        # ---- merge with forced columns: three arrivals with sources a, b, a
        lines = _collision_lines(gtf, second_over=dict(source="b_src"), third=dict(source="src"))
        im, t, rows, rel = run("merge", lines, force_merge_fields=["source"])
        r0 = rows.get("K", [{}])[0]
        ok = t.result[0] == "return" and list(rows) == ["K"] and r0.get("source") == "b_src,src" and sorted(r0.get("attributes", {}).get("a", [])) == ["v1", "v2", "v4"]
        ctx.ob("R3", ok, "%s: a column named in force_merge_fields is exempt from the comparison and becomes the comma-joined set of the values seen (sources src, b_src, src)" % name, func=m,
               sig="%s: forced column joined as a set" % name if ok else "%s: forced merge -> %s source %r attributes %s" % (name, t.result[:2], r0.get("source"), r0.get("attributes")))
        # ...also when the newcomer repeats the stored attributes exactly (only the forced column differs)
        lines = _collision_lines(gtf, second_over=dict(source="b_src"))
        lines[1].attrs["attributes"] = {k: list(v) for k, v in lines[0].attrs["attributes"].items()}
        im, t, rows, rel = run("merge", lines, force_merge_fields=["source", "strand"])
        r0 = rows.get("K", [{}])[0]
        ok = t.result[0] == "return" and list(rows) == ["K"] and r0.get("source") == "b_src,src" and r0.get("strand") == "+" and r0.get("attributes") == lines[0].attrs["attributes"]
        ctx.ob("R3", ok, "%s: an exact repeat of the stored attributes still contributes its forced columns (sources src, b_src -> 'b_src,src'; equal strands stay '+')" % name, func=m,
               sig="%s: forced columns of an attribute-identical newcomer joined" % name if ok else "%s: repeat merge -> %s source %r strand %r" % (name, t.result[:2], r0.get("source"), r0.get("strand")))
        # without forcing, the same lines are not mergeable
        lines = _collision_lines(gtf, second_over=dict(source="b_src"))
        im, t, rows, rel = run("merge", lines)
        dups = im.table("duplicates")
        ok = t.result[0] == "return" and sorted(rows) == ["K", "K_1"] and rows["K"][0]["source"] == "src" and rows["K_1"][0]["source"] == "b_src" and dups == [("K", "K_1")]
        ctx.ob("R4", ok, "%s: a newcomer differing in another column is not merged: it is filed under a fresh '<key>_1' and remembered in `duplicates`" % name, func=m,
               sig="%s: non-mergeable newcomer filed under K_1" % name if ok else "%s: non-mergeable -> %s rows %s duplicates %s" % (name, t.result[:2], sorted(rows), dups))
        want_rel = _links(gtf, lines[0], "K") | _links(gtf, lines[1], "K_1")
        ctx.ob("R5", rel == want_rel, "%s: ...with its links under the fresh key" % name, func=m,
               sig="%s: links of K_1 under K_1" % name if rel == want_rel else "%s: relations missing %s unexpected %s" % (name, sorted(want_rel - rel)[:3], sorted(rel - want_rel)[:3]), nontrivial=False)
        # ---- a third arrival that agrees with the earlier '<key>_1' entry is merged into that entry
        lines = _collision_lines(gtf, second_over=dict(source="b_src"), third=dict(source="b_src"))
        im, t, rows, rel = run("merge", lines)
        a1 = rows.get("K_1", [{}])[0].get("attributes", {}) if rows.get("K_1") else {}
        want_rel = _links(gtf, lines[0], "K") | _links(gtf, lines[1], "K_1") | _links(gtf, lines[2], "K_1")
        ok = t.result[0] == "return" and sorted(rows) == ["K", "K_1"] and sorted(a1.get("a", [])) == ["v2", "v4"] and rows["K"][0]["attributes"].get("a") == ["v1"] and rel == want_rel
        ctx.ob("R5", ok, "%s: a newcomer merged into an earlier '<key>_n' entry has its attributes and its links recorded for that entry (not for '<key>')" % name, func=m,
               sig="%s: merged into K_1" % name if ok else "%s: third arrival -> %s rows %s, K_1 attributes %s, relations missing %s unexpected %s" % (
                   name, t.result[:2], sorted(rows), a1, sorted(want_rel - rel)[:3], sorted(rel - want_rel)[:3]))
        # ---- the same through update(): the '<key>_1' entry was filed by create_db, the third arrival comes with a later update
        lines = _collision_lines(gtf, second_over=dict(source="b_src"), third=dict(source="b_src"))
        im0, t0 = scen.run_create(ctx, cls, lines[:2], merge_strategy="merge", **extra)
        fup = require_func(ctx, "interface.FeatureDB.update")
        if scen.returned(ctx, t0, "%s create() with two colliding lines" % name, func=m, rule="R5"):
            it_, me_, conn_, t1 = scen.open_feature_db(ctx, im0.db)
            if scen.returned(ctx, t1, "FeatureDB(dbfn)", func=fup, rule="R5"):
                t2 = scen.call_method(ctx, it_, me_, "interface.FeatureDB.update", data=[lines[2]], make_backup=False, merge_strategy="merge", **extra)
                rows = {}
                for r in im0.db.rows("features", keys):
                    rows.setdefault(r[0], []).append(scen.decoded_row(r, keys))
                rel = {r for r in im0.db.rows("relations") if r[2] == 1 or gtf}
                a1 = rows.get("K_1", [{}])[0].get("attributes", {}) if rows.get("K_1") else {}
                derived = {k for k in rows if rows[k][0].get("source") == "gffutils_derived"}
                want_rel = _links(gtf, lines[0], "K") | _links(gtf, lines[1], "K_1") | _links(gtf, lines[2], "K_1")
                ok = t2.result[0] == "return" and sorted(set(rows) - derived) == ["K", "K_1"] and sorted(a1.get("a", [])) == ["v2", "v4"] and want_rel <= rel
                ctx.ob("R5", ok, "%s: in create_db followed by update alike -- a line arriving with a later update is merged into the '<key>_1' entry an earlier import filed" % name, func=fup,
                       sig="%s: update merges into K_1" % name if ok else "%s: update with a third arrival -> %s features %s, K_1 attributes %s, relations missing %s" % (
                           name, t2.result[:2], sorted(set(rows) - derived), a1, sorted(want_rel - rel)[:3]))
