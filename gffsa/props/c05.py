"""C05 -- duplicate keys are resolved exactly as the merge strategy says."""
import ast

from .. import sql as S
from ..cfg import cfg_of
from ..model import norm, parents, enclosing
from ..util import require_func, execute_sites, calls_in, call_attr, is_name, const_str, kwarg, single_assignment
from .c01 import populate_methods
from .c02 import feature_loop, schema

STRATEGIES = ["error", "warning", "replace", "create_unique", "merge"]


def strategy_branches(func, var):
    """{literal: body} for every `if <var> == "<literal>"` in func (if/elif
    chains included) + the final else body under key None."""
    out = {}
    for n in ast.walk(func.node):
        if isinstance(n, ast.If) and isinstance(n.test, ast.Compare) and len(n.test.ops) == 1 and isinstance(n.test.ops[0], ast.Eq) \
                and is_name(n.test.left, var) and const_str(n.test.comparators[0]) is not None:
            out[const_str(n.test.comparators[0])] = n.body
            if n.orelse and not (len(n.orelse) == 1 and isinstance(n.orelse[0], ast.If)):
                out.setdefault(None, n.orelse)
    return out


def _renamed(node, mapping):
    """Source of `node` with local names renamed (AST-level, not textual)."""
    import copy
    n2 = copy.deepcopy(node)
    for x in ast.walk(n2):
        if isinstance(x, ast.Name) and x.id in mapping:
            x.id = mapping[x.id]
    return norm(n2)


def _strip_wrappers(e):
    while isinstance(e, ast.Call) and isinstance(e.func, ast.Name) and e.func.id in ("tuple", "list") and len(e.args) == 1:
        e = e.args[0]
    return e


def _resolve_local(e, func):
    e = _strip_wrappers(e)
    if isinstance(e, ast.Name):
        v = single_assignment(func.node, e.id)
        if v is not None:
            return _strip_wrappers(v)
    return e


def r1_r6(ctx):
    dm = require_func(ctx, "create._DBCreator._do_merge")
    params = [p for p in dm.params if p != "self"]
    ctx.require(len(params) >= 2, "_do_merge signature changed")
    fv, sv = params[0], params[1]
    br = strategy_branches(dm, sv)
    for s in STRATEGIES:
        ctx.ob("R1", s in br, "the dispatcher has a branch for strategy '%s'" % s, func=dm,
               sig="strategy '%s' %s" % (s, "handled" if s in br else "not handled"), nontrivial=False)
    extra = [k for k in br if k is not None and k not in STRATEGIES]
    ctx.ob("R1", not extra, "no undocumented strategy literal is accepted", func=dm, sig="extra strategies %s" % extra, nontrivial=False)
    # error
    if "error" in br:
        ok = any(isinstance(b, ast.Raise) for b in br["error"]) and not any(isinstance(b, ast.Return) for b in br["error"])
        ctx.ob("R1", ok, "'error' aborts with an exception", func=dm, node=br["error"][0], sig="error -> raise" if ok else "error does not raise")
    # warning
    if "warning" in br:
        rets = [b for b in br["warning"] if isinstance(b, ast.Return)]
        ok = len(rets) == 1 and isinstance(rets[0].value, ast.Tuple) and len(rets[0].value.elts) == 2 and \
            isinstance(rets[0].value.elts[0], ast.Constant) and rets[0].value.elts[0].value is None and is_name(rets[0].value.elts[1], sv)
        ctx.ob("R1", ok, "'warning' hands nothing back to be written (None, strategy)", func=dm, node=br["warning"][0],
               sig="warning -> %s" % (norm(rets[0].value) if rets else "no return"))
    if "replace" in br:
        rets = [b for b in br["replace"] if isinstance(b, ast.Return)]
        ok = len(rets) == 1 and isinstance(rets[0].value, ast.Tuple) and is_name(rets[0].value.elts[0], fv) and is_name(rets[0].value.elts[1], sv) \
            and len(br["replace"]) == 1
        ctx.ob("R1", ok, "'replace' hands back the newcomer unchanged", func=dm, node=br["replace"][0],
               sig="replace -> %s" % (norm(rets[0].value) if rets else "no return"))
    if "create_unique" in br:
        body = br["create_unique"]
        asg = [b for b in body if isinstance(b, ast.Assign) and norm(b.targets[0]) == "%s.id" % fv]
        rets = [b for b in body if isinstance(b, ast.Return)]
        ok = len(asg) == 1 and isinstance(asg[0].value, ast.Call) and call_attr(asg[0].value) == "_increment_featuretype_autoid"
        base = norm(asg[0].value.args[0]) if ok and asg[0].value.args else None
        ctx.ob("R6", ok and base == "%s.id" % fv, "'create_unique' numbers the newcomer after the colliding key: <key>_1, <key>_2, ...", func=dm,
               node=body[0], sig="create_unique id := counter(%s)" % base)
        ok = len(rets) == 1 and isinstance(rets[0].value, ast.Tuple) and is_name(rets[0].value.elts[0], fv) and is_name(rets[0].value.elts[1], sv)
        ctx.ob("R1", ok, "'create_unique' hands back the renamed newcomer", func=dm, node=body[0], sig="create_unique -> %s" % (norm(rets[0].value) if rets else None))
    els = br.get(None)
    ok = els is not None and any(isinstance(b, ast.Raise) for b in els)
    ctx.ob("R1", ok, "an unknown strategy is rejected", func=dm, sig="unknown strategy -> raise" if ok else "unknown strategy falls through silently")
    # every exit of the dispatcher is a raise or a 2-tuple
    for r in [n for n in ast.walk(dm.node) if isinstance(n, ast.Return)]:
        ok = isinstance(r.value, ast.Tuple) and len(r.value.elts) == 2
        ctx.ob("R1", ok, "the dispatcher returns (feature-or-None, final strategy)", node=r, func=dm, sig="dispatcher return %s" % norm(r.value), nontrivial=False)
    # fall-off-the-end check: last top-level statement chain must end in raise/return on every path
    cfg = cfg_of(dm)
    fall = [p for p, l in cfg.pred[cfg.exit.id] if l != "return"]
    ctx.ob("R1", not fall, "no path leaves the dispatcher without a verdict (implicit None)", func=dm,
           sig="dispatcher has no fall-through exit" if not fall else "dispatcher can fall off the end (line %s)" % cfg.nodes[fall[0]].lineno)
    return br, fv, sv


def handler_table(ctx, m, sch):
    """Decision table of the importer's IntegrityError handler:
    {final strategy literal: [normalised effects]}."""
    loop, fv = feature_loop(ctx, m)
    hs = [h for h in ast.walk(loop) if isinstance(h, ast.ExceptHandler) and h.type is not None and "IntegrityError" in norm(h.type)]
    ctx.require(len(hs) == 1, "%s: expected one IntegrityError handler in the import loop, found %d" % (m.qual, len(hs)))
    h = hs[0]
    disp = [c for c in ast.walk(h) if isinstance(c, ast.Call) and call_attr(c) == "_do_merge"]
    ctx.require(len(disp) == 1, "%s: handler does not call the dispatcher exactly once" % m.qual)
    d = disp[0]
    st = None
    for p in parents(d):
        if isinstance(p, ast.Assign):
            st = p
            break
    ctx.require(st is not None and isinstance(st.targets[0], ast.Tuple) and len(st.targets[0].elts) == 2, "%s: dispatcher result not unpacked" % m.qual)
    fixed, fs = [e.id for e in st.targets[0].elts]
    ok = len(d.args) >= 2 and is_name(d.args[0], fv) and norm(d.args[1]) == "self.merge_strategy"
    ctx.ob("R1", ok, "%s: a collision is dispatched on the configured merge_strategy" % m.qual.split(".")[1], node=d, func=m,
           sig="dispatch %s" % norm(d))
    sites = {id(s.call): s for s in execute_sites(ctx, [m])}
    table = {}
    ren = {fixed: "FIXED", fv: "NEW"}
    br = {}
    for n in ast.walk(h):
        if isinstance(n, ast.If) and isinstance(n.test, ast.Compare) and is_name(n.test.left, fs) and const_str(n.test.comparators[0]) is not None \
                and isinstance(n.test.ops[0], ast.Eq):
            br[const_str(n.test.comparators[0])] = n.body
    for lit, body in br.items():
        effs = []
        for b in body:
            for c in [x for x in ast.walk(b) if isinstance(x, ast.Call)]:
                if id(c) in sites:
                    s = sites[id(c)]
                    stt = s.stmts[0] if s.stmts else None
                    if stt is None:
                        effs.append(("sql?", s.sql.text))
                        continue
                    sets = stt.sets if stt.verb == "UPDATE" else None
                    if isinstance(sets, list):
                        sets = tuple(c_.lower() for c_, _ in sets)
                    elif isinstance(sets, tuple):
                        hole = sets[1]
                        v = single_assignment(m.node, hole) if hole.isidentifier() else None
                        sets = ("expr", _renamed(v, ren) if v is not None else hole)
                    params = _resolve_local(s.params, m) if s.params is not None else None
                    guard = [norm(t) for t, pol in _guards_within(c, body)]
                    effs.append((stt.verb, stt.table.lower(), sets, S.show(stt.where) if getattr(stt, "where", None) else None,
                                 _renamed(params, ren) if params is not None else None, tuple(guard)))
                elif call_attr(c) in ("_replace", "_insert") and isinstance(c.func, ast.Attribute) and is_name(c.func.value, "self"):
                    effs.append((call_attr(c), _renamed(c.args[0], ren) if c.args else None))
        table[lit] = effs
    return h, table, fixed, fs, fv, loop


def _guards_within(node, body):
    out = []
    child = node
    for p in parents(node):
        if any(p is b for b in body):
            if isinstance(p, ast.If) and any(child is s for s in p.body):
                out.append((p.test, True))
            break
        if isinstance(p, ast.If):
            out.append((p.test, any(child is s for s in p.body)))
        child = p
    return out


def r1_handlers(ctx, sch):
    meths = populate_methods(ctx)
    ctx.floor("R1", len(meths), 2, "importers with a collision handler")
    tables = {}
    for m in meths:
        ctx.touch(m)
        h, table, fixed, fs, fv, loop = handler_table(ctx, m, sch)
        tables[m.qual] = table
        name = m.qual.split(".")[1]
        mg = table.get("merge", [])
        upd = [e for e in mg if e[0] == "UPDATE" and e[1] == "features" and e[2] == ("attributes",)]
        ok = len(upd) == 1 and upd[0][3] == "id = ?1" and upd[0][4] == "(helpers._jsonify(FIXED.attributes), FIXED.id)"
        ctx.ob("R3", ok, "%s: after a merge the stored row's attributes become the merged attributes (bound to the merged feature's id)" % name,
               node=h, func=m, sig="%s merge writes %s" % (name, upd[0][2:5] if upd else "no attributes UPDATE"))
        forced = [e for e in mg if e[0] == "UPDATE" and e[1] == "features" and e[2] and e[2][0] == "expr"]
        ok = len(forced) == 1 and "self.force_merge_fields" in forced[0][2][1] and "%s = ?" in forced[0][2][1] and \
            forced[0][4] is not None and "getattr(FIXED, field) for field in self.force_merge_fields" in forced[0][4] and forced[0][4].endswith("+ [FIXED.id]") \
            and forced[0][5] == ("self.force_merge_fields",)
        ctx.ob("R3", ok, "%s: columns named in force_merge_fields are updated to the merged values (exactly those columns, bound in the same order)" % name,
               node=h, func=m, sig="%s forced-column update %s" % (name, forced[0][2:6] if forced else "missing"))
        ok = table.get("replace") == [("_replace", "NEW")]
        ctx.ob("R1", ok, "%s: 'replace' overwrites the stored row with the newcomer" % name, node=h, func=m, sig="%s replace effects %s" % (name, table.get("replace")))
        ok = table.get("create_unique") == [("_insert", "NEW")]
        ctx.ob("R1", ok, "%s: 'create_unique' inserts the renamed newcomer" % name, node=h, func=m, sig="%s create_unique effects %s" % (name, table.get("create_unique")))
        ok = not table.get("warning") and not table.get("error")
        ctx.ob("R1", ok, "%s: 'warning' writes nothing" % name, node=h, func=m, sig="%s warning effects %s" % (name, table.get("warning")), nontrivial=False)
    quals = sorted(tables)
    if len(quals) >= 2:
        a, b = tables[quals[0]], tables[quals[1]]
        same = a == b
        diff = [k for k in set(a) | set(b) if a.get(k) != b.get(k)]
        ctx.ob("R1", same, "the GFF and the GTF importer resolve collisions alike (equal decision tables: strategy -> effects)",
               func=ctx.proj.funcs[quals[1]], sig="importer collision tables agree" if same else "importer collision tables differ on %s" % sorted(map(str, diff)),
               detail=None if same else "%s: %s | %s: %s" % (quals[0], {k: a.get(k) for k in diff}, quals[1], {k: b.get(k) for k in diff}))
    # _replace really updates the row with that id
    rp = require_func(ctx, "create._DBCreator._replace")
    ss = [s for s in execute_sites(ctx, [rp]) if enclosing(s.call, ast.ExceptHandler) is None]
    ok = len(ss) == 1 and norm(ss[0].call.args[0]) == "constants._UPDATE"
    ctx.ob("R1", ok, "_replace issues the full-row UPDATE ... WHERE id = ?", func=rp, sig="_replace executes %s" % (norm(ss[0].call.args[0]) if ss else None))


def r2_r3_r4(ctx, sch):
    dm = require_func(ctx, "create._DBCreator._do_merge")
    gk = ctx.folder.const("constants", "_gffkeys")
    fixed8 = set(gk[:-1])
    asg = [n for n in ast.walk(dm.node) if isinstance(n, ast.Assign) and is_name(n.targets[0], "_gffkeys_to_check")]
    ctx.floor("R2", len(asg), 1, "definitions of the compared column set")
    v = _strip_wrappers(asg[0].value)
    ok = False
    shown = norm(v)
    if isinstance(v, ast.Call) and call_attr(v) == "difference" and len(v.args) == 1 and norm(v.args[0]) == "self.force_merge_fields":
        base = v.func.value
        if isinstance(base, ast.Call) and is_name(base.func, "set") and base.args:
            folded = ctx.folder.try_fold(base.args[0], dm.module.name, default=None)
            ok = folded is not None and set(folded) == fixed8
    ctx.ob("R2", ok, "a merge requires agreement on the eight fixed columns minus force_merge_fields", node=asg[0], func=dm,
           sig="compared columns := %s" % shown)
    cmp_ok = False
    for n in ast.walk(dm.node):
        if isinstance(n, ast.Compare) and isinstance(n.ops[0], ast.NotEq) and "getattr(" in norm(n.left) and "getattr(" in norm(n.comparators[0]):
            loop = enclosing(n, ast.For)
            if loop is not None and is_name(loop.iter, "_gffkeys_to_check"):
                cmp_ok = True
    ctx.ob("R2", cmp_ok, "each compared column of the stored feature is compared with the newcomer's", func=dm,
           sig="column comparison over _gffkeys_to_check" if cmp_ok else "column comparison loop not found")
    init = require_func(ctx, "create._DBCreator.__init__")
    ok = False
    for n in ast.walk(init.node):
        if isinstance(n, ast.If) and "merge_strategy == 'merge'" in norm(n.test):
            for m in ast.walk(n):
                if isinstance(m, ast.If) and "intersection(force_merge_fields)" in norm(m.test) and any(isinstance(b, ast.Raise) for b in m.body):
                    lits = {x.value for x in ast.walk(m.test) if isinstance(x, ast.Constant) and isinstance(x.value, str)}
                    ok = lits == {"start", "end"}
    ctx.ob("R2", ok, "start/end cannot be forced under 'merge' (rejected at construction)", func=init,
           sig="start/end in force_merge_fields -> ValueError" if ok else "start/end in force_merge_fields not rejected")
    # ---- R3 union without repeats
    sets = [n for n in ast.walk(dm.node) if isinstance(n, ast.Assign) and isinstance(n.targets[0], ast.Subscript)
            and is_name(n.targets[0].value, "merged_attributes") and isinstance(n.value, ast.Call) and is_name(n.value.func, "list")]
    ok = any(isinstance(n.value.args[0], ast.Call) and is_name(n.value.args[0].func, "set") for n in sets if n.value.args)
    alt = [n for n in ast.walk(dm.node) if isinstance(n, ast.Assign) and isinstance(n.targets[0], ast.Subscript)
           and is_name(n.targets[0].value, "merged_attributes") and "set(" in norm(n.value)]
    ctx.ob("R3", ok or bool([a for a in alt if "sorted(set(" in norm(a.value)]), "merged attribute values are de-duplicated (set) before they are stored", func=dm,
           sig="merged values := %s" % (norm(sets[0].value) if sets else norm(alt[0].value) if alt else "not de-duplicated"))
    ext = [c for c in calls_in(dm.node) if call_attr(c) == "extend" and c.args and norm(c.args[0]).startswith("existing_feature[")]
    seed = [n for n in ast.walk(dm.node) if isinstance(n, ast.Assign) and is_name(n.targets[0], "merged_attributes")]
    ok = bool(ext) and bool(seed) and norm(seed[0].value) in ("copy.deepcopy(f.attributes)", "copy.deepcopy(f.attributes._d)")
    ctx.ob("R3", ok, "the union starts from a copy of the newcomer's attributes and is extended by every matching stored feature's values", func=dm,
           sig="merge union seed %s, extended by %s" % (norm(seed[0].value) if seed else None, norm(ext[0].args[0]) if ext else None))
    ff = [n for n in ast.walk(dm.node) if isinstance(n, ast.Call) and is_name(n.func, "setattr") and len(n.args) == 3]
    ok = bool(ff) and norm(ff[0].args[2]) in ("','.join(sorted(map(str, v)))",)
    ctx.ob("R3", ok, "a forced column becomes the comma-joined sorted set of the values seen", func=dm,
           sig="forced column := %s" % (norm(ff[0].args[2]) if ff else None))
    fin = [n for n in ast.walk(dm.node) if isinstance(n, ast.Assign) and is_name(n.targets[0], "final_fields")]
    ok = bool(fin) and "set([getattr(f, field)])" in norm(fin[0].value) and "self.force_merge_fields" in norm(fin[0].value)
    upd = [c for c in calls_in(dm.node) if call_attr(c) == "update" and norm(c.func.value) == "final_fields[field]"
           and c.args and norm(c.args[0]) == "[getattr(existing_feature, field)]"]
    ctx.ob("R3", ok and bool(upd), "the forced-column sets collect the newcomer's and every merged feature's value", func=dm,
           sig="forced-column sets seeded from f and updated from existing_feature" if ok and upd else "forced-column value collection changed")
    # ---- R4 candidates + duplicates bookkeeping
    cm = require_func(ctx, "create._DBCreator._candidate_merges")
    sel = [s for s in execute_sites(ctx, [cm]) if s.stmts and s.stmts[0].verb == "SELECT"]
    ctx.floor("R4", len(sel), 1, "candidate queries")
    spec = S.to_cq(S.parse("SELECT f.id FROM features f JOIN duplicates d ON d.newid = f.id WHERE d.idspecid = :key"), sch)
    got = S.to_cq(sel[0].stmts[0], sch, {0: "key"})
    import copy
    g2 = copy.copy(got)
    g2.proj = [t for t in got.proj if t[2] == "id"][:1]
    eq = S.cq_equivalent(g2, spec)
    ctx.ob("R4", eq, "merge candidates = features recorded in `duplicates` under the colliding key (D.newid = F.id, D.idspecid = key)", node=sel[0].call, func=cm,
           sig="candidate query ≅ specification" if eq else "candidate query differs: " + got.describe())
    okp = isinstance(sel[0].params, ast.Tuple) and [norm(e) for e in sel[0].params.elts] == ["f.id"]
    ctx.ob("R4", okp, "the candidate query is bound to the colliding key", node=sel[0].call, func=cm, sig="candidate query bound to %s" % norm(sel[0].params))
    first = [n for n in ast.walk(cm.node) if isinstance(n, ast.Assign) and is_name(n.targets[0], "candidates")]
    ok = bool(first) and norm(first[0].value) == "[self._get_feature(f.id)]"
    ctx.ob("R4", ok, "the feature stored under the key itself is a candidate", func=cm, sig="candidates start with %s" % (norm(first[0].value) if first else None))
    ad = [c for c in calls_in(dm.node) if call_attr(c) == "_add_duplicate"]
    ctx.ob("R4", len(ad) >= 1, "a non-mergeable newcomer is recorded in `duplicates` (so later arrivals can find it)", func=dm,
           sig="duplicate bookkeeping present" if ad else "the dispatcher never records a renamed newcomer in `duplicates`")
    dcfg = cfg_of(dm)
    for c in ad:
        a0 = _resolve_local(c.args[0], dm) if c.args else None
        # the colliding key must be captured BEFORE the recursive create_unique dispatch renames the feature in place
        renames = [x for x in calls_in(dm.node) if call_attr(x) == "_do_merge"]
        captured = False
        if c.args and isinstance(c.args[0], ast.Name):
            asg = [n for n in ast.walk(dm.node) if isinstance(n, ast.Assign) and is_name(n.targets[0], c.args[0].id)]
            captured = len(asg) == 1 and norm(asg[0].value) == "f.id" and renames and all(
                dcfg.dominates(dcfg.node_for(asg[0]).id, dcfg.node_for(x).id) and dcfg.node_for(asg[0]).id != dcfg.node_for(x).id for x in renames)
        ctx.ob("R4", captured, "the colliding key recorded in `duplicates` is the key as it was before the newcomer was renamed", node=c, func=dm,
               sig="colliding key captured before the rename" if captured else "colliding key read after (or without) the rename: _add_duplicate(%s, ...)" % (norm(c.args[0]) if c.args else "?"))
        ok = len(c.args) == 2 and a0 is not None and norm(a0) == "f.id" and norm(c.args[1]).endswith(".id") and norm(c.args[1]) != "f.id"
        # a0 must be read BEFORE the rename: the local must be assigned before the recursive create_unique call
        ctx.ob("R4", ok, "a non-mergeable newcomer is remembered as (colliding key, fresh key)", node=c, func=dm,
               sig="_add_duplicate(%s, %s)" % (norm(a0) if a0 is not None else None, norm(c.args[1]) if len(c.args) > 1 else None))
        guard = [norm(t) for t, pol in __import__("gffsa.util", fromlist=["guards_of"]).guards_of(c, dm.node) if pol]
        ctx.ob("R4", any("len(features_to_merge) == 0" in g for g in guard), "...exactly when no stored feature agrees on the compared columns", node=c, func=dm,
               sig="_add_duplicate guarded by %s" % guard, nontrivial=False)
        rec = [x for x in calls_in(dm.node) if call_attr(x) == "_do_merge" and (const_str(kwarg(x, "merge_strategy") or ast.Constant(value=None)) == "create_unique"
                                                                              or (len(x.args) > 1 and const_str(x.args[1]) == "create_unique"))]
        ctx.ob("R4", bool(rec), "...and is filed under a fresh '<key>_n' (create_unique)", node=c, func=dm,
               sig="no-candidate path re-dispatches with create_unique" if rec else "no-candidate path does not rename the newcomer")
    adf = require_func(ctx, "create._DBCreator._add_duplicate")
    ins = [s for s in execute_sites(ctx, [adf]) if s.stmts and s.stmts[0].verb == "INSERT" and enclosing(s.call, ast.ExceptHandler) is None]
    ctx.floor("R4", len(ins), 1, "INSERT INTO duplicates sites")
    st = ins[0].stmts[0]
    cols = [c.lower() for c in (st.columns or sch["duplicates"]["columns"])]
    vals = [norm(e) for e in ins[0].params.elts] if isinstance(ins[0].params, ast.Tuple) else []
    ok = st.table.lower() == "duplicates" and cols == vals == ["idspecid", "newid"] and adf.params[1:3] == ["idspecid", "newid"]
    ctx.ob("R4", ok, "the duplicates row is (idspecid, newid) in that order", node=ins[0].call, func=adf, sig="duplicates row %s -> %s" % (vals, cols))


class _Walk:
    """Structured walk of statements under a partial environment
    {final strategy, fixed is None}: unknown tests fork.  Collects whether a
    target node can be executed and how the block can end."""

    def __init__(self, env, targets):
        self.env, self.targets = env, targets
        self.hit = False

    def test(self, t):
        e = self.env
        if isinstance(t, ast.Compare) and len(t.ops) == 1:
            l, r = t.left, t.comparators[0]
            if is_name(l, e["fs_name"]) and const_str(r) is not None:
                v = e["fs"] == const_str(r)
                return v if isinstance(t.ops[0], ast.Eq) else (not v) if isinstance(t.ops[0], ast.NotEq) else None
            if is_name(l, e["fs_name"]) and isinstance(t.ops[0], (ast.In, ast.NotIn)) and isinstance(r, (ast.Tuple, ast.List, ast.Set)):
                v = e["fs"] in [const_str(x) for x in r.elts]
                return v if isinstance(t.ops[0], ast.In) else not v
            if is_name(l, e["fixed_name"]) and isinstance(r, ast.Constant) and r.value is None:
                v = e["fixed_none"]
                return v if isinstance(t.ops[0], (ast.Is, ast.Eq)) else not v
        if is_name(t, e["fixed_name"]):
            return not e["fixed_none"]
        if isinstance(t, ast.UnaryOp) and isinstance(t.op, ast.Not):
            v = self.test(t.operand)
            return None if v is None else not v
        if isinstance(t, ast.BoolOp):
            vs = [self.test(v) for v in t.values]
            if isinstance(t.op, ast.And):
                if any(v is False for v in vs):
                    return False
                return True if all(v is True for v in vs) else None
            if any(v is True for v in vs):
                return True
            return False if all(v is False for v in vs) else None
        return None

    def block(self, stmts):
        """-> set of endings: 'fall', 'continue', 'break', 'raise', 'return'"""
        ends = {"fall"}
        for st in stmts:
            if "fall" not in ends:
                break
            ends.discard("fall")
            ends |= self.stmt(st)
        return ends

    def stmt(self, st):
        if any(st is t or any(x is t for x in ast.walk(st)) for t in self.targets) and not isinstance(st, (ast.If, ast.For, ast.While, ast.Try, ast.With)):
            self.hit = True
        if isinstance(st, ast.If):
            v = self.test(st.test)
            out = set()
            if v is not False:
                out |= self.block(st.body)
            if v is not True:
                out |= self.block(st.orelse) if st.orelse else {"fall"}
            return out
        if isinstance(st, (ast.For, ast.While)):
            inner = self.block(st.body)
            out = {"fall"}
            out |= {x for x in inner if x in ("raise", "return")}
            return out
        if isinstance(st, ast.With):
            return self.block(st.body)
        if isinstance(st, ast.Try):
            out = self.block(st.body)
            for h in st.handlers:
                out |= self.block(h.body)
            return out
        if isinstance(st, ast.Continue):
            return {"continue"}
        if isinstance(st, ast.Break):
            return {"break"}
        if isinstance(st, ast.Raise):
            return {"raise"}
        if isinstance(st, ast.Return):
            return {"return"}
        return {"fall"}


def r5(ctx, sch):
    for m in populate_methods(ctx):
        name = m.qual.split(".")[1]
        h, table, fixed, fs, fv, loop = handler_table(ctx, m, sch)
        rel = [s for s in execute_sites(ctx, [m]) if s.stmts and s.stmts[0].verb == "INSERT" and s.stmts[0].table.lower() == "relations"]
        ctx.floor("R5", len(rel), 1, "relation inserts in %s" % name)
        # statements of the loop body after the try that holds the handler
        tr = None
        for p in parents(h):
            if isinstance(p, ast.Try):
                tr = p
                break
        top = None
        for p in [tr] + list(parents(tr)):
            if any(p is b for b in loop.body):
                top = p
                break
        ctx.require(top is not None, "%s: collision handler is not in the import loop body" % m.qual)
        rest = loop.body[loop.body.index(top) + 1:]
        env = {"fs_name": fs, "fixed_name": fixed, "fs": "warning", "fixed_none": True}
        w = _Walk(env, [s.call for s in rel])
        # the part of the handler after the dispatcher call
        ends = w.block(h.body)
        leak = False
        if "fall" in ends:
            w.block(rest)
            leak = w.hit
        ctx.ob("R5", not leak,
               "%s: when a colliding newcomer is discarded ('warning': nothing is written for it) none of its Parent/transcript/gene links is "
               "inserted" % name, node=h, func=m,
               sig="%s: relation insert reachable on the discard path of the collision handler" % name if leak else
               "%s: no relation insert on the discard path" % name,
               detail=None if not leak else "with final_strategy == 'warning' the handler falls out without writing; control then reaches the "
                                            "relation INSERT at line %d, which links the *kept* feature's id to the ignored line's parents" % min(s.call.lineno for s in rel))
        # and the kept strategies still reach it (no link is lost)
        for strat in ("merge", "replace", "create_unique"):
            env2 = {"fs_name": fs, "fixed_name": fixed, "fs": strat, "fixed_none": False}
            w2 = _Walk(env2, [s.call for s in rel])
            e2 = w2.block(h.body)
            if "fall" in e2:
                w2.block(rest)
            ctx.ob("R5", w2.hit, "%s: under '%s' the newcomer's links are still added (no Parent link is lost)" % (name, strat), node=h, func=m,
                   sig="%s: relation insert reached under %s" % (name, strat) if w2.hit else "%s: relation insert skipped under %s" % (name, strat), nontrivial=False)
        # replace: the replaced row's links must be dropped
        pool = [m, ctx.proj.func("create._DBCreator._replace")]
        dels = []
        for s in execute_sites(ctx, pool + [ctx.proj.method(m.cls, "_update_relations")]):
            for st in (s.stmts or []):
                if st.verb == "DELETE" and st.table.lower() == "relations" and st.where is not None and "child" in S.show(st.where).lower():
                    dels.append(s)
        ctx.ob("R5", bool(dels),
               "%s: when 'replace' overwrites a stored feature, the relations that named the replaced feature as child are removed before the "
               "newcomer's links are added (inline, in _replace, or in one sweep)" % name, node=h, func=m,
               sig="%s: replace keeps the replaced row's relations (no DELETE FROM relations ... child)" % name if not dels else
               "%s: replaced row's relations are deleted" % name,
               detail=None if dels else "children(old parent) still lists the key after its feature was replaced by one with a different Parent")


def check(ctx):
    ctx.explanation = (
        "Order-sensitive decision tables: the dispatcher's strategy cascade (literal -> raise / (None|feature, strategy) / renamed id) and "
        "the IntegrityError handler of each importer (final strategy -> set of effects: SQL verb, table, assigned columns, WHERE, bound "
        "values, helper called); the GFF and GTF tables must be equal. Merge specifics are def-use facts (compared column set folds to the "
        "eight fixed columns minus force_merge_fields; de-duplication through set; forced columns comma-joined) plus a conjunctive-query "
        "comparison of the candidate query. R5 is a CFG reachability rule on the discard path and a who-deletes rule for 'replace'. Does "
        "not decide the outcome for every interleaving of collisions (history-dependent data).")
    sch = schema(ctx)
    r1_r6(ctx)
    r1_handlers(ctx, sch)
    r2_r3_r4(ctx, sch)
    r5(ctx, sch)
