"""C08 -- attribute values survive print/parse; parsing never fails."""
import ast
import re

from ..callgraph import Effects
from ..cfg import cfg_of
from ..decide import truth_table
from ..model import norm, parents, enclosing
from ..partial import collect, justify
from ..util import require_func, calls_in, call_attr, is_name, const_str, kwarg, guards_of

REQUIRED = set("\t\n\r%;=&,") | {chr(i) for i in range(32)} | {chr(127)}


def r1(ctx):
    tq = ctx.folder.const("parser", "_to_quote")
    m = ctx.proj.module("parser")
    missing = sorted(REQUIRED - set(tq))
    ctx.ob("R1", not missing, "every reserved character of GFF3 column 9 (TAB, LF, CR, %, ;, =, &, ',', 0x00-0x1F, 0x7F) is in the encode set",
           node=m.toplevel.get("_to_quote"), sig="_to_quote covers the reserved set" if not missing else "_to_quote lacks %r" % missing)
    extra = sorted(set(tq) - REQUIRED)
    ctx.ob("R1", not ({" ", '"'} & set(extra)), "blank and double quote are not encoded (GFF3 does not encode them)", node=m.toplevel.get("_to_quote"),
           sig="_to_quote extras %r" % extra, nontrivial=False)
    # cross-check: structural single-character literals of the gff3 split path and of feature_from_line
    sk = require_func(ctx, "parser._split_keyvals")
    lits = set()
    for c in calls_in(sk.node):
        if call_attr(c) == "split" and c.args and const_str(c.args[0]) and len(const_str(c.args[0]).strip() or " ") == 1:
            s = const_str(c.args[0]).strip()
            if s:
                lits.add(s)
    for n in ast.walk(sk.node):
        if isinstance(n, ast.For) and isinstance(n.iter, ast.Tuple):
            for e in n.iter.elts:
                if const_str(e):
                    lits.add(const_str(e).strip())
    ffl = require_func(ctx, "feature.feature_from_line")
    for c in calls_in(ffl.node):
        if call_attr(c) in ("split", "rstrip") and c.args and const_str(c.args[0]):
            lits |= set(const_str(c.args[0]))
    lits.discard("")
    lits.discard(" ")
    bad = sorted(x for x in lits if len(x) == 1 and x not in tq)
    ctx.ob("R1", not bad, "every structural character the parser splits on is encoded on output", func=sk,
           sig="structural literals %r all encoded" % sorted(lits) if not bad else "structural literal(s) %r are not encoded" % bad)


def _cond_fn(test, polarity=True):
    """test over the atoms {ignore, gff3} -> fn(env)."""
    def ev(n, env):
        if isinstance(n, ast.BoolOp):
            vs = [ev(v, env) for v in n.values]
            return all(vs) if isinstance(n.op, ast.And) else any(vs)
        if isinstance(n, ast.UnaryOp) and isinstance(n.op, ast.Not):
            return not ev(n.operand, env)
        s = norm(n)
        if s == "constants.ignore_url_escape_characters":
            return env["ignore"]
        if isinstance(n, ast.Compare) and norm(n.left) == "dialect['fmt']" and const_str(n.comparators[0]) == "gff3":
            return env["gff3"] if isinstance(n.ops[0], ast.Eq) else not env["gff3"]
        raise ValueError(s)
    return (lambda env: ev(test, env)) if polarity else (lambda env: not ev(test, env))


def _walk_guards(node, stop):
    from ..util import guards_of as _g
    return _g(node, stop)


def r2_r3(ctx):
    rc = require_func(ctx, "parser._reconstruct")
    sk = require_func(ctx, "parser._split_keyvals")
    from ..util import closure
    pool = closure(ctx, sk)
    dec = []
    for f in pool:
        for c in calls_in(f.node):
            d = ctx.proj.dotted(c.func, f.module, f) or ""
            if d.startswith("urllib") and d.split(".")[-1] in ("unquote", "unquote_plus", "unquote_to_bytes"):
                dec.append((f, c))
    ctx.ob("R2", len(dec) >= 1, "the parser percent-decodes attribute values", func=sk, sig="%d percent-decoding call(s)" % len(dec))
    if not dec:
        return
    ctx.ob("R2", all(ctx.proj.dotted(c.func, f.module, f).split(".")[-1] == "unquote" for f, c in dec), "decoding is plain percent-decoding ('+' stays '+')", func=dec[0][0],
           sig="decoder %s" % sorted({ctx.proj.dotted(c.func, f.module, f) for f, c in dec}))
    # decode condition: conjunction of the guards of the decode call that speak about (ignore flag, fmt); other guards
    # (pure shortcuts such as `"%" in v`) do not decide *whether* escapes are honoured and are left out
    def cond_of(node, fn):
        parts = []
        for t, pol in _walk_guards(node, fn.node):
            try:
                fn_ = _cond_fn(t, pol)
                fn_({"ignore": False, "gff3": True})
                fn_({"ignore": True, "gff3": False})
                parts.append(fn_)
            except ValueError:
                continue
        return (lambda env: all(p(env) for p in parts)), len(parts)
    want = lambda env: env["gff3"] and not env["ignore"]
    for f, c in dec:
        decode, n = cond_of(c, f)
        cex = truth_table(["ignore", "gff3"], decode, want)
        ctx.ob("R2", cex is None and n >= 1, "decoding applies to gff3 dialects only, unless ignore_url_escape_characters", node=c, func=f,
               sig="decode iff gff3 and not ignored" if cex is None and n >= 1 else "decode condition wrong at %s" % (cex,))
    # encode condition on the print side is decided semantically by the printer template (every value encoded iff gff3 and not ignored)
    from .c07 import r_printer, r_decode_layer, r_roundtrip
    r_printer(ctx, rule="R2")
    r_decode_layer(ctx, rule="R2")
    r_roundtrip(ctx, rule="R2")
    # ---- R3 the encoder
    q = require_func(ctx, "parser.Quoter.__missing__")
    b = [p for p in q.params if p != "self"][0]
    fm = [c for c in calls_in(q.node) if call_attr(c) == "format" and const_str(c.func.value) is not None]
    pc = [n for n in ast.walk(q.node) if isinstance(n, ast.BinOp) and isinstance(n.op, ast.Mod) and const_str(n.left)]
    spec = None
    arg = None
    if fm:
        spec = const_str(fm[0].func.value)
        arg = norm(fm[0].args[0]) if fm[0].args else None
        m = re.fullmatch(r"%\{(?:0)?:(0?)(\d+)([Xx])\}", spec)
        shape = (m.group(1) == "0", int(m.group(2)), m.group(3)) if m else None
    elif pc:
        spec = const_str(pc[0].left)
        arg = norm(pc[0].right)
        m = re.fullmatch(r"%%%(0?)(\d+)([Xx])", spec)
        shape = (m.group(1) == "0", int(m.group(2)), m.group(3)) if m else None
    else:
        shape = None
    ok = shape == (True, 2, "X") and arg == "ord(%s)" % b
    ctx.ob("R3", ok, "a reserved character becomes '%' + two upper-case hex digits of its code point", func=q, sig="encoder format %r of %s" % (spec, arg))
    g = []
    for n in ast.walk(q.node):
        if isinstance(n, ast.If):
            g.append(norm(n.test))
    ok = any("%s in _to_quote" % b in t for t in g)
    ctx.ob("R3", ok, "exactly the characters of the encode set are encoded", func=q, sig="encoder guard %s" % g)
    els = [n for n in ast.walk(q.node) if isinstance(n, ast.Assign) and is_name(n.targets[0], "res") and is_name(n.value, b)]
    ctx.ob("R3", bool(els), "every other character is passed through unchanged", func=q, sig="pass-through branch present" if els else "no pass-through branch", nontrivial=False)
    # per-character application to every value (and to values only) is decided by the printer template (R2)


def r4(ctx):
    dk = set(ctx.folder.const("constants", "dialect"))
    sk = require_func(ctx, "parser._split_keyvals")
    funcs = [sk] + [g for lst in sk.nested.values() for g in lst]
    total = 0
    hist = {}
    for f in funcs:
        ctx.touch(f)
        cfg = cfg_of(f)
        for s in collect(f):
            total += 1
            j = justify(s, f, dk, cfg)
            what = {"index": "index %s of %s" % (s.key, norm(s.base)), "key": "key %s of %s" % (norm(s.key) if not isinstance(s.key, int) else s.key, norm(s.base)),
                    "unpack": "unpacking %s into %s names" % (norm(s.base), s.key)}[s.kind]
            hist[j.split(" ")[0] if j else "none"] = hist.get(j.split(" ")[0] if j else "none", 0) + 1
            ctx.ob("R4", j is not None, "partial operation (%s) cannot raise: it needs a guard, a split-result base, a dominating store/test, a dialect key or an enclosing handler" % what,
                   node=s.node, func=f,
                   sig="%s in `%s`: %s" % (what, norm(_stmt(s.node))[:70], j) if j else "%s in `%s`: unguarded" % (what, norm(_stmt(s.node))[:70]))
    ctx.floor("R4", total, 25, "partial operations in the attribute parser")
    ctx.extra["justifications"] = hist
    ffl = require_func(ctx, "feature.feature_from_line")
    cfg = cfg_of(ffl)
    n = 0
    for s in collect(ffl):
        if s.kind == "index":
            n += 1
            j = justify(s, ffl, dk, cfg)
            ctx.ob("R4", j is not None, "column access %s in feature_from_line cannot raise" % norm(s.node), node=s.node, func=ffl,
                   sig="%s: %s" % (norm(s.node), j or "unguarded"))
    ctx.floor("R4", n, 1, "constant-index column reads in feature_from_line")
    raises = [n_ for f in funcs for n_ in ast.walk(f.node) if isinstance(n_, ast.Raise)]
    ctx.ob("R4", not raises, "the attribute parser has no explicit raise", func=sk, sig="explicit raises: %d" % len(raises))
    ctx.assume("R4: supplied dialect dictionaries are complete (every key of constants.dialect present); urllib.parse.unquote and re.match do not raise on str")


def _stmt(n):
    from ..model import stmt_of
    return stmt_of(n) or n


def r5_r6(ctx):
    sk = require_func(ctx, "parser._split_keyvals")
    eff = Effects(ctx)
    reach = eff.reach(sk.qual)
    for q in sorted(reach):
        f = ctx.proj.funcs[q]
        ws = [n for n in ast.walk(f.node) if isinstance(n, ast.While)]
        ctx.ob("R5", not ws, "no unbounded loop in the parser's call closure (%s)" % q.split(".", 1)[1], func=f, sig="%s: %d while loop(s)" % (q.split(".", 1)[1], len(ws)))
    rec = [q for q in reach if any(g.qual == sk.qual for g, _ in eff.callees.get(q, []))]
    ctx.ob("R5", not rec, "the parser does not call itself", func=sk, sig="recursion via %s" % rec if rec else "no recursion")
    fors = [n for n in ast.walk(sk.node) if isinstance(n, ast.For)]
    for n in fors:
        it = n.iter
        src = it.args[0] if isinstance(it, ast.Call) and is_name(it.func, "enumerate") and it.args else it
        grows = [c for c in ast.walk(n) if isinstance(c, ast.Call) and call_attr(c) in ("append", "extend", "insert") and norm(c.func.value) == norm(src)]
        ctx.ob("R5", not grows, "no loop of the parser grows the sequence it iterates", node=n, func=sk,
               sig="loop over %s is bounded" % norm(src) if not grows else "loop over %s appends to it" % norm(src), nontrivial=False)
    # ---- R6
    funcs = [sk] + [g for lst in sk.nested.values() for g in lst]
    n_st = 0
    from ..util import own_nodes
    for f in funcs:
        for n in own_nodes(f.node):
            if isinstance(n, ast.Assign) and isinstance(n.targets[0], ast.Subscript) and is_name(n.targets[0].value, "quals"):
                n_st += 1
                v = n.value
                ok = isinstance(v, (ast.List, ast.ListComp)) or (isinstance(v, ast.Name) and _is_listcomp_name(f, v.id)) or \
                    (isinstance(v, ast.Call) and (is_name(v.func, "list") or call_attr(v) in ("split", "copy")))
                ctx.ob("R6", ok, "attribute values are created as lists", node=n, func=f, sig="quals[...] := %s" % norm(v)[:50])
            if isinstance(n, ast.Call) and isinstance(n.func, ast.Attribute) and isinstance(n.func.value, ast.Subscript) and is_name(n.func.value.value, "quals"):
                ok = n.func.attr in ("append", "extend")
                ctx.ob("R6", ok, "value lists only ever grow by append/extend", node=n, func=f, sig="quals[...].%s(...)" % n.func.attr, nontrivial=False)
    ctx.floor("R6", n_st, 1, "stores into the attribute mapping")
    rets = [n for n in ast.walk(sk.node) if isinstance(n, ast.Return) and enclosing(n, ast.FunctionDef) is sk.node]
    ok = all(isinstance(r.value, ast.Tuple) and len(r.value.elts) == 2 and norm(r.value.elts[0]) == "quals" and norm(r.value.elts[1]) == "dialect" for r in rets)
    ctx.ob("R6", ok and len(rets) >= 3, "every exit returns (mapping, dialect)", func=sk, sig="returns %s" % sorted({norm(r.value) for r in rets}))


def _is_listcomp_name(f, name):
    from ..util import single_assignment
    v = single_assignment(f.node, name)
    return isinstance(v, ast.ListComp)


def check(ctx):
    ctx.explanation = (
        "Encode set folded from the source and compared with the statement's list; encode/decode conditions compared by truth table; the "
        "encoder's format specification parsed; every partial operation (constant-index subscript, fixed-arity unpack, mapping read) of "
        "the attribute parser enumerated from the AST and discharged by a named justification (split-result base, dominating guard, "
        "early return, dominating store/test, dialect key, enclosing handler); no while/recursion in the call closure; values are lists "
        "of strings by construction. Does not decide that a printed feature re-parses to the same mapping (string semantics).")
    r1(ctx)
    r2_r3(ctx)
    r4(ctx)
    r5_r6(ctx)
