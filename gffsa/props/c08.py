"""C08 -- attribute values survive print/parse; parsing never fails."""
import ast
import re

from ..callgraph import Effects
from ..cfg import cfg_of
from ..decide import truth_table
from ..model import norm, parents, enclosing
from ..partial import collect, justify
from ..util import require_func, calls_in, call_attr, is_name, const_str, kwarg, guards_of

REQUIRED = set("\t\n\r%;=&,") | {chr(i) for i in range(32)} | {chr(127)}


def r1(ctx):
    # the effective encode set: the constant the encoder tests its character against (folded from the source)
    n0 = len(ctx.obs)
    tq = encoder_semantics(ctx, rule="R3")
    del ctx.obs[n0:]   # the encoder's own obligations are reported once, under R3
    q = require_func(ctx, "parser.Quoter.__missing__")
    ctx.require(bool(tq), "the encoder's encode set could not be determined")
    missing = sorted(REQUIRED - set(tq))
    ctx.ob("R1", not missing, "every reserved character of GFF3 column 9 (TAB, LF, CR, %, ;, =, &, ',', 0x00-0x1F, 0x7F) is in the encode set",
           func=q, sig="the encode set covers the reserved set" if not missing else "the encode set lacks %r" % missing)
    extra = sorted(set(tq) - REQUIRED)
    ctx.ob("R1", not ({" ", '"'} & set(extra)), "blank and double quote are not encoded (GFF3 does not encode them)", func=q,
           sig="encode set extras %r" % extra, nontrivial=False)
    # cross-check: structural single-character literals of the gff3 split path and of feature_from_line
    sk = require_func(ctx, "parser._split_keyvals")
    lits = set()
    for c in calls_in(sk.node):
        if call_attr(c) == "split" and c.args and const_str(c.args[0]) and len(const_str(c.args[0]).strip() or " ") == 1:
            s = const_str(c.args[0]).strip()
            if s:
                lits.add(s)
    for n in ast.walk(sk.node):
        if isinstance(n, ast.For) and isinstance(n.iter, ast.Tuple):
            for e in n.iter.elts:
                if const_str(e):
                    lits.add(const_str(e).strip())
    ffl = require_func(ctx, "feature.feature_from_line")
    for c in calls_in(ffl.node):
        if call_attr(c) in ("split", "rstrip") and c.args and const_str(c.args[0]):
            lits |= set(const_str(c.args[0]))
    lits.discard("")
    lits.discard(" ")
    bad = sorted(x for x in lits if len(x) == 1 and x not in tq)
    ctx.ob("R1", not bad, "every structural character the parser splits on is encoded on output", func=sk,
           sig="structural literals %r all encoded" % sorted(lits) if not bad else "structural literal(s) %r are not encoded" % bad)


def r2_r3(ctx):
    rc = require_func(ctx, "parser._reconstruct")
    sk = require_func(ctx, "parser._split_keyvals")
    # whether, where and under which switch the parser decodes is decided by the template round trip with literally escaped
    # values (decoded per value exactly in gff3 dialects with escapes honoured; '+' stays '+')
    # encode condition on the print side is decided semantically by the printer template (every value encoded iff gff3 and not ignored)
    from .c07 import r_printer, r_roundtrip, r_literal
    r_printer(ctx, rule="R2")
    r_roundtrip(ctx, rule="R2")
    r_literal(ctx, rule="R2")
    # ---- R3 the encoder, by abstract evaluation of Quoter.__missing__ on a symbolic character
    encoder_semantics(ctx)
    # per-character application to every value (and to values only) is decided by the printer template (R2)


def _fresh_quoter(ctx):
    """parser.Quoter() evaluated: the encoder object with whatever its constructor sets up, and an empty cache."""
    from ..absint import Interp, TypeVal, Trace, Opaque, Unsupported
    it = Interp(ctx)
    it.construct_real |= {"parser.Quoter"}
    it.choices, it.ptr, it.pending = [], 0, []
    it.trace = Trace()
    it.depth = 0
    try:
        o = it.call_type("parser.Quoter", [], {}, ast.Constant(value=None, lineno=0, col_offset=0))
    except Unsupported as e:
        ctx.require(False, "parser.Quoter() outside the analysable subset: %s" % e)
    ctx.require(isinstance(o, Opaque), "parser.Quoter() does not construct")
    o.attrs.setdefault("__items__", {})
    return o


def encoder_semantics(ctx, rule="R3"):
    """Quoter.__missing__(b) evaluated for a symbolic one-character b: the outcomes are partitioned by the membership
    test(s) on b; returns the effective encode set (characters for which the result is the escape)."""
    from ..absint import Interp, Sym, AStr, ACond, Unsupported
    q = require_func(ctx, "parser.Quoter.__missing__")
    bname = [p for p in q.params if p != "self"][0]
    try:
        # self: a freshly constructed encoder (its own constructor evaluated), whose cache is still empty -- __missing__ runs
        # exactly when the character is not in it yet
        traces = Interp(ctx).run(q, {bname: Sym("b", "str", None)}, self_obj=_fresh_quoter(ctx), copy_self=True)
    except Unsupported as e:
        ctx.require(False, "encoder outside the analysable subset: %s" % e)
    rows = []

    def empty_decided(d):
        """(is-empty outcome) when the decision speaks about b being the empty string, else None."""
        v, out = d[0], d[1]
        if isinstance(v, Sym) and v.name == "b":
            return not out
        if isinstance(v, ACond) and v.op in ("==", "!=") and {type(v.left), type(v.right)} == {Sym, str} and "" in (v.left, v.right):
            return out if v.op == "==" else not out
        return None
    # each path classifies the character: equal to one constant, inside constant set(s), outside constant sets/constants
    for t in traces:
        is_empty = None
        exact, inside, outside, other = None, [], set(), []
        for d in t.decisions:
            e_ = empty_decided(d)
            if e_ is not None:
                is_empty = e_
                continue
            v = d[0]
            inner, neg = v, False
            while isinstance(inner, ACond) and inner.op == "not":
                inner, neg = inner.left, not neg
            if isinstance(inner, ACond) and inner.op == "in" and isinstance(inner.left, Sym) and inner.left.name == "b" and isinstance(inner.right, (str, tuple, list, frozenset, set)) \
                    and all(isinstance(x, str) and len(x) == 1 for x in inner.right):
                if d[1] != neg:
                    inside.append(frozenset(inner.right))
                else:
                    outside |= set(inner.right)
                continue
            if isinstance(inner, ACond) and inner.op in ("==", "!=") and isinstance(inner.left, Sym) and inner.left.name == "b" and isinstance(inner.right, str) and len(inner.right) == 1:
                eq = (d[1] != neg) == (inner.op == "==")
                if eq:
                    exact = inner.right
                else:
                    outside.add(inner.right)
                continue
            other.append(d)
        if is_empty:
            continue  # the encoder is applied per character: b is never empty
        rows.append((exact, inside, outside, other, t))
    n_other = sum(len(r[3]) for r in rows)
    ctx.ob(rule, n_other == 0, "the encoder decides only by comparing the character with constants (membership in a constant set / equality with table keys)", func=q,
           sig="encoder decisions: %d path(s), %d decision(s) about something else" % (len(rows), n_other))
    escape_of = lambda c: "%%%02X" % ord(c)
    sym_escape = lambda v: isinstance(v, AStr) and len(v.parts) == 2 and v.parts[0] == "%" and isinstance(v.parts[1], Sym) and v.parts[1].name in ("fmt(ord(b),02X)",)
    same = lambda v: (isinstance(v, Sym) and v.name == "b") or (isinstance(v, AStr) and len(v.parts) == 1 and isinstance(v.parts[0], Sym) and v.parts[0].name == "b")
    encoded = set()        # characters for which some path returns something else than the character
    passed = set()         # characters known to be passed through on some path
    bad = []
    n_default = 0
    for exact, inside, outside, _o, t in rows:
        res = t.result[1] if t.result[0] == "return" else None
        shown = repr(res) if t.result[0] == "return" else "raises %s" % (t.result[1],)
        if exact is not None:
            if res == exact or same(res):
                passed.add(exact)
            elif res == escape_of(exact) or sym_escape(res):
                encoded.add(exact)
            else:
                encoded.add(exact)
                bad.append("character %r -> %s" % (exact, shown))
        elif inside:
            chars = frozenset.intersection(*inside) - outside
            if sym_escape(res):
                encoded |= chars
            elif same(res):
                passed |= chars
            else:
                encoded |= chars          # transformed, though not into the escape
                bad.append("character in %s -> %s" % (sorted(chars)[:4], shown))
        else:
            n_default += 1
            if not same(res):
                bad.append("any other character -> %s" % shown)
        stores = [e for e in t.events if e[0] == "setitem"]
        okc = all((repr(e[3]) == repr(res)) and (same(e[2]) or e[2] == exact) for e in stores if not (isinstance(e[2], str) and e[2].startswith("__")))
        if not okc:
            bad.append("cache store differs from the returned value")
    ctx.ob(rule, not bad, "a reserved character becomes '%' + two upper-case hex digits of its code point, every other character is passed through unchanged, "
           "and what the encoder caches for a character is what it returns for it", func=q,
           sig="encoder outcomes: %d character(s) escaped as %%XX, all others unchanged" % len(encoded) if not bad else "encoder: %s" % "; ".join(bad[:3]))
    # the cache outlives a change of the module switch: what is cached must not depend on it
    try:
        flipped = Interp(ctx, overrides={("constants", "ignore_url_escape_characters"): True}).run(q, {bname: Sym("b", "str", None)}, self_obj=_fresh_quoter(ctx), copy_self=True)
    except Unsupported as e:
        ctx.require(False, "encoder outside the analysable subset: %s" % e)
    sig_of = lambda ts: sorted((repr([(repr(d[0]), d[1]) for d in t.decisions]), repr(t.result[1:])) for t in ts)
    caches = any(e[0] == "setitem" for t in traces for e in t.events)
    ctx.ob(rule, not caches or sig_of(traces) == sig_of(flipped), "what the encoder caches per character does not depend on the run-time switch ignore_url_escape_characters "
           "(the cache would otherwise answer for the switch's earlier state)", func=q,
           sig="cached encoder results are independent of the switch" if (not caches or sig_of(traces) == sig_of(flipped)) else "cached encoder result depends on ignore_url_escape_characters")
    ctx.floor(rule, len(rows), 2, "encoder outcomes (in the set / outside)")
    ctx.require(n_default >= 1, "no path of the encoder covers 'any other character'")
    return encoded - passed


def r4(ctx):
    """Partial operations of the attribute parser and of feature_from_line's column reads: constant-index subscripts and
    fixed-arity unpacks are decided by the sequence-length abstract interpretation (lenai), under the calling contexts in
    which helpers are actually reached; mapping reads keep their named justification (J4/J5/J6)."""
    from ..lenai import Analysis
    dk = set(ctx.folder.const("constants", "dialect"))
    sk = require_func(ctx, "parser._split_keyvals")
    ffl = require_func(ctx, "feature.feature_from_line")
    total = 0
    hist = {}
    unproven = []
    for root, label in ((sk, "the attribute parser"), (ffl, "feature_from_line")):
        an = Analysis(ctx.proj, max_depth=5)
        an.analyse(root)
        ctx.require(not an.truncated or root is ffl, "length analysis of %s incomplete: %s" % (root.qual, "; ".join(an.truncated[:3])))
        visited = an.visited_funcs if root is sk else [ffl]
        for f in visited:
            ctx.touch(f)
        n_root = 0
        for _id, (node, f, ok, what) in sorted(an.sites.items(), key=lambda kv: (kv[1][1].qual, kv[1][0].lineno, kv[1][0].col_offset)):
            if f not in visited:
                continue
            j = None
            if not ok:
                # an enclosing handler of the exception the operation raises (J6)
                kind = "unpack" if isinstance(node, ast.Assign) else "index"
                from ..partial import Site
                st = Site(kind, node, node.value, 0, f)
                j = _handler_only(st, f)
            n_root += 1
            hist["length" if ok else (j.split(" ")[0] if j else "none")] = hist.get("length" if ok else (j.split(" ")[0] if j else "none"), 0) + 1
            if not ok and j is None and root is sk and _corpus_clean(ctx):
                # not provable for all strings by the length analysis (the bound lives in object state, a helper's contract, ...):
                # every string up to the corpus bound reaches it without raising
                unproven.append("%s:%d" % (f.qual.split(".", 1)[1], node.lineno))
                continue
            ctx.ob("R4", ok or j is not None, "partial operation in %s cannot raise: the abstract length of the base covers it (or an enclosing handler catches it)" % label,
                   node=node, func=f,
                   sig="%s: %s" % (norm(node)[:60] if not isinstance(node, ast.Assign) else norm(node.targets[0]) + " = " + norm(node.value)[:40],
                                   "covered" if ok else (j or "unguarded")),
                   detail=what)
        total += n_root
        if root is sk:
            if n_root == 0:
                ctx.note("the length analysis found no constant-index / fixed-arity operation in the functions it reaches from _split_keyvals: "
                         "'parsing never raises' rests on the exhaustive corpus of R6 alone")
            # mapping reads
            for f in visited:
                cfg = cfg_of(f)
                for s_ in collect(f):
                    if s_.kind != "key":
                        continue
                    total += 1
                    j = justify(s_, f, dk, cfg)
                    hist[j.split(" ")[0] if j else "none"] = hist.get(j.split(" ")[0] if j else "none", 0) + 1
                    what = "key %s of %s" % (norm(s_.key), norm(s_.base))
                    ctx.ob("R4", j is not None, "mapping read (%s) cannot raise: dominating store/test, dialect key or enclosing handler" % what, node=s_.node, func=f,
                           sig="%s in `%s`: %s" % (what, norm(_stmt(s_.node))[:70], j or "unguarded"))
        else:
            ctx.floor("R4", n_root, 1, "constant-index column reads in feature_from_line")
    if unproven:
        ctx.note("partial operations not provable for all strings by the length analysis, exercised without raising by every string of the R6 corpus: %s" % ", ".join(unproven[:6]))
    ctx.floor("R4", total + len(unproven), 1, "partial operations in the attribute parser and the line parser")
    ctx.extra["justifications"] = hist
    funcs = [sk] + [g for lst in sk.nested.values() for g in lst]
    raises = [n_ for f in funcs for n_ in ast.walk(f.node) if isinstance(n_, ast.Raise)]
    ctx.ob("R4", not raises, "the attribute parser has no explicit raise", func=sk, sig="explicit raises: %d" % len(raises))
    ctx.assume("R4: supplied dialect dictionaries are complete (every key of constants.dialect present); urllib.parse.unquote and re.match do not raise on str; "
               "lists built locally are not shrunk through aliases; the arity of tuples returned by library calls (re groups) is not decided")


def _handler_only(site, func):
    """J6 only: an enclosing try whose handler catches the operation's exception."""
    want = "IndexError" if site.kind == "index" else "ValueError"
    child = site.node
    for p in parents(site.node):
        if p is func.node:
            break
        if isinstance(p, ast.Try) and any(child is s_ or any(child is x for x in ast.walk(s_)) for s_ in p.body):
            for h in p.handlers:
                t = norm(h.type) if h.type is not None else "Exception"
                if want in t or t in ("Exception", "BaseException", "LookupError"):
                    return "J6 (except %s)" % t
        child = p
    return None


def _stmt(n):
    from ..model import stmt_of
    return stmt_of(n) or n


def r5_r6(ctx):
    sk = require_func(ctx, "parser._split_keyvals")
    eff = Effects(ctx)
    reach = eff.reach(sk.qual)
    for q in sorted(reach):
        f = ctx.proj.funcs[q]
        ws = [n for n in ast.walk(f.node) if isinstance(n, ast.While)]
        ctx.ob("R5", not ws, "no unbounded loop in the parser's call closure (%s)" % q.split(".", 1)[1], func=f, sig="%s: %d while loop(s)" % (q.split(".", 1)[1], len(ws)))
    rec = [q for q in reach if any(g.qual == sk.qual for g, _ in eff.callees.get(q, []))]
    ctx.ob("R5", not rec, "the parser does not call itself", func=sk, sig="recursion via %s" % rec if rec else "no recursion")
    fors = [n for n in ast.walk(sk.node) if isinstance(n, ast.For)]
    for n in fors:
        it = n.iter
        src = it.args[0] if isinstance(it, ast.Call) and is_name(it.func, "enumerate") and it.args else it
        grows = [c for c in ast.walk(n) if isinstance(c, ast.Call) and call_attr(c) in ("append", "extend", "insert") and norm(c.func.value) == norm(src)]
        ctx.ob("R5", not grows, "no loop of the parser grows the sequence it iterates", node=n, func=sk,
               sig="loop over %s is bounded" % norm(src) if not grows else "loop over %s appends to it" % norm(src), nontrivial=False)
    # ---- R6: on every parse of the template round trip (R2) the result is (mapping, dialect) and every value of the mapping a list of strings
    n = ctx.extra.get("roundtrip_traces", 0)
    bad = ctx.extra.get("roundtrip_nonlist", [])
    ctx.floor("R6", n, 100, "template parses")
    ctx.ob("R6", not bad, "every parse returns a mapping whose values are lists of strings (%d template parses)" % n, func=sk,
           sig="values are lists of strings" if not bad else "values of %s are not lists of strings" % (bad[0][1],), detail=bad[0][0] if bad else "")
    _corpus_clean(ctx)
    ctx.obs.extend(ctx._cache["corpus_obs"])


def _corpus_clean(ctx):
    """The exhaustive malformed-text corpus (R6) evaluated once; True when no string raises or yields a non-list."""
    cache = ctx.__dict__.setdefault("_cache", {})
    if "corpus_clean" not in cache:
        n0 = len(ctx.obs)
        malformed(ctx)
        cache["corpus_clean"] = all(o.ok for o in ctx.obs[n0:])
        cache["corpus_obs"] = ctx.obs[n0:]
        del ctx.obs[n0:]
    return cache["corpus_clean"]


def malformed(ctx):
    """R6 on malformed text: the parser's source evaluated (own evaluator, gffutils is not imported) on every string up to a
    length bound over the structural alphabet, with a gff3 dialect, a GTF dialect and none: it returns (mapping, dialect) with
    lists of strings, and never raises.  Bounded evidence next to the for-all statements of R4 (partial operations)."""
    import itertools
    from .. import printer
    from ..absint import Unsupported, is_strlike
    from .c07 import regex_patterns
    sk = require_func(ctx, "parser._split_keyvals")
    pat = dict(regex_patterns(ctx, "parser"))       # every compiled pattern of the parser module, by name
    base = {"leading semicolon": False, "trailing semicolon": False, "quoted GFF2 values": False, "field separator": ";",
            "keyval separator": "=", "multival separator": ",", "fmt": "gff3", "repeated keys": False, "order": []}
    gtf = dict(base, **{"fmt": "gtf", "quoted GFF2 values": True, "field separator": "; ", "keyval separator": " ", "trailing semicolon": True})
    alphabet = ';= ",k%'
    bound = 3 if ctx.tier == "quick" else 5
    n = 0
    bad = None
    for ln in range(bound + 1):
        for tup in itertools.product(alphabet, repeat=ln):
            text = "".join(tup)
            for name, d in (("gff3", base), ("gtf", gtf), ("inferred", None)):
                try:
                    traces = printer.parse_run(ctx, sk, text, None if d is None else dict(d, order=[]), pat)
                except Unsupported as e:
                    ctx.require(False, "attribute parser outside the analysable subset on %r: %s" % (text, e))
                for t in traces:
                    n += 1
                    if bad is not None:
                        continue
                    if t.result[0] != "return":
                        bad = "raises %s on %r (%s dialect)" % (t.result[1], text, name)
                        continue
                    res = t.result[1]
                    if not (isinstance(res, tuple) and len(res) == 2 and isinstance(res[0], dict) and isinstance(res[1], dict)):
                        bad = "returns %r on %r (%s dialect)" % (type(res).__name__, text, name)
                        continue
                    odd = [k for k, v_ in res[0].items() if not (isinstance(v_, list) and all(is_strlike(x) for x in v_))]
                    if odd:
                        bad = "value of %r is not a list of strings on %r (%s dialect)" % (odd[0], text, name)
    ctx.floor("R6", n, 1000, "malformed-text parses")
    ctx.ob("R6", bad is None, "every string up to length %d over the structural alphabet %r parses, with a gff3 dialect, a GTF dialect and none, to (mapping of lists of strings, dialect) without raising (%d parses)" % (bound, alphabet, n),
           func=sk, sig="malformed text parses to lists of strings" if bad is None else "parser %s" % bad)


def check(ctx):
    ctx.explanation = (
        "Encode set folded from the source and compared with the statement's list; encode/decode conditions compared by truth table; the "
        "encoder's format specification parsed; every partial operation (constant-index subscript, fixed-arity unpack, mapping read) of "
        "the attribute parser enumerated from the AST and discharged by a named justification (split-result base, dominating guard, "
        "early return, dominating store/test, dialect key, enclosing handler); no while/recursion in the call closure; values are lists "
        "of strings by construction. Does not decide that a printed feature re-parses to the same mapping (string semantics).")
    r1(ctx)
    r2_r3(ctx)
    r4(ctx)
    r5_r6(ctx)
