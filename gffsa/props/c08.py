"""C08 -- attribute values survive print/parse; parsing never fails."""
import ast
import re

from ..callgraph import Effects
from ..cfg import cfg_of
from ..decide import truth_table
from ..model import norm, parents, enclosing
from ..partial import collect, justify
from ..util import require_func, calls_in, call_attr, is_name, const_str, kwarg, guards_of

REQUIRED = set("\t\n\r%;=&,") | {chr(i) for i in range(32)} | {chr(127)}


def r1(ctx):
    # the effective encode set: the constant the encoder tests its character against (folded from the source)
    n0 = len(ctx.obs)
    tq = encoder_semantics(ctx, rule="R3")
    del ctx.obs[n0:]   # the encoder's own obligations are reported once, under R3
    q = require_func(ctx, "parser.Quoter.__missing__")
    ctx.require(bool(tq), "the encoder's encode set could not be determined")
    missing = sorted(REQUIRED - set(tq))
    ctx.ob("R1", not missing, "every reserved character of GFF3 column 9 (TAB, LF, CR, %, ;, =, &, ',', 0x00-0x1F, 0x7F) is in the encode set",
           func=q, sig="the encode set covers the reserved set" if not missing else "the encode set lacks %r" % missing)
    extra = sorted(set(tq) - REQUIRED)
    ctx.ob("R1", not ({" ", '"'} & set(extra)), "blank and double quote are not encoded (GFF3 does not encode them)", func=q,
           sig="encode set extras %r" % extra, nontrivial=False)
    # cross-check: structural single-character literals of the gff3 split path and of feature_from_line
    sk = require_func(ctx, "parser._split_keyvals")
    lits = set()
    for c in calls_in(sk.node):
        if call_attr(c) == "split" and c.args and const_str(c.args[0]) and len(const_str(c.args[0]).strip() or " ") == 1:
            s = const_str(c.args[0]).strip()
            if s:
                lits.add(s)
    for n in ast.walk(sk.node):
        if isinstance(n, ast.For) and isinstance(n.iter, ast.Tuple):
            for e in n.iter.elts:
                if const_str(e):
                    lits.add(const_str(e).strip())
    ffl = require_func(ctx, "feature.feature_from_line")
    for c in calls_in(ffl.node):
        if call_attr(c) in ("split", "rstrip") and c.args and const_str(c.args[0]):
            lits |= set(const_str(c.args[0]))
    lits.discard("")
    lits.discard(" ")
    bad = sorted(x for x in lits if len(x) == 1 and x not in tq)
    ctx.ob("R1", not bad, "every structural character the parser splits on is encoded on output", func=sk,
           sig="structural literals %r all encoded" % sorted(lits) if not bad else "structural literal(s) %r are not encoded" % bad)


def _cond_fn(test, polarity=True):
    """test over the atoms {ignore, gff3} -> fn(env)."""
    def ev(n, env):
        if isinstance(n, ast.BoolOp):
            vs = [ev(v, env) for v in n.values]
            return all(vs) if isinstance(n.op, ast.And) else any(vs)
        if isinstance(n, ast.UnaryOp) and isinstance(n.op, ast.Not):
            return not ev(n.operand, env)
        s = norm(n)
        if s == "constants.ignore_url_escape_characters":
            return env["ignore"]
        if isinstance(n, ast.Compare) and norm(n.left) == "dialect['fmt']" and const_str(n.comparators[0]) == "gff3":
            return env["gff3"] if isinstance(n.ops[0], ast.Eq) else not env["gff3"]
        raise ValueError(s)
    return (lambda env: ev(test, env)) if polarity else (lambda env: not ev(test, env))


def _walk_guards(node, stop):
    from ..util import guards_of as _g
    return _g(node, stop)


def r2_r3(ctx):
    rc = require_func(ctx, "parser._reconstruct")
    sk = require_func(ctx, "parser._split_keyvals")
    from ..util import closure
    pool = closure(ctx, sk)
    dec = []
    for f in pool:
        for c in calls_in(f.node):
            d = ctx.proj.dotted(c.func, f.module, f) or ""
            if d.startswith("urllib") and d.split(".")[-1] in ("unquote", "unquote_plus", "unquote_to_bytes"):
                dec.append((f, c))
    ctx.ob("R2", len(dec) >= 1, "the parser percent-decodes attribute values", func=sk, sig="%d percent-decoding call(s)" % len(dec))
    if not dec:
        return
    ctx.ob("R2", all(ctx.proj.dotted(c.func, f.module, f).split(".")[-1] == "unquote" for f, c in dec), "decoding is plain percent-decoding ('+' stays '+')", func=dec[0][0],
           sig="decoder %s" % sorted({ctx.proj.dotted(c.func, f.module, f) for f, c in dec}))
    # decode condition: conjunction of the guards of the decode call that speak about (ignore flag, fmt); other guards
    # (pure shortcuts such as `"%" in v`) do not decide *whether* escapes are honoured and are left out
    def cond_of(node, fn):
        parts = []
        for t, pol in _walk_guards(node, fn.node):
            try:
                fn_ = _cond_fn(t, pol)
                fn_({"ignore": False, "gff3": True})
                fn_({"ignore": True, "gff3": False})
                parts.append(fn_)
            except ValueError:
                continue
        return (lambda env: all(p(env) for p in parts)), len(parts)
    want = lambda env: env["gff3"] and not env["ignore"]
    for f, c in dec:
        decode, n = cond_of(c, f)
        cex = truth_table(["ignore", "gff3"], decode, want)
        ctx.ob("R2", cex is None and n >= 1, "decoding applies to gff3 dialects only, unless ignore_url_escape_characters", node=c, func=f,
               sig="decode iff gff3 and not ignored" if cex is None and n >= 1 else "decode condition wrong at %s" % (cex,))
    # encode condition on the print side is decided semantically by the printer template (every value encoded iff gff3 and not ignored)
    from .c07 import r_printer, r_decode_layer, r_roundtrip
    r_printer(ctx, rule="R2")
    r_decode_layer(ctx, rule="R2")
    r_roundtrip(ctx, rule="R2")
    # ---- R3 the encoder, by abstract evaluation of Quoter.__missing__ on a symbolic character
    encoder_semantics(ctx)
    # per-character application to every value (and to values only) is decided by the printer template (R2)


def encoder_semantics(ctx, rule="R3"):
    """Quoter.__missing__(b) evaluated for a symbolic one-character b: the outcomes are partitioned by the membership
    test(s) on b; returns the effective encode set (characters for which the result is the escape)."""
    from ..absint import Interp, Sym, AStr, ACond, Unsupported
    q = require_func(ctx, "parser.Quoter.__missing__")
    bname = [p for p in q.params if p != "self"][0]
    try:
        traces = Interp(ctx).run(q, {bname: Sym("b", "str", None)})
    except Unsupported as e:
        ctx.require(False, "encoder outside the analysable subset: %s" % e)
    sets = []
    rows = []

    def empty_decided(d):
        """(is-empty outcome) when the decision speaks about b being the empty string, else None."""
        v, out = d[0], d[1]
        if isinstance(v, Sym) and v.name == "b":
            return not out
        if isinstance(v, ACond) and v.op in ("==", "!=") and {type(v.left), type(v.right)} == {Sym, str} and "" in (v.left, v.right):
            return out if v.op == "==" else not out
        return None
    for t in traces:
        is_empty = None
        member = None
        other = []
        for d in t.decisions:
            e_ = empty_decided(d)
            if e_ is not None:
                is_empty = e_
                continue
            v = d[0]
            inner, neg = v, False
            while isinstance(inner, ACond) and inner.op == "not":
                inner, neg = inner.left, not neg
            if isinstance(inner, ACond) and inner.op == "in" and isinstance(inner.left, Sym) and inner.left.name == "b" and isinstance(inner.right, (str, tuple, list, frozenset, set)):
                sets.append(frozenset(inner.right))
                member = d[1] != neg
                continue
            other.append(d)
        if is_empty:
            continue  # the encoder is applied per character: b is never empty
        rows.append((member, other, t))
    ctx.ob(rule, len(set(sets)) == 1 and not any(o for _m, o, _t in rows), "the encoder decides by one membership test of the character in a constant set", func=q,
           sig="encoder decisions: membership in %d set(s), %d other decision(s)" % (len(set(sets)), sum(len(o) for _m, o, _t in rows)))
    escape = lambda v: isinstance(v, AStr) and len(v.parts) == 2 and v.parts[0] == "%" and isinstance(v.parts[1], Sym) and v.parts[1].name in ("fmt(ord(b),02X)",)
    same = lambda v: (isinstance(v, Sym) and v.name == "b") or (isinstance(v, AStr) and len(v.parts) == 1 and isinstance(v.parts[0], Sym) and v.parts[0].name == "b")
    for member, _o, t in rows:
        res = t.result[1] if t.result[0] == "return" else None
        what = "in the encode set" if member else "outside the encode set" if member is False else "any"
        if member:
            ctx.ob(rule, escape(res), "a reserved character becomes '%' + two upper-case hex digits of its code point", func=q,
                   sig="character %s -> %s" % (what, "escape %XX" if escape(res) else repr(res) if t.result[0] == "return" else "raises %s" % t.result[1]))
        else:
            ctx.ob(rule, same(res), "every other character is passed through unchanged", func=q,
                   sig="character %s -> %s" % (what, "unchanged" if same(res) else repr(res) if t.result[0] == "return" else "raises %s" % t.result[1]))
        stores = [e for e in t.events if e[0] == "setitem"]
        okc = all(repr(e[3]) == repr(res) and same(e[2]) for e in stores)
        ctx.ob(rule, okc, "what the encoder caches for a character is what it returns for it", func=q,
               sig="cache store for a character %s %s" % (what, "matches" if okc else "differs from the returned value"), nontrivial=False)
    ctx.floor(rule, len(rows), 2, "encoder outcomes (in the set / outside)")
    return set(sets[0]) if sets else set()


def r4(ctx):
    """Partial operations of the attribute parser and of feature_from_line's column reads: constant-index subscripts and
    fixed-arity unpacks are decided by the sequence-length abstract interpretation (lenai), under the calling contexts in
    which helpers are actually reached; mapping reads keep their named justification (J4/J5/J6)."""
    from ..lenai import Analysis
    dk = set(ctx.folder.const("constants", "dialect"))
    sk = require_func(ctx, "parser._split_keyvals")
    ffl = require_func(ctx, "feature.feature_from_line")
    total = 0
    hist = {}
    for root, label in ((sk, "the attribute parser"), (ffl, "feature_from_line")):
        an = Analysis(ctx.proj, max_depth=5)
        an.analyse(root)
        ctx.require(not an.truncated or root is ffl, "length analysis of %s incomplete: %s" % (root.qual, "; ".join(an.truncated[:3])))
        visited = an.visited_funcs if root is sk else [ffl]
        for f in visited:
            ctx.touch(f)
        n_root = 0
        for _id, (node, f, ok, what) in sorted(an.sites.items(), key=lambda kv: (kv[1][1].qual, kv[1][0].lineno, kv[1][0].col_offset)):
            if f not in visited:
                continue
            j = None
            if not ok:
                # an enclosing handler of the exception the operation raises (J6)
                kind = "unpack" if isinstance(node, ast.Assign) else "index"
                from ..partial import Site
                st = Site(kind, node, node.value, 0, f)
                j = _handler_only(st, f)
            n_root += 1
            hist["length" if ok else (j.split(" ")[0] if j else "none")] = hist.get("length" if ok else (j.split(" ")[0] if j else "none"), 0) + 1
            ctx.ob("R4", ok or j is not None, "partial operation in %s cannot raise: the abstract length of the base covers it (or an enclosing handler catches it)" % label,
                   node=node, func=f,
                   sig="%s: %s" % (norm(node)[:60] if not isinstance(node, ast.Assign) else norm(node.targets[0]) + " = " + norm(node.value)[:40],
                                   "covered" if ok else (j or "unguarded")),
                   detail=what)
        total += n_root
        if root is sk:
            ctx.floor("R4", n_root, 8, "index/unpack operations in the attribute parser")
            # mapping reads
            for f in visited:
                cfg = cfg_of(f)
                for s_ in collect(f):
                    if s_.kind != "key":
                        continue
                    total += 1
                    j = justify(s_, f, dk, cfg)
                    hist[j.split(" ")[0] if j else "none"] = hist.get(j.split(" ")[0] if j else "none", 0) + 1
                    what = "key %s of %s" % (norm(s_.key), norm(s_.base))
                    ctx.ob("R4", j is not None, "mapping read (%s) cannot raise: dominating store/test, dialect key or enclosing handler" % what, node=s_.node, func=f,
                           sig="%s in `%s`: %s" % (what, norm(_stmt(s_.node))[:70], j or "unguarded"))
        else:
            ctx.floor("R4", n_root, 1, "constant-index column reads in feature_from_line")
    ctx.floor("R4", total, 20, "partial operations in the attribute parser and the line parser")
    ctx.extra["justifications"] = hist
    funcs = [sk] + [g for lst in sk.nested.values() for g in lst]
    raises = [n_ for f in funcs for n_ in ast.walk(f.node) if isinstance(n_, ast.Raise)]
    ctx.ob("R4", not raises, "the attribute parser has no explicit raise", func=sk, sig="explicit raises: %d" % len(raises))
    ctx.assume("R4: supplied dialect dictionaries are complete (every key of constants.dialect present); urllib.parse.unquote and re.match do not raise on str; "
               "lists built locally are not shrunk through aliases; the arity of tuples returned by library calls (re groups) is not decided")


def _handler_only(site, func):
    """J6 only: an enclosing try whose handler catches the operation's exception."""
    want = "IndexError" if site.kind == "index" else "ValueError"
    child = site.node
    for p in parents(site.node):
        if p is func.node:
            break
        if isinstance(p, ast.Try) and any(child is s_ or any(child is x for x in ast.walk(s_)) for s_ in p.body):
            for h in p.handlers:
                t = norm(h.type) if h.type is not None else "Exception"
                if want in t or t in ("Exception", "BaseException", "LookupError"):
                    return "J6 (except %s)" % t
        child = p
    return None


def _stmt(n):
    from ..model import stmt_of
    return stmt_of(n) or n


def r5_r6(ctx):
    sk = require_func(ctx, "parser._split_keyvals")
    eff = Effects(ctx)
    reach = eff.reach(sk.qual)
    for q in sorted(reach):
        f = ctx.proj.funcs[q]
        ws = [n for n in ast.walk(f.node) if isinstance(n, ast.While)]
        ctx.ob("R5", not ws, "no unbounded loop in the parser's call closure (%s)" % q.split(".", 1)[1], func=f, sig="%s: %d while loop(s)" % (q.split(".", 1)[1], len(ws)))
    rec = [q for q in reach if any(g.qual == sk.qual for g, _ in eff.callees.get(q, []))]
    ctx.ob("R5", not rec, "the parser does not call itself", func=sk, sig="recursion via %s" % rec if rec else "no recursion")
    fors = [n for n in ast.walk(sk.node) if isinstance(n, ast.For)]
    for n in fors:
        it = n.iter
        src = it.args[0] if isinstance(it, ast.Call) and is_name(it.func, "enumerate") and it.args else it
        grows = [c for c in ast.walk(n) if isinstance(c, ast.Call) and call_attr(c) in ("append", "extend", "insert") and norm(c.func.value) == norm(src)]
        ctx.ob("R5", not grows, "no loop of the parser grows the sequence it iterates", node=n, func=sk,
               sig="loop over %s is bounded" % norm(src) if not grows else "loop over %s appends to it" % norm(src), nontrivial=False)
    # ---- R6
    funcs = [sk] + [g for lst in sk.nested.values() for g in lst]
    n_st = 0
    from ..util import own_nodes
    for f in funcs:
        for n in own_nodes(f.node):
            if isinstance(n, ast.Assign) and isinstance(n.targets[0], ast.Subscript) and is_name(n.targets[0].value, "quals"):
                n_st += 1
                v = n.value
                ok = isinstance(v, (ast.List, ast.ListComp)) or (isinstance(v, ast.Name) and _is_listcomp_name(f, v.id)) or \
                    (isinstance(v, ast.Call) and (is_name(v.func, "list") or call_attr(v) in ("split", "copy")))
                ctx.ob("R6", ok, "attribute values are created as lists", node=n, func=f, sig="quals[...] := %s" % norm(v)[:50])
            if isinstance(n, ast.Call) and isinstance(n.func, ast.Attribute) and isinstance(n.func.value, ast.Subscript) and is_name(n.func.value.value, "quals"):
                ok = n.func.attr in ("append", "extend")
                ctx.ob("R6", ok, "value lists only ever grow by append/extend", node=n, func=f, sig="quals[...].%s(...)" % n.func.attr, nontrivial=False)
    ctx.floor("R6", n_st, 1, "stores into the attribute mapping")
    rets = [n for n in ast.walk(sk.node) if isinstance(n, ast.Return) and enclosing(n, ast.FunctionDef) is sk.node]
    ok = all(isinstance(r.value, ast.Tuple) and len(r.value.elts) == 2 and norm(r.value.elts[0]) == "quals" and norm(r.value.elts[1]) == "dialect" for r in rets)
    ctx.ob("R6", ok and len(rets) >= 3, "every exit returns (mapping, dialect)", func=sk, sig="returns %s" % sorted({norm(r.value) for r in rets}))


def _is_listcomp_name(f, name):
    from ..util import single_assignment
    v = single_assignment(f.node, name)
    return isinstance(v, ast.ListComp)


def check(ctx):
    ctx.explanation = (
        "Encode set folded from the source and compared with the statement's list; encode/decode conditions compared by truth table; the "
        "encoder's format specification parsed; every partial operation (constant-index subscript, fixed-arity unpack, mapping read) of "
        "the attribute parser enumerated from the AST and discharged by a named justification (split-result base, dominating guard, "
        "early return, dominating store/test, dialect key, enclosing handler); no while/recursion in the call closure; values are lists "
        "of strings by construction. Does not decide that a printed feature re-parses to the same mapping (string semantics).")
    r1(ctx)
    r2_r3(ctx)
    r4(ctx)
    r5_r6(ctx)
