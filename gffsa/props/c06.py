"""C06 -- region / limit queries.

R1  coordinate predicate of every generated statement is equivalent to the
    specification (two bounds) or inside the specified sandwich (one bound),
    decided under every ordering of {S, E, feature.start, feature.end};
R2  the bin pre-filter is only used where bins() is not in its fallback
    domain (guard implies not-fallback);
R3  stored bin is recomputed from the same feature's (start, end);
R4  each statement parses; strand/featuretype/seqid are top-level conjuncts;
R5  exactly the restrictions asked for (strand is the caller's).
"""
import ast

from .. import sql as S
from ..absint import Sym, AStr, ACond, Opaque
from ..binsmodel import fallback_predicate, bins_consts
from ..builders import (interp_for, BoundQuery, where_conjuncts, normalise_filters, compare_filters,
                        coord_predicate, coord_vars, ft_options, limit_options, strand_options)
from ..decide import find_counterexample
from ..util import require_func, calls_in, kwarg, is_name, execute_sites, closure

RENAME = {"F.seqid": "seqid", "F.start": "S", "F.end": "E"}

SPEC = {
    ("both", False): lambda e: e["fs"] <= e["E"] and e["fe"] >= e["S"],
    ("both", True): lambda e: e["S"] <= e["fs"] and e["fe"] <= e["E"],
}
# one-sided: (lower bound of the result, upper bound of the result)
SANDWICH = {
    ("S", False): (lambda e: e["fe"] > e["S"], lambda e: e["fe"] >= e["S"]),
    ("S", True): (lambda e: e["fs"] > e["S"], lambda e: e["fe"] >= e["S"]),
    ("E", False): (lambda e: e["fs"] < e["E"], lambda e: e["fs"] <= e["E"]),
    ("E", True): (lambda e: e["fe"] < e["E"], lambda e: e["fs"] <= e["E"]),
}


def check_coords(ctx, rule, func, label, coords, bounds, within, who):
    """bounds: set of given bounds ⊆ {'S','E'}"""
    if not bounds:
        ok = not coords
        ctx.ob(rule, ok, "no coordinate condition when no bound is given (%s)" % who, func=func,
               sig="%s: coordinate condition without bounds" % who if not ok else "%s: no bounds, no condition" % who,
               detail=label, nontrivial=False)
        return
    try:
        pred = coord_predicate(coords, RENAME)
        used = coord_vars(coords, RENAME)
    except (ValueError, KeyError) as e:
        ctx.ob(rule, False, "coordinate condition of %s is a comparison of start/end with the query bounds" % who, func=func,
               sig="%s: unreadable coordinate condition (%s)" % (who, e), detail=label)
        return
    extra = used - bounds
    if extra or not coords:
        ctx.ob(rule, False, "coordinate condition of %s uses exactly the given bounds" % who, func=func,
               sig="%s %s within=%s: condition uses %s, bounds given %s" % (who, "+".join(sorted(bounds)), within,
                                                                        sorted(used), sorted(bounds)), detail=label)
        return
    names = ["fs", "fe"] + sorted(bounds)
    side = (lambda e: e["fs"] <= e["fe"] and e["S"] <= e["E"]) if bounds == {"S", "E"} else (lambda e: e["fs"] <= e["fe"])
    shown = " AND ".join(S.show(c) for c in coords)
    if bounds == {"S", "E"}:
        spec = SPEC[("both", within)]
        cex = find_counterexample(names, lambda e: bool(pred(e)) == bool(spec(e)), side)
        ctx.ob(rule, cex is None,
               "%s, %s mode: coordinate predicate ≡ %s under every ordering of S,E,f.start,f.end" % (
                   who, "within" if within else "overlap",
                   "S<=f.start ∧ f.end<=E" if within else "f.start<=E ∧ f.end>=S"),
               func=func,
               sig="%s both bounds within=%s: %s" % (who, within, "equivalent" if cex is None else
                                                    "not equivalent to the specification"),
               detail=None if cex is None else "predicate %s differs at %s (%s)" % (" ".join(shown.split()), cex, label))
    else:
        b = next(iter(bounds))
        lo, hi = SANDWICH[(b, within)]
        cex = find_counterexample(names, lambda e: (not lo(e) or pred(e)) and (not pred(e) or hi(e)), side)
        ctx.ob(rule, cex is None,
               "%s, one-sided (%s only, %s mode): result lies between 'strictly beyond the bound' and 'not outside the half-line'" % (
                   who, b, "within" if within else "overlap"),
               func=func,
               sig="%s only-%s within=%s: %s" % (who, b, within, "in sandwich" if cex is None else "outside the sandwich"),
               detail=None if cex is None else "predicate %s fails at %s (%s)" % (" ".join(shown.split()), cex, label))


def cond_predicate(conds):
    """Compile the undecided comparisons a trace passed (with their outcome)
    into env{S,E,L} -> bool; comparisons about other things are ignored."""
    fs = []

    def term(v):
        if isinstance(v, Sym):
            n = RENAME.get(v.name, v.name)
            if n in ("S", "E"):
                return lambda e: e[n]
            if n.startswith("len(bins"):
                return lambda e: e["L"]
            return None
        if isinstance(v, (int, float)) and not isinstance(v, bool):
            return lambda e: v
        return None
    ops = {"<": lambda a, b: a < b, "<=": lambda a, b: a <= b, ">": lambda a, b: a > b,
           ">=": lambda a, b: a >= b, "==": lambda a, b: a == b, "!=": lambda a, b: a != b}
    for c, outcome in conds:
        if isinstance(c, ACond) and c.op == "in" and isinstance(c.right, tuple) and len(c.right) == 4 and c.right[0] == "range" and term(c.left) is not None:
            # x in range(a, b, step)
            l = term(c.left)
            rg = range(c.right[1], c.right[2], c.right[3])
            fs.append((lambda l=l, rg=rg, out=outcome: (lambda e: (l(e) in rg) == out))())
            continue
        if not isinstance(c, ACond) or c.op not in ops:
            continue
        l, r = term(c.left), term(c.right)
        if l is None or r is None:
            continue
        fs.append((lambda l=l, r=r, op=ops[c.op], out=outcome: (lambda e: op(l(e), r(e)) == out))())
    return (lambda e: all(f(e) for f in fs)), len(fs)


def check_bin_guard(ctx, func, label, trace, who):
    """R2 for one trace that uses a bins(one=False) result as a restriction."""
    fb, guards, _ = fallback_predicate(ctx)
    consts = bins_consts(ctx)
    mx = consts["MAX_CHROM_SIZE"]
    cp, n = cond_predicate(trace.conds())
    pts = sorted({1, 2, 3, mx - 2, mx - 1, mx, mx + 1, mx + 2, 1000, mx // 2})
    cex = None
    for s in pts:
        for e_ in pts:
            if s > e_:
                continue
            isfb = fb({"start": s, "stop": e_})
            for L in ((1,) if isfb else (5, 37, 899, 900, 901)):
                env = {"S": s, "E": e_, "L": L}
                if cp(env) and isfb:
                    cex = env
                    break
            if cex:
                break
        if cex:
            break
    shown = [repr(c) + ("" if o else " is False") for c, o in trace.conds()
             if isinstance(c, ACond) and not str(c.left).startswith("‹len") or True]
    guard_txt = ", ".join(shown) if n else "none"
    ctx.ob("R2", cex is None,
           "%s: the bins(one=False) result becomes a SQL restriction only where bins() is outside its fallback domain" % who,
           func=func,
           sig="%s: bin restriction guard %s" % (who, "excludes the fallback domain" if cex is None else
                                                ("missing" if n == 0 or all(str(c.left).startswith("‹len") for c, _ in trace.conds() if isinstance(c, ACond))
                                                 else "admits fallback coordinates")),
           detail=None if cex is None else "with S=%(S)d E=%(E)d bins() returns the constant {1}, yet the path (guards: %%s) adds the restriction" % cex % guard_txt + " (" + label + ")")


def check(ctx):
    from ..model import AnalysisError
    from ..absint import Unsupported
    r_concrete(ctx)
    try:
        _symbolic(ctx)
    except (AnalysisError, Unsupported) as e:
        # a concrete counterexample stands on its own; without one the run fails closed
        if all(o.ok for o in ctx.obs):
            raise
        ctx.note("symbolic decision not available on this tree (%s); the concrete scenario already shows a violation" % e)


def _symbolic(ctx):
    proj = ctx.proj
    it = interp_for(ctx)
    mq = require_func(ctx, "helpers.make_query")
    rg = require_func(ctx, "interface.FeatureDB.region")
    ctx.explanation = (
        "Every statement helpers.make_query(limit=...) and FeatureDB.region can generate is obtained by partitioned "
        "dataflow over region/limit forms x bounds given x completely_within x strand x featuretype. The coordinate "
        "part is compiled to a predicate over (f.start, f.end, S, E) as bound by the argument list and compared with "
        "the specification on a grid that is complete for order predicates (all weak orderings). The bin restriction "
        "is accepted only on paths whose guards exclude bins()'s fallback domain (read off bins.bins). Stored-bin "
        "provenance is a def-use rule. In addition a concrete family of features on every bin level and beyond 2**29 is imported into the "
        "model database and every region / limit form is evaluated for all query intervals over the boundary points.")
    n_part = 0
    # ---------------------------------------------------------- make_query
    for (ln, lim) in limit_options()[1:]:
        for within in (False, True):
            for (sn, strand) in strand_options():
                for (ftn, ft) in ft_options(ctx.tier)[:3]:
                    n_part += 1
                    label = "make_query limit=%s within=%s strand=%s ft=%s" % (ln, within, sn, ftn)
                    for t in it.run(mq, dict(args=[], limit=lim, completely_within=within, strand=strand, featuretype=ft)):
                        if t.result[0] != "return":
                            ctx.ob("R4", False, "make_query returns a statement for a valid limit", func=mq,
                                   sig="make_query raises %s for limit=%s" % (t.result[1], ln), detail=label)
                            continue
                        q, a = t.result[1]
                        bq = BoundQuery(q, a)
                        if bq.problems:
                            ctx.ob("R4", False, "limit statement parses and binds", func=mq,
                                   sig="make_query limit: %s" % bq.problems[0].split("::")[0], detail=label)
                            continue
                        filters, coords, bins_, joins, others, probs = normalise_filters(where_conjuncts(bq))
                        exp = {"seqid": ["seqid"]}
                        if strand is not None:
                            exp["strand"] = ["strand"]
                        if ft is not None:
                            exp["featuretype"] = [x.name for x in ([ft] if isinstance(ft, Sym) else ft)]
                        p = compare_filters(filters, exp) + probs + ["unexpected condition %s" % o for o in others]
                        ctx.ob("R5", not p, "limit query restricts exactly seqid + what was asked for", func=mq,
                               sig="make_query limit=%s: %s" % (ln, "; ".join(p) if p else "exact restrictions"),
                               detail=label, nontrivial=(sn == "none" and ftn == "none"))
                        check_coords(ctx, "R1", mq, label, coords, {"S", "E"}, within, "make_query limit=%s" % ln)
                        _check_bins(ctx, mq, t, bins_, label, "make_query")
    # -------------------------------------------------------------- region
    seq, Sx, Ex = Sym("seqid", "str"), Sym("S", "int"), Sym("E", "int")
    forms = [
        ("tuple", dict(region=(seq, Sx, Ex)), {"seqid"}, {"S", "E"}, None),
        ("str", dict(region=AStr([seq, ":", Sym("S", "str"), "-", Sym("E", "str")])), {"seqid"}, {"S", "E"}, None),
        ("str-seqid-only", dict(region=AStr([seq])), {"seqid"}, set(), None),
        ("str+strand", dict(region=AStr([seq, ":", Sym("S", "str"), "-", Sym("E", "str"), ":", Sym("strandtok", "str")])),
         {"seqid"}, {"S", "E"}, "strandtok"),
        ("Feature", dict(region=Sym("F", "Feature")), {"seqid"}, {"S", "E"}, None),
    ]
    for has_seq in (False, True):
        for has_s in (False, True):
            for has_e in (False, True):
                if not (has_seq or has_s or has_e):
                    # region() with no restriction at all is outside C06's quantifier (observation in DESIGN.md)
                    continue
                kw = {}
                if has_seq:
                    kw["seqid"] = seq
                if has_s:
                    kw["start"] = Sx
                if has_e:
                    kw["end"] = Ex
                forms.append(("kwargs:%s%s%s" % ("q" if has_seq else "-", "s" if has_s else "-", "e" if has_e else "-"),
                              kw, {"seqid"} if has_seq else set(), {b for b, h in (("S", has_s), ("E", has_e)) if h}, None))
    for (fname, base, seqset, bounds, strandtok) in forms:
        for within in (False, True):
            for (sn, strand) in strand_options():
                if strandtok and strand is not None:
                    continue
                for (ftn, ft) in ft_options(ctx.tier)[:3]:
                    n_part += 1
                    label = "region form=%s within=%s strand=%s ft=%s" % (fname, within, sn, ftn)
                    args = dict(base, completely_within=within, strand=strand, featuretype=ft)
                    for t in it.run(rg, args):
                        who = "region(%s)" % fname
                        if t.result[0] == "raise":
                            ctx.ob("R4", False, "region accepts the documented argument forms", func=rg,
                                   sig="%s raises %s" % (who, t.result[1]), detail=label + " :: " + str(t.result[2])[:80])
                            continue
                        ex = t.executes()
                        if len(ex) != 1:
                            ctx.ob("R4", False, "region executes one statement", func=rg,
                                   sig="%s executes %d statements" % (who, len(ex)), detail=label)
                            continue
                        bq = BoundQuery(ex[0][1], ex[0][2])
                        if bq.problems:
                            ctx.ob("R4", False, "region statement parses and its placeholders match the arguments", func=rg,
                                   sig="%s: %s" % (who, bq.problems[0].split("::")[0]),
                                   detail=label + " :: " + " ".join((bq.text or "").split()))
                            continue
                        ctx.ob("R4", True, "region statement parses, placeholders match (%s)" % label, func=rg,
                               sig="%s within=%s parses" % (who, within), nontrivial=(sn == "none" and ftn == "none"))
                        filters, coords, bins_, joins, others, probs = normalise_filters(where_conjuncts(bq))
                        filters = {k: frozenset(RENAME.get(x, x) if isinstance(x, str) else x for x in v) for k, v in filters.items()}
                        exp = {}
                        if seqset:
                            exp["seqid"] = ["seqid"]
                        if ft is not None:
                            exp["featuretype"] = [x.name for x in ([ft] if isinstance(ft, Sym) else ft)]
                        exp_strand = strandtok or ("strand" if strand is not None else None)
                        if exp_strand:
                            exp["strand"] = [exp_strand]
                        strand_p = compare_filters({k: v for k, v in filters.items() if k == "strand"},
                                                   {k: v for k, v in exp.items() if k == "strand"})
                        ctx.ob("R5", not strand_p,
                               "the strand restriction of region is exactly the one the caller asked for (argument or explicit "
                               "':strand' token); a Feature's own strand is not a restriction", func=rg,
                               sig="%s strand: %s" % (who, "; ".join(strand_p) if strand_p else "as requested"),
                               detail=label + " :: args=%r" % (bq.args,), nontrivial=(ftn == "none"))
                        rest_p = compare_filters({k: v for k, v in filters.items() if k != "strand"},
                                                 {k: v for k, v in exp.items() if k != "strand"}) + probs + \
                            ["unexpected condition %s" % o for o in others]
                        ctx.ob("R5", not rest_p, "region restricts exactly seqid/featuretype as asked (%s)" % label, func=rg,
                               sig="%s: %s" % (who, "; ".join(rest_p) if rest_p else "exact seqid/featuretype restrictions"),
                               detail=label, nontrivial=False)
                        check_coords(ctx, "R1", rg, label, coords, bounds, within, who)
                        _check_bins(ctx, rg, t, bins_, label, "region", bounds)
    # ------------------------------------------- limit= through children/parents
    for meth in ("children", "parents"):
        f = require_func(ctx, "interface.FeatureDB." + meth)
        for (ln, lim) in limit_options()[1:]:
            for within in (False, True):
                n_part += 1
                label = "%s limit=%s within=%s" % (meth, ln, within)
                for t in it.run(f, dict(id=Sym("id", "str"), limit=lim, completely_within=within)):
                    ex = t.executes()
                    if t.result[0] == "raise" or len(ex) != 1:
                        ctx.ob("R4", False, "%s builds one statement for a limit" % meth, func=f,
                               sig="%s limit: %s" % (meth, "raises %s" % t.result[1] if t.result[0] == "raise" else "%d statements" % len(ex)), detail=label)
                        continue
                    bq = BoundQuery(ex[0][1], ex[0][2])
                    if bq.problems:
                        ctx.ob("R4", False, "%s limit statement parses and binds" % meth, func=f, sig="%s limit: %s" % (meth, bq.problems[0].split("::")[0]), detail=label)
                        continue
                    filters, coords, bins_, joins, others, probs = normalise_filters(where_conjuncts(bq))
                    ok = filters.get("seqid") == frozenset(["seqid"])
                    ctx.ob("R5", ok, "%s(limit=...) restricts to the limit's seqid" % meth, func=f,
                           sig="%s limit seqid restriction %s" % (meth, sorted(map(str, filters.get("seqid", [])))), detail=label, nontrivial=False)
                    check_coords(ctx, "R1", f, label, coords, {"S", "E"}, within, "%s limit=%s" % (meth, ln))
                    _check_bins(ctx, f, t, bins_, label, "make_query")
    ctx.extra["partitions"] = n_part
    ctx.exhaustive = True
    _r3_bin_provenance(ctx)


def r_concrete(ctx):
    """Concrete scenario: a small family of features placed on the bin boundaries and around 2**29 is imported (the stored
    bins are what the package's own bins() gives), then region() -- every argument form -- and the limit= form of
    all_features / features_of_type / children / parents are evaluated against the model database for every query interval
    over the boundary points; the returned ids are compared with the specification, each feature at most once."""
    from . import scen
    consts = bins_consts(ctx)
    M = consts["MAX_CHROM_SIZE"]
    B = 1 << consts.get("FIRST_SHIFT", 17)
    rg = require_func(ctx, "interface.FeatureDB.region")
    # (id, start, end, strand, type, parent)
    F = [("a", 100, 200, "+", "gene", None), ("b", B - 72, B + 28, "+", "exon", "d"), ("c", B + 1, B + 8, "-", "exon", "d"), ("d", 1, (B << 3) + 5, "+", "gene", None),
         ("e", M - 10, M + 10, "+", "exon", "d"), ("f", M + 100, M + 200, "+", "exon", None), ("g", B, B, "+", "exon", "d"), ("h", B - 1, B - 1, "-", "exon", None),
         ("i", (B << 3) - 1, (B << 3) + 1, "+", "exon", "d"), ("j", (B << 6) - 1, (B << 6) + 1, "-", "exon", None), ("k", (B << 9) - 1, (B << 9) + 1, "+", "exon", None),
         ("l", M - 1, M - 1, "+", "exon", None), ("m", 2 * B + 10, 2 * B + 20, "+", "exon", "d")]
    lines = [scen.feature(n.upper(), ft, s_, e_, dict({"ID": [n]}, **({"Parent": [par]} if par else {})), strand=st) for n, s_, e_, st, ft, par in F]
    lines.sort(key=lambda x: x.attrs["attributes"].get("Parent") is not None)        # parents first
    lines.append(scen.feature("Z", "gene", 100, 200, {"ID": ["z"]}, seqid="chr2"))
    im, t = scen.run_create(ctx, "_GFFDBCreator", lines)
    if not scen.returned(ctx, t, "create()", func=rg, rule="R1"):
        return
    it, me, conn, t0 = scen.open_feature_db(ctx, im.db)
    if not scen.returned(ctx, t0, "FeatureDB(dbfn)", func=rg, rule="R1"):
        return
    it.summaries["interface.FeatureDB._feature_returner"] = lambda i, pos, kw, node: kw.get("id")
    rec = {n: (s_, e_, st, ft, par) for n, s_, e_, st, ft, par in F}
    on1 = sorted(rec)
    pts = sorted({1, 99, 100, 150, 200, 201, B - 73, B - 72, B - 2, B - 1, B, B + 1, B + 8, B + 9, B + 28, B + 29, 2 * B, 2 * B + 15, (B << 3) - 1, (B << 3), (B << 3) + 5,
                  (B << 3) + 6, (B << 6), (B << 9) + 1, M - 11, M - 10, M - 2, M - 1, M, M + 1, M + 10, M + 11, M + 99, M + 150, M + 201})
    if ctx.tier != "thorough":
        pts = [x for x in pts if x in (1, 100, 201, B - 72, B - 1, B, B + 1, B + 29, (B << 3), (B << 3) + 6, M - 10, M - 1, M, M + 11, M + 150)]
    spec_both = SPEC
    n_q = [0]
    bad = {}

    def ask(qual, label, want_lo, want_hi, **kw):
        """want_lo <= result <= want_hi (sets of ids); equal sets = exact."""
        n_q[0] += 1
        tr = scen.call_method(ctx, it, me, qual, **kw)
        if tr.result[0] != "return":
            got = "raises %s" % (tr.result[1],)
        else:
            r_ = tr.result[1]
            got = list(r_) if not isinstance(r_, (list, tuple)) else list(r_)
        if isinstance(got, list) and (len(set(got)) != len(got)):
            bad.setdefault(label + ": a feature is returned more than once", (kw, got, sorted(want_hi)))
        elif not isinstance(got, list) or not (set(want_lo) <= set(got) <= set(want_hi)):
            bad.setdefault(label, (kw, sorted(got) if isinstance(got, list) else got, sorted(want_hi) if want_lo == want_hi else (sorted(want_lo), sorted(want_hi))))

    def both(S_, E_, within, ids):
        return {n for n in ids if spec_both[("both", within)]({"fs": rec[n][0], "fe": rec[n][1], "S": S_, "E": E_})}
    kids = {n for n in rec if rec[n][4] == "d"}
    for i_, S_ in enumerate(pts):
        for E_ in pts[i_:]:
            for within in (False, True):
                w = both(S_, E_, within, on1)
                mode = "within" if within else "overlap"
                ask("interface.FeatureDB.region", "region(seqid, start, end), %s" % mode, w, w, seqid="chr1", start=S_, end=E_, completely_within=within)
                ask("interface.FeatureDB.all_features", "all_features(limit=(seqid, start, end)), %s" % mode, w, w, limit=("chr1", S_, E_), completely_within=within)
                ask("interface.FeatureDB.children", "children(id, limit=...), %s" % mode, w & kids, w & kids, id="d", limit=("chr1", S_, E_), completely_within=within)
                if (S_ + E_) % 3 == 0 or ctx.tier == "thorough":
                    ask("interface.FeatureDB.region", "region((seqid, start, end)), %s" % mode, w, w, region=("chr1", S_, E_), completely_within=within)
                    ask("interface.FeatureDB.region", "region('seqid:start-end'), %s" % mode, w, w, region="chr1:%d-%d" % (S_, E_), completely_within=within)
                    wz = w | ({"z"} if spec_both[("both", within)]({"fs": 100, "fe": 200, "S": S_, "E": E_}) else set())
                    ask("interface.FeatureDB.region", "region(start, end) on every seqid, %s" % mode, wz, wz, start=S_, end=E_, completely_within=within)
                    ws = {n for n in w if rec[n][2] == "-"}
                    ask("interface.FeatureDB.region", "region(..., strand='-'), %s" % mode, ws, ws, seqid="chr1", start=S_, end=E_, strand="-", completely_within=within)
                    wt = {n for n in w if rec[n][3] == "gene"}
                    ask("interface.FeatureDB.region", "region(..., featuretype='gene'), %s" % mode, wt, wt, seqid="chr1", start=S_, end=E_, featuretype="gene", completely_within=within)
                    ask("interface.FeatureDB.features_of_type", "features_of_type(type, limit='seqid:start-end'), %s" % mode, w - wt, w - wt, featuretype="exon",
                        limit="chr1:%d-%d" % (S_, E_), completely_within=within)
                    pw = {"d"} & w
                    ask("interface.FeatureDB.parents", "parents(id, limit=...), %s" % mode, pw, pw, id="c", limit=("chr1", S_, E_), completely_within=within)
                    probe = scen.feature("Q", "probe", S_, E_, {}, strand="-")
                    ask("interface.FeatureDB.region", "region(Feature), %s" % mode, w, w, region=probe, completely_within=within)
    for x in pts:
        for within in (False, True):
            for b_, kw in (("S", {"start": x}), ("E", {"end": x})):
                lo_f, hi_f = SANDWICH[(b_, within)]
                env = lambda n: {"fs": rec[n][0], "fe": rec[n][1], b_: x}
                lo = {n for n in on1 if lo_f(env(n))}
                hi = {n for n in on1 if hi_f(env(n))}
                ask("interface.FeatureDB.region", "region(seqid, %s only), %s" % ("start" if b_ == "S" else "end", "within" if within else "overlap"), lo, hi,
                    seqid="chr1", completely_within=within, **kw)
    w = set(on1)
    ask("interface.FeatureDB.region", "region(seqid only)", w, w, seqid="chr1")
    ask("interface.FeatureDB.region", "region('seqid')", {"z"}, {"z"}, region="chr2")
    ctx.ob("R1", not bad, "region / limit queries return exactly the overlapping (or contained) stored features, each once: %d queries over %d boundary points x forms "
           "x modes on a model database holding features on every bin level and beyond 2**29" % (n_q[0], len(pts)), func=rg,
           sig="concrete region/limit queries agree with the specification" if not bad else "; ".join(
               "%s: %s returns %s, specified %s" % (k, {a: (v if not isinstance(v, Opaque) else v.name) for a, v in q.items()}, g, wnt) for k, (q, g, wnt) in sorted(bad.items())[:3]))
    ctx.extra["concrete_queries"] = n_q[0]


def _check_bins(ctx, func, trace, bins_, label, who, bounds=frozenset({"S", "E"})):
    if not bins_:
        return
    if len(bins_) > 1:
        ctx.ob("R2", False, "at most one bin restriction", func=func, sig="%s: %d bin restrictions" % (who, len(bins_)), detail=label)
        return
    if set(bounds) != {"S", "E"}:
        ctx.ob("R2", False, "a bin restriction needs both bounds", func=func,
               sig="%s: bin restriction with bounds %s" % (who, sorted(bounds)), detail=label)
        return
    hole = bins_[0][1:].split("|")[0]
    ctx.ob("R2", hole == "bins", "the restriction lists the whole result of bins(one=False), not a filtered or otherwise derived selection of it "
           "(dropping bins drops features stored in them)", func=func,
           sig="%s: restriction over the unmodified bin set" % who if hole == "bins" else "%s: restriction over a derived bin collection (%s)" % (who, hole),
           detail=label, nontrivial=False)
    calls = [e for e in trace.events if e[0] == "bins" and e[3] is False]
    ok = False
    got = None
    for e in calls:
        a, b = e[1], e[2]
        an = RENAME.get(getattr(a, "name", None), getattr(a, "name", None))
        bn = RENAME.get(getattr(b, "name", None), getattr(b, "name", None))
        got = (an, bn)
        if (an, bn) == ("S", "E"):
            ok = True
    ctx.ob("R2", ok, "the bin set of the restriction is bins(query start, query end, one=False)", func=func,
           sig="%s: bins%r" % (who, got) if not ok else "%s: bins(S,E)" % who, detail=label, nontrivial=False)
    check_bin_guard(ctx, func, label, trace, who)




def _r3_bin_provenance(ctx):
    """The stored bin is bins(start, end) of the very record it is stored with.
    (a) Feature.astuple() evaluated on a feature that carries a stale bin: the bin element is what bins.bins returns for
        (self.start, self.end) in single-bin mode, gff convention -- never the carried one;
    (b) every other single-bin computation: value provenance of its two coordinates -- start and end of one record."""
    from ..absint import Interp, Sym, Opaque, Unsupported
    proj = ctx.proj
    keys = ctx.folder.const("constants", "_keys")
    ctx.require("bin" in keys, "constants._keys lost its bin column")
    bi = keys.index("bin")
    at = require_func(ctx, "feature.Feature.astuple")
    calls = []

    def s_bins(i, pos, kw, node):
        calls.append((list(pos), dict(kw)))
        return Sym("BIN#%d" % len(calls), "int", True)
    for enc in (None,):
        it = Interp(ctx)
        it.summaries["bins.bins"] = s_bins
        it.summaries["helpers._jsonify"] = lambda i, pos, kw, node: Sym("json", "str", True)
        me = Opaque("F", "Feature")
        for k in keys:
            me.attrs[k] = Sym(k, "int" if k in ("start", "end") else "str", True)
        me.attrs["bin"] = Sym("STALE", "int", True)
        me.attrs["attributes"] = Sym("attributes", "any", True)
        me.attrs["extra"] = []
        del calls[:]
        try:
            traces = it.run(at, {}, self_obj=me)
        except Unsupported as e:
            ctx.require(False, "Feature.astuple outside the analysable subset: %s" % e)
        n_ok = 0
        for t in traces:
            res = t.result[1] if t.result[0] == "return" else None
            if not (isinstance(res, (tuple, list)) and len(res) == len(keys)):
                ctx.ob("R3", False, "astuple returns the %d columns" % len(keys), func=at, sig="astuple returns %s" % (type(res).__name__ if res is not None else t.result[:2],))
                continue
            b = res[bi]
            name = getattr(b, "name", repr(b))
            last = calls[-1] if calls else None
            nm = lambda v: getattr(v, "name", v)
            good_call = last is not None and [nm(x) for x in last[0][:2]] == ["start", "end"] and len(last[0]) == 2 \
                and last[1].get("one", True) is True and last[1].get("fmt", "gff") == "gff" and set(last[1]) <= {"one", "fmt"}
            ok = isinstance(b, Sym) and name.startswith("BIN#") and good_call
            n_ok += ok
            ctx.ob("R3", ok, "the bin written to the database is recomputed from the current start/end: bins.bins(self.start, self.end, one=True) -- not a bin the feature carries",
                   func=at, sig="astuple bin element: %s" % ("bins(start, end)" if ok else ("the carried bin" if name == "STALE" else "%s via bins%s" % (name, ([nm(x) for x in last[0]], last[1]) if last else "()"))))
        ctx.floor("R3", len(traces), 1, "paths of Feature.astuple")
    # ---- (b)
    from ..flow import Flow, show
    _ROWCOLS.clear()
    for site in execute_sites(ctx):
        if site.stmts and site.stmts[0].verb == "SELECT":
            key = ("row", (site.func.qual, site.call.lineno, site.call.col_offset))
            for i_, (e_, _alias) in enumerate(site.stmts[0].cols):
                inner = e_[2][0] if (e_[0] == "call" and e_[1] in ("min", "max") and len(e_[2]) == 1) else e_
                col = inner[2].lower() if inner[0] == "col" else None
                agg = e_[1] if e_[0] == "call" else None
                _ROWCOLS[(key, i_)] = "start" if (col == "start" and agg in (None, "min")) else "end" if (col in ("end", "stop") and agg in (None, "max")) else "other"
    cb = require_func(ctx, "feature.Feature.calc_bin")
    n = 0
    for f in proj.funcs.values():
        if f.module.name in ("bins",) or f is cb:
            continue
        for c in calls_in(f.node):
            if proj.resolve_call(c, f)[1] != "bins.bins":
                continue
            one = kwarg(c, "one")
            if isinstance(one, ast.Constant) and one.value is False:
                continue
            n += 1
            fl = Flow(ctx, [g for g in proj.funcs.values()], rows=True)
            args = list(c.args)
            if len(args) == 1 and isinstance(args[0], ast.Starred):
                ts = fl.terms(args[0].value, f)
                pairs = [(t_[2], t_[3]) for t_ in ts if isinstance(t_, tuple) and t_[0] == "op" and t_[1] in ("tuple", "list") and len(t_) == 4]
                ok = bool(pairs) and len(pairs) == len(ts) and all(_same_record(a_, b_) for a_, b_ in pairs)
                shown = ", ".join(sorted(show(t_) for t_ in ts))
            elif len(args) == 2:
                ta, tb = fl.terms(args[0], f), fl.terms(args[1], f)
                ok = bool(ta) and bool(tb) and all(any(_same_record(a_, b_) for b_ in tb) for a_ in ta) and all(any(_same_record(a_, b_) for a_ in ta) for b_ in tb)
                shown = "%s ; %s" % (", ".join(sorted(show(t_) for t_ in ta)), ", ".join(sorted(show(t_) for t_ in tb)))
            else:
                ok, shown = False, ctx.norm(c)
            ok_fmt = kwarg(c, "fmt") is None or (isinstance(kwarg(c, "fmt"), ast.Constant) and kwarg(c, "fmt").value == "gff")
            how = "start, end of one record"
            if not ok:
                # provenance undecided: evaluate instead -- the gap scenarios when the site serves interfeatures, else the
                # function itself on a record {start: S, end: E}
                inter = proj.func("interface.FeatureDB.interfeatures")
                root = f
                while getattr(root, "parent", None) is not None:
                    root = root.parent
                if inter is not None and (root is inter or f in closure(ctx, inter)):
                    from .c15 import gap_bin_obligation
                    n0 = len(ctx.obs)
                    gap_bin_obligation(ctx, rule="R3")
                    ok = all(o.ok for o in ctx.obs[n0:])
                    del ctx.obs[n0:]
                    how = "the gap's own start, end (evaluated on two scenarios)"
                else:
                    ok = _record_evaluation(ctx, f)
                    how = "start, end of the record it is given (evaluated)"
            ctx.ob("R3", ok and ok_fmt, "a stored bin is bins(start, end) of one and the same record, gff convention (value provenance of the two coordinates, else evaluation)",
                   node=c, func=f, sig="%s: bins(%s)" % (f.name, how if ok else shown[:160]))
    ctx.floor("R3", n, 1, "single-bin computations outside Feature.calc_bin")


def _record_evaluation(ctx, f):
    """f(record) evaluated for a mapping {start: S, end: E, ...}: every bins.bins call receives exactly (S, E), single-bin mode."""
    from ..absint import Interp, Sym, Unsupported
    params = [p for p in f.params if p not in ("self", "cls")]
    if len(params) != 1:
        return False
    calls = []
    it = Interp(ctx)
    it.summaries["bins.bins"] = lambda i, pos, kw, node: (calls.append((list(pos), dict(kw))), Sym("BIN", "int", True))[1]
    rec = {"start": Sym("S", "int", True), "end": Sym("E", "int", True), "seqid": "chr1", "strand": "+", "featuretype": "gene"}
    try:
        traces = it.run(f, {params[0]: rec})
    except Unsupported:
        return False
    nm = lambda v: getattr(v, "name", v)
    return bool(calls) and all([nm(x) for x in pos] == ["S", "E"] and kw.get("one", True) is True and kw.get("fmt", "gff") == "gff" for pos, kw in calls) \
        and all(t.result[0] == "return" and nm(t.result[1]) == "BIN" for t in traces)


def _strip_int(t):
    while isinstance(t, tuple) and t and t[0] == "call" and t[1] in ("int", "builtins.int") and len(t) >= 4 and len(t[3]) == 1:
        t = t[3][0]
    return t


def _same_record(a, b):
    """Are the provenance terms a, b the start and the end of one record?"""
    a, b = _strip_int(a), _strip_int(b)
    if not (isinstance(a, tuple) and isinstance(b, tuple)) or a[0] != b[0]:
        return False
    if a[0] == "attr":
        return a[1] == b[1] and a[2] == "start" and b[2] in ("end", "stop")
    if a[0] in ("item", "key"):
        ka, kb = a[2], b[2]
        ka = ka[1] if isinstance(ka, tuple) and ka[0] == "const" else ka
        kb = kb[1] if isinstance(kb, tuple) and kb[0] == "const" else kb
        return a[1] == b[1] and ka == "start" and kb in ("end", "stop")
    if a[0] == "pos":
        # columns of one result row: judged by the SELECT list of that row's statement (MIN(start) / MAX(end), start / end)
        return a[1] == b[1] and isinstance(a[2], int) and isinstance(b[2], int) and a[2] != b[2] and _ROWCOLS.get((a[1], a[2])) == "start" and _ROWCOLS.get((b[1], b[2])) == "end"
    if a[0] in ("alt",):
        return False
    return False


_ROWCOLS = {}
