"""C18 -- coordinate conventions of exports: length, sequence, BED12."""
import ast

from ..cfg import cfg_of
from ..model import norm, parents, enclosing
from ..util import require_func, calls_in, call_attr, is_name, const_str, kwarg, guards_of, single_assignment


def linform(e, resolve=None, depth=0):
    """Linear normal form  ({atom: coeff}, const).  Atoms are source texts
    with `.stop` normalised to `.end`; `resolve(name)` may substitute a local
    by its defining expression."""
    if isinstance(e, ast.Constant) and isinstance(e.value, int) and not isinstance(e.value, bool):
        return {}, e.value
    if isinstance(e, ast.BinOp) and isinstance(e.op, (ast.Add, ast.Sub)):
        a, ca = linform(e.left, resolve, depth)
        b, cb = linform(e.right, resolve, depth)
        s = 1 if isinstance(e.op, ast.Add) else -1
        out = dict(a)
        for k, v in b.items():
            out[k] = out.get(k, 0) + s * v
        return {k: v for k, v in out.items() if v}, ca + s * cb
    if isinstance(e, ast.UnaryOp) and isinstance(e.op, ast.USub):
        a, c = linform(e.operand, resolve, depth)
        return {k: -v for k, v in a.items()}, -c
    if isinstance(e, ast.Name) and resolve is not None and depth < 5:
        v = resolve(e.id)
        if v is not None:
            return linform(v, resolve, depth + 1)
    s = norm(e)
    if s.endswith(".stop"):
        s = s[:-5] + ".end"
    return {s: 1}, 0


def affine_len(e):
    """linear form with atoms reduced to their last attribute (self.stop -> end)."""
    a, c = linform(e)
    return {k.split(".")[-1]: v for k, v in a.items()}, c


def r1_r2_r3(ctx):
    ln = require_func(ctx, "feature.Feature.__len__")
    r = [n for n in ast.walk(ln.node) if isinstance(n, ast.Return)]
    ok = len(r) == 1 and affine_len(r[0].value) == ({"end": 1, "start": -1}, 1)
    ctx.ob("R1", ok, "len(feature) = end - start + 1", func=ln, sig="__len__ = %s" % (norm(r[0].value) if r else None))
    # stop is an alias of end, chrom of seqid
    feat = ctx.proj.cls("feature.Feature")
    for alias, real in (("stop", "end"), ("chrom", "seqid")):
        getters = [m for m in feat.node.body if isinstance(m, ast.FunctionDef) and m.name == alias and any(is_name(d, "property") for d in m.decorator_list)]
        ok = bool(getters) and any(isinstance(n, ast.Return) and norm(n.value) == "self." + real for n in ast.walk(getters[0]))
        ctx.ob("R1", ok, "feature.%s is an alias of feature.%s" % (alias, real), func=ln, sig="%s -> %s" % (alias, "self." + real if ok else "?"), nontrivial=False)
    sq = require_func(ctx, "feature.Feature.sequence")
    sl = [n for n in ast.walk(sq.node) if isinstance(n, ast.Subscript) and isinstance(n.slice, ast.Slice)]
    ctx.floor("R1", len(sl), 1, "slices in Feature.sequence")
    s = sl[0]
    lo = affine_len(s.slice.lower) if s.slice.lower is not None else None
    hi = affine_len(s.slice.upper) if s.slice.upper is not None else None
    ok = lo == ({"start": 1}, -1) and hi == ({"end": 1}, 0) and s.slice.step is None
    ctx.ob("R1", ok, "the sequence is the 0-based half-open slice [start-1 : end] of the named sequence", node=s, func=sq, sig="sequence slice %s" % norm(s.slice))
    ok = isinstance(s.value, ast.Subscript) and norm(s.value.slice) in ("self.chrom", "self.seqid")
    ctx.ob("R1", ok, "the slice is taken from the feature's own sequence", node=s, func=sq, sig="sequence of %s" % norm(s.value), nontrivial=False)
    rc = [n for n in ast.walk(sq.node) if isinstance(n, ast.If) and any("reverse" in norm(b) and "complement" in norm(b) for b in n.body)]
    ctx.ob("R5", len(rc) == 1, "there is one reverse-complement decision", func=sq, sig="%d reverse-complement decision(s)" % len(rc), nontrivial=False)
    if rc:
        t = rc[0].test
        atoms = ["use_strand", "minus"]

        def ev(n, env):
            if isinstance(n, ast.BoolOp):
                vs = [ev(v, env) for v in n.values]
                return all(vs) if isinstance(n.op, ast.And) else any(vs)
            if isinstance(n, ast.UnaryOp) and isinstance(n.op, ast.Not):
                return not ev(n.operand, env)
            if is_name(n, "use_strand"):
                return env["use_strand"]
            if isinstance(n, ast.Compare) and norm(n.left) == "self.strand" and isinstance(n.comparators[0], ast.Constant):
                r_ = env["strand"] == n.comparators[0].value
                return r_ if isinstance(n.ops[0], ast.Eq) else not r_
            raise ValueError(norm(n))
        try:
            bad = None
            for us in (False, True):
                for st in ("+", "-", "."):
                    if bool(ev(t, {"use_strand": us, "strand": st})) != (us and st == "-"):
                        bad = (us, st)
            ctx.ob("R5", bad is None, "the sequence is reverse-complemented exactly for minus-strand features with use_strand", node=rc[0], func=sq,
                   sig="reverse complement iff %s" % norm(t) if bad is None else "reverse complement test `%s` wrong for (use_strand, strand) = %s" % (norm(t), bad))
        except ValueError as e:
            ctx.ob("R5", False, "the reverse-complement test is over use_strand and the strand", node=rc[0], func=sq, sig="reverse complement test %s" % norm(t))
    # ------------------------------------------------------------- bed12
    b = require_func(ctx, "interface.FeatureDB.bed12")
    fp = [p for p in b.params if p != "self"][0]

    def resolve(name):
        if name in (fp,):
            return None
        return single_assignment(b.node, name)
    want = {
        "chromStart": ({"%s.start" % fp: 1}, -1),
        "chromEnd": ({"%s.end" % fp: 1}, 0),
    }
    for name, w in want.items():
        v = single_assignment(b.node, name)
        got = linform(v) if v is not None else None
        ctx.ob("R1", got == w, "BED12 %s = %s" % (name, "start - 1" if name == "chromStart" else "end"), func=b, sig="%s := %s" % (name, norm(v) if v is not None else None))
    bs = single_assignment(b.node, "blockSizes")
    ok = isinstance(bs, ast.ListComp) and isinstance(bs.elt, ast.Call) and is_name(bs.elt.func, "len") and is_name(bs.elt.args[0], bs.generators[0].target.id) \
        and is_name(bs.generators[0].iter, "exons") and not bs.generators[0].ifs
    ctx.ob("R1", ok, "block sizes are the lengths of the block features", func=b, sig="blockSizes := %s" % (norm(bs) if bs is not None else None))
    bst = single_assignment(b.node, "blockStarts")
    ok = False
    if isinstance(bst, ast.ListComp) and is_name(bst.generators[0].iter, "exons") and not bst.generators[0].ifs:
        iv = bst.generators[0].target.id
        got = linform(bst.elt, resolve)
        ok = got == ({"%s.start" % iv: 1, "%s.start" % fp: -1}, 0)
    ctx.ob("R1", ok, "block starts are relative to chromStart: block.start - feature.start (first block 0)", func=b, sig="blockStarts := %s" % (norm(bst) if bst is not None else None))
    bc = single_assignment(b.node, "blockCount")
    ctx.ob("R1", bc is not None and norm(bc) == "len(exons)", "blockCount is the number of blocks", func=b, sig="blockCount := %s" % (norm(bc) if bc is not None else None), nontrivial=False)
    ex = [n for n in ast.walk(b.node) if isinstance(n, ast.Assign) and is_name(n.targets[0], "exons") and isinstance(n.value, ast.Call) and is_name(n.value.func, "list")]
    okx = bool(ex) and isinstance(ex[0].value.args[0], ast.Call) and call_attr(ex[0].value.args[0]) == "children" and \
        const_str(kwarg(ex[0].value.args[0], "order_by")) == "start" and norm(kwarg(ex[0].value.args[0], "featuretype") or ast.Constant(value=None)) == "block_featuretype" \
        and kwarg(ex[0].value.args[0], "reverse") is None
    ctx.ob("R1", okx, "blocks are the children of the block featuretype in ascending start order", func=b, sig="exons := %s" % (norm(ex[0].value) if ex else None))
    # thick bounds
    th = {}
    for n in ast.walk(b.node):
        if isinstance(n, ast.Assign) and isinstance(n.targets[0], ast.Name) and n.targets[0].id in ("thickStart", "thickEnd"):
            g = [(norm(t), pol) for t, pol in guards_of(n, b.node)]
            kind = "thick" if ("thick_featuretype", True) in g else "thin" if ("thin_featuretype", True) in g else "?"
            empty = any(t.startswith("len(") and t.endswith("== 0") and pol for t, pol in g)
            th[(kind, n.targets[0].id, empty)] = linform(n.value)
    want = {
        ("thick", "thickStart", False): ({"thick[0].start": 1}, -1),
        ("thick", "thickEnd", False): ({"thick[-1].end": 1}, 0),
        ("thin", "thickStart", False): ({"thin[0].end": 1}, 0),
        ("thin", "thickEnd", False): ({"thin[-1].start": 1}, -1),
    }
    for k, w in want.items():
        ctx.ob("R1", th.get(k) == w, "%s from %s features: %s" % (k[1], k[0], _lin(w)), func=b, sig="%s (%s) := %s" % (k[1], k[0], _lin(th[k]) if k in th else None))
    for kind in ("thick", "thin"):
        src = [n for n in ast.walk(b.node) if isinstance(n, ast.Assign) and is_name(n.targets[0], kind) and isinstance(n.value, ast.Call)]
        ok = bool(src) and "order_by='start'" in norm(src[0].value) and "featuretype=%s_featuretype" % kind in norm(src[0].value)
        ctx.ob("R1", ok, "%s features are that type's children in start order" % kind, func=b, sig="%s := %s" % (kind, norm(src[0].value)[:80] if src else None), nontrivial=False)
    # ---- R2 field order
    flds = single_assignment(b.node, "fields")
    names = [norm(e) for e in flds.elts] if isinstance(flds, ast.List) else None
    want_f = ["chrom", "chromStart", "chromEnd", "name", "score", "strand", "thickStart", "thickEnd", "itemRgb", "blockCount",
              "','.join(map(str, blockSizes))", "','.join(map(str, blockStarts))"]
    ctx.ob("R2", names == want_f, "the twelve BED fields come in BED order", func=b, sig="BED12 fields %s" % names)
    rets = [n for n in ast.walk(b.node) if isinstance(n, ast.Return)]
    ok = bool(rets) and norm(rets[-1].value) == "'\\t'.join(map(str, fields))"
    ctx.ob("R2", ok, "fields are TAB-joined", func=b, sig="bed12 returns %s" % (norm(rets[-1].value) if rets else None))
    for nm, w in (("chrom", "%s.chrom" % fp), ("strand", "%s.strand" % fp), ("score", "%s.score" % fp)):
        asg = [n for n in ast.walk(b.node) if isinstance(n, ast.Assign) and is_name(n.targets[0], nm)]
        ok = bool(asg) and norm(asg[0].value) in (w, w.replace(".chrom", ".seqid"))
        ctx.ob("R2", ok, "BED %s is the feature's %s" % (nm, nm), func=b, sig="%s := %s" % (nm, norm(asg[0].value) if asg else None), nontrivial=False)
    # ---- R3 span checks
    raises = [n for n in ast.walk(b.node) if isinstance(n, ast.If) and any(isinstance(x, ast.Raise) and "ValueError" in norm(x) for x in n.body)]
    tests = {}
    for n in raises:
        t = n.test
        if isinstance(t, ast.Compare) and len(t.ops) == 1:
            l = linform(t.left, resolve)
            r_ = linform(t.comparators[0], resolve)
            tests[(frozenset(l[0].items()), l[1], frozenset(r_[0].items()), r_[1])] = (type(t.ops[0]).__name__, n)
    def has(a, c):
        for (l, lc, r_, rc_), (op, n) in tests.items():
            if op == "NotEq" and {(l, lc), (r_, rc_)} == {(frozenset(a.items()), 0), (frozenset(c.items()), 0)}:
                return n
        return None
    n1 = has({"exons[0].start": 1}, {"%s.start" % fp: 1})
    n2 = has({"exons[-1].end": 1}, {"%s.end" % fp: 1})
    ctx.ob("R3", n1 is not None, "ValueError when the first block does not start at the feature's start", func=b,
           sig="first-block span check present" if n1 is not None else "first-block span check missing or weakened")
    ctx.ob("R3", n2 is not None, "ValueError when the last block does not end at the feature's end", func=b,
           sig="last-block span check present" if n2 is not None else "last-block span check missing or weakened")
    cfg = cfg_of(b)
    if rets and n1 is not None and n2 is not None:
        ok = all(cfg.dominates(cfg.node_for(n).id, cfg.node_for(rets[-1]).id) for n in (n1, n2))
        ctx.ob("R3", ok, "both span checks precede the result", func=b, sig="span checks dominate the return" if ok else "result can be returned without the span checks", nontrivial=False)
    # ---- to_bed12
    tb = require_func(ctx, "convert.to_bed12")
    tf = tb.params[0]
    flds = single_assignment(tb.node, "fields")
    ctx.require(isinstance(flds, ast.List) and len(flds.elts) == 12, "convert.to_bed12 no longer builds a 12-field list")
    got = [linform(e, lambda nm: single_assignment(tb.node, nm) if nm != tf else None) for e in flds.elts[1:3]]
    ctx.ob("R1", got == [({"%s.start" % tf: 1}, -1), ({"%s.end" % tf: 1}, 0)], "to_bed12: chromStart = start - 1, chromEnd = end", func=tb,
           sig="to_bed12 fields[1:3] = %s" % [norm(e) for e in flds.elts[1:3]])
    st = single_assignment(tb.node, "starts")
    ok = isinstance(st, ast.ListComp) and linform(st.elt) == ({"%s.start" % st.generators[0].target.id: 1, "%s.start" % tf: -1}, 0)
    ctx.ob("R1", ok, "to_bed12: block starts are block.start - feature.start", func=tb, sig="to_bed12 starts := %s" % (norm(st) if st is not None else None))
    sz = single_assignment(tb.node, "sizes")
    ok = isinstance(sz, ast.ListComp) and norm(sz.elt) == "len(%s)" % sz.generators[0].target.id
    ctx.ob("R1", ok, "to_bed12: block sizes are block lengths", func=tb, sig="to_bed12 sizes := %s" % (norm(sz) if sz is not None else None), nontrivial=False)


def _lin(f):
    if f is None:
        return None
    a, c = f
    s = " + ".join("%s%s" % ("" if v == 1 else "-" if v == -1 else "%d*" % v, k) for k, v in sorted(a.items()))
    return s + (" %+d" % c if c else "")


ID_ACCEPTING = {"children", "parents", "_relation"}


def r4(ctx):
    """id-or-Feature discipline."""
    targets = [("interface.FeatureDB.bed12", None), ("interface.FeatureDB.children_bp", None), ("interface.FeatureDB.add_relation", None),
               ("convert.to_bed12", None)]
    for qual, _ in targets:
        f = require_func(ctx, qual)
        cfg = cfg_of(f)
        for p in [x for x in f.params if x not in ("self", "db")]:
            normalisers = []
            for n in ast.walk(f.node):
                if isinstance(n, ast.Assign) and is_name(n.targets[0], p) and isinstance(n.value, ast.Subscript) and \
                        norm(n.value.value) in ("self", "db") and is_name(n.value.slice, p):
                    anchor = n
                    for q in parents(n):
                        if isinstance(q, ast.If) and norm(q.test) in ("isinstance(%s, str)" % p, "not isinstance(%s, Feature)" % p):
                            anchor = q
                    normalisers.append(anchor)
            if not normalisers:
                continue
            nn = [cfg.node_for(a).id for a in normalisers]
            for u in [x for x in ast.walk(f.node) if isinstance(x, ast.Name) and x.id == p and isinstance(x.ctx, ast.Load)]:
                un = cfg.node_for(u)
                if un is None or not cfg.in_own_body(u):
                    continue
                if any(cfg.dominates(n_, un.id) and n_ != un.id for n_ in nn):
                    continue
                if any(un.id == n_ for n_ in nn):
                    continue  # the normaliser itself / its isinstance test
                par = getattr(u, "_parent", None)
                ok = False
                if isinstance(par, ast.Call) and u in par.args and (call_attr(par) in ID_ACCEPTING) and par.args.index(u) == 0:
                    ok = True
                if isinstance(par, ast.Call) and is_name(par.func, "isinstance"):
                    ok = True
                if isinstance(par, ast.Subscript) and norm(par.value) in ("self", "db") and par.slice is u:
                    ok = True
                ctx.ob("R4", ok,
                       "`%s` may be an id or a Feature: until it has been looked up (%s = self[%s]) it may only be handed to id-accepting calls" % (p, p, p),
                       node=u, func=f,
                       sig="%s: `%s` used as a Feature before it is normalised (%s)" % (f.name, p, norm(getattr(cfg.node_for(u), "stmt", u))[:60]) if not ok
                       else "%s: early use of `%s` is id-safe" % (f.name, p),
                       detail=None if ok else "with an id string this object reaches attribute access (.start/.stop) -> AttributeError")
            ctx.ob("R4", True, "%s normalises `%s`" % (f.name, p), func=f, sig="%s: %s normalised" % (f.name, p), nontrivial=False)


def check(ctx):
    ctx.explanation = (
        "Linear normal forms (sum of atoms with integer coefficients + constant, locals substituted by their single definition) of every "
        "coordinate expression in __len__, sequence, bed12 and convert.to_bed12 are compared with the conventions of the statement; the "
        "BED field list is compared position by position; the span checks are found by normal form and must dominate the return; the "
        "reverse-complement test is decided by truth table; R4 is a dominance rule on id-or-Feature parameters. Does not decide string "
        "contents of sequences (pyfaidx) or exact BED lines (runtime data).")
    r1_r2_r3(ctx)
    r4(ctx)
