"""C18 -- coordinate conventions of exports: length, sequence, BED12."""
import ast

from ..cfg import cfg_of
from ..model import norm, parents, enclosing
from ..util import require_func, calls_in, call_attr, is_name, const_str, kwarg, guards_of, single_assignment


def _traces(ctx, func, args, self_obj=None, summaries=None, overrides=None):
    from ..absint import Interp, Unsupported
    it = Interp(ctx, overrides=overrides or {})
    for k, v in (summaries or {}).items():
        it.summaries[k] = v
    try:
        return it.run(func, args, self_obj=self_obj)
    except Unsupported as e:
        ctx.require(False, "%s outside the analysable subset: %s" % (func.qual, e))


def _attrs(d):
    from ..absint import Opaque
    o = Opaque("attributes", "Attributes")
    o.attrs["_d"] = d
    return o


def _gene(**over):
    from .c16 import _feat
    G = _feat("G", start=10, end=100, ft="mRNA")
    G.attrs["score"] = "."
    G.attrs["attributes"] = _attrs({"ID": ["gene1"], "Name": ["n1", "n2"]})
    G.attrs.update(over)
    return G


def _db(children_by_type, lookups=None, G=None):
    """Summaries standing for the database: db[id] and db.children(...)."""
    from .c16 import _feat
    G = G if G is not None else _gene()

    def getitem(i, pos, kw, node):
        if lookups is not None:
            lookups.append(getattr(pos[0], "name", pos[0]))
        return G

    def children(i, pos, kw, node):
        ft = kw.get("featuretype")
        key = tuple(ft) if isinstance(ft, (list, tuple)) else ft
        if lookups is not None:
            lookups.append(("children", getattr(pos[0], "name", pos[0]) if pos else None, key, kw.get("order_by"), kw.get("reverse")))
        return [_feat(n, start=s_, end=e_) for n, s_, e_ in children_by_type.get(key, [])]
    return {"interface.FeatureDB.__getitem__": getitem, "interface.FeatureDB.children": children}, G


def r1_r2_r3(ctx):
    """Lengths, sequence slices and BED12 lines, by abstract evaluation on features with concrete coordinates."""
    from ..absint import Opaque
    from .c16 import _feat
    ln = require_func(ctx, "feature.Feature.__len__")
    for s_, e_ in ((10, 20), (5, 5), (1, 100)):
        tr = _traces(ctx, ln, {}, self_obj=_feat("F", start=s_, end=e_))
        ctx.ob("R1", tr[0].result == ("return", e_ - s_ + 1), "len(feature) = end - start + 1", func=ln, sig="len(%d..%d) = %s" % (s_, e_, tr[0].result[1:2]))
    feat = ctx.proj.cls("feature.Feature")
    for alias, real in (("stop", "end"), ("chrom", "seqid")):
        m = feat.methods.get(alias)
        ok = False
        if m is not None:
            tr = _traces(ctx, m, {}, self_obj=_feat("F", chrom="chrX", start=3, end=77))
            ok = tr[0].result == ("return", {"end": 77, "seqid": "chrX"}[real])
        ctx.ob("R1", ok, "feature.%s is an alias of feature.%s" % (alias, real), func=ln, sig="%s -> %s" % (alias, real if ok else "?"), nontrivial=False)
    sq = require_func(ctx, "feature.Feature.sequence")
    for strand in ("+", "-", "."):
        for use in (True, False):
            tr = _traces(ctx, sq, {"fasta": Opaque("FA", "Fasta"), "use_strand": use}, self_obj=_feat("F", chrom="chr7", start=10, end=20, strand=strand))
            import re as _re
            # pyfaidx: -sequence is its reverse complement; reverse and complement commute
            canon = lambda nm: _re.sub(r"neg\((.*)\)", r"\1.reverse.complement", nm).replace(".complement.reverse", ".reverse.complement")
            got = sorted({canon(getattr(t.result[1], "name", repr(t.result[1]))) if t.result[0] == "return" else "raise %s" % t.result[1] for t in tr})
            rc = use and strand == "-"
            want = "FA['chr7'][9:20]%s.seq" % (".reverse.complement" if rc else "")
            ctx.ob("R5" if strand == "-" else "R1", got == [want],
                   "the sequence is the 0-based half-open slice [start-1 : end] of the feature's own sequence; it is reverse-complemented exactly for minus-strand features with use_strand",
                   func=sq, sig="sequence(strand %s, use_strand=%s) = %s" % (strand, use, got))
    # ------------------------------------------------------------- bed12
    b = require_func(ctx, "interface.FeatureDB.bed12")
    fp = [p for p in b.params if p != "self"][0]
    blocks = {("exon",): [("e1", 10, 20), ("e2", 50, 100)], ("CDS",): [("c1", 15, 20), ("c2", 50, 80)], ("UTR",): [("u1", 10, 14), ("u2", 81, 100)],
              "exon": [("e1", 10, 20), ("e2", 50, 100)]}

    def line(args, kids=blocks, G=None, lookups=None, switch=False):
        summ, G_ = _db(kids, lookups, G)
        tr = _traces(ctx, b, args, self_obj=Opaque("self", "FeatureDB"), summaries=summ, overrides={("constants", "always_return_list"): switch})
        ctx.require(len(tr) == 1, "bed12 forks on concrete input (%d paths)" % len(tr))
        t = tr[0]
        return (t.result[1].split("\t") if t.result[0] == "return" and isinstance(t.result[1], str) else ("raise", t.result[1])), t
    got, t = line({fp: _gene()})
    want = ["chr1", "9", "100", "gene1", "0", "+", "14", "80", "0,0,0", "2", "11,51", "0,40"]
    names = ["chrom", "chromStart", "chromEnd", "name", "score", "strand", "thickStart", "thickEnd", "itemRgb", "blockCount", "blockSizes", "blockStarts"]
    ctx.ob("R2", isinstance(got, list) and len(got) == 12, "the twelve BED fields come TAB-joined in BED order", func=b, sig="bed12 line has %s fields" % (len(got) if isinstance(got, list) else got))
    if not (isinstance(got, list) and len(got) == 12):
        return
    if isinstance(got, list) and len(got) == 12:
        for n_, g_, w_ in zip(names, got, want):
            rule = "R2" if n_ in ("chrom", "name", "score", "strand", "itemRgb") else "R1"
            ctx.ob(rule, g_ == w_, {"chromStart": "BED12 chromStart = start - 1", "chromEnd": "BED12 chromEnd = end", "thickStart": "thickStart = first thick feature's start - 1",
                                    "thickEnd": "thickEnd = last thick feature's end", "blockSizes": "block sizes are the lengths of the block features",
                                    "blockStarts": "block starts are relative to chromStart: block.start - feature.start (first block 0)",
                                    "blockCount": "blockCount is the number of blocks"}.get(n_, "BED %s is the feature's %s" % (n_, n_)), func=b,
                   sig="%s = %s (feature 10..100, exons 10..20 50..100, CDS 15..20 50..80)" % (n_, g_))
    got, t = line({fp: _gene(), "thick_featuretype": None, "thin_featuretype": ["UTR"]})
    ok = isinstance(got, list) and got[6:8] == ["14", "80"]
    ctx.ob("R1", ok, "from thin features: thickStart = first thin feature's end, thickEnd = last thin feature's start - 1", func=b, sig="thin UTRs 10..14, 81..100 -> thick %s" % (got[6:8] if isinstance(got, list) else got,))
    got, t = line({fp: _gene()}, kids={("exon",): blocks[("exon",)]})
    ok = isinstance(got, list) and got[6:8] == ["10", "100"]
    ctx.ob("R1", ok, "without thick features the thick region is the feature itself (as the code documents)", func=b, sig="no CDS -> thick %s" % (got[6:8] if isinstance(got, list) else got,), nontrivial=False)
    got, t = line({fp: _gene()}, kids={})
    ok = isinstance(got, list) and got[9:12] == ["1", "91", "0"]
    ctx.ob("R1", ok, "a feature without block children is its own single block", func=b, sig="no exons -> blocks %s" % (got[9:12] if isinstance(got, list) else got,), nontrivial=False)
    lk = []
    got, t = line({fp: _gene()}, lookups=lk)
    ch = [x for x in lk if isinstance(x, tuple) and x[0] == "children"]
    by_start = lambda o: o == "start" or (isinstance(o, (list, tuple)) and list(o) == ["start"])
    ok = any(x[2] == ("exon",) and by_start(x[3]) and not x[4] for x in ch) and any(x[2] == ("CDS",) and by_start(x[3]) and not x[4] for x in ch)
    ctx.ob("R1", ok, "blocks and thick features are the children of their featuretype in ascending start order", func=b, sig="children queries %s" % [x[2:] for x in ch])
    g7 = _gene(score="7")
    got, t = line({fp: g7}, G=g7)
    ctx.ob("R2", isinstance(got, list) and got[4] == "7", "BED score is the feature's score ('.' becomes 0)", func=b, sig="score 7 -> %s" % (got[4] if isinstance(got, list) else got,), nontrivial=False)
    got, t = line({fp: _gene(), "name_field": "Name"})
    ctx.ob("R2", isinstance(got, list) and got[3] == "n1", "BED name is the first value of name_field", func=b, sig="name_field=Name -> %s" % (got[3] if isinstance(got, list) else got,), nontrivial=False)
    got, t = line({fp: _gene(), "name_field": "absent"})
    ctx.ob("R2", isinstance(got, list) and got[3] == ".", "a missing name_field gives '.'", func=b, sig="missing name_field -> %s" % (got[3] if isinstance(got, list) else got,), nontrivial=False)
    for initial in (False, True):
        for nf in ("ID", "absent"):
            got, t = line({fp: _gene(), "name_field": nf}, switch=initial)
            sw = [e for e in t.events if e[0] == "setglobal" and e[2] == "always_return_list"]
            ok = (not sw) or sw[-1][3] is initial
            ctx.ob("R2", ok, "bed12 leaves the always_return_list switch as it found it (also when the name field is missing)", func=b,
                   sig="switch %s before bed12(name_field=%s): %s" % (initial, nf, "restored" if ok else "left at %r" % (sw[-1][3],)), nontrivial=False)
    # ---- R3 span checks
    got, t = line({fp: _gene()}, kids={("exon",): [("e1", 12, 20), ("e2", 50, 100)], ("CDS",): blocks[("CDS",)]})
    ctx.ob("R3", got == ("raise", "ValueError"), "ValueError when the first block does not start at the feature's start", func=b,
           sig="first block 12 vs feature start 10 -> %s" % ("ValueError" if got == ("raise", "ValueError") else got[:3] if isinstance(got, list) else got,))
    got, t = line({fp: _gene()}, kids={("exon",): [("e1", 10, 20), ("e2", 50, 90)], ("CDS",): blocks[("CDS",)]})
    ctx.ob("R3", got == ("raise", "ValueError"), "ValueError when the last block does not end at the feature's end", func=b,
           sig="last block end 90 vs feature end 100 -> %s" % ("ValueError" if got == ("raise", "ValueError") else got[:3] if isinstance(got, list) else got,))
    got, t = line({fp: _gene(), "thin_featuretype": ["UTR"]})
    ctx.ob("R3", got == ("raise", "ValueError"), "thick and thin featuretypes exclude each other", func=b, sig="both given -> %s" % (got if not isinstance(got, list) else got[:3],), nontrivial=False)
    # ---- to_bed12
    tb = require_func(ctx, "convert.to_bed12")
    tf, tdb = tb.params[0], tb.params[1]
    summ, G = _db(blocks)
    DB = Opaque("db", "FeatureDB")
    DB.attrs["dbfn"] = "x"
    tr = _traces(ctx, tb, {tf: _gene(), tdb: DB}, summaries=summ)
    r = tr[0].result
    got = r[1].rstrip("\n").split("\t") if r[0] == "return" and isinstance(r[1], str) else r
    ok = isinstance(got, list) and len(got) == 12 and got[1:3] == ["9", "100"] and got[9:12] == ["2", "11,51", "0,40"]
    ctx.ob("R1", ok, "to_bed12: chromStart = start - 1, chromEnd = end, block sizes are block lengths, block starts are block.start - feature.start", func=tb,
           sig="to_bed12 -> %s" % (got,))


def r4(ctx):
    """id-or-Feature discipline: every entry point that accepts an id is evaluated with an id string; it must look the
    feature up before using it as one (no AttributeError), and with a Feature it must behave alike."""
    from ..absint import Opaque
    from .c16 import _feat
    blocks = {("exon",): [("e1", 10, 20), ("e2", 50, 100)], ("CDS",): [("c1", 15, 20), ("c2", 50, 80)], "exon": [("e1", 10, 20), ("e2", 50, 100)]}
    DB = Opaque("db", "FeatureDB")
    DB.attrs["dbfn"] = "x"
    cases = [("interface.FeatureDB.bed12", lambda f, v: {[p for p in f.params if p != "self"][0]: v}, True),
             ("interface.FeatureDB.children_bp", lambda f, v: {[p for p in f.params if p != "self"][0]: v}, True),
             ("convert.to_bed12", lambda f, v: {f.params[0]: v, f.params[1]: DB}, False)]
    for qual, mk, is_method in cases:
        f = require_func(ctx, qual)
        outs = {}
        for label, v in (("an id", "gene1"), ("a Feature", _gene())):
            lk = []
            summ, G = _db(blocks, lk)
            tr = _traces(ctx, f, mk(f, v), self_obj=Opaque("self", "FeatureDB") if is_method else None, summaries=summ)
            outs[label] = sorted({(t.result[0], t.result[1] if isinstance(t.result[1], (str, int)) else repr(t.result[1])) for t in tr})
            if label == "an id":
                ok = all(o[0] == "return" for o in outs[label])
                ctx.ob("R4", ok, "`%s` given an id looks the feature up before using it as a Feature" % f.name, func=f,
                       sig="%s('gene1') -> %s" % (f.name, "a result" if ok else outs[label]),
                       detail=None if ok else "with an id string this object reaches attribute access (.start/.stop) -> AttributeError")
        if qual.endswith("bed12") and is_method:
            summ, G = _db({}, [])
            tr = _traces(ctx, f, mk(f, "gene1"), self_obj=Opaque("self", "FeatureDB"), summaries=summ)
            ok = all(t.result[0] == "return" for t in tr)
            ctx.ob("R4", ok, "`bed12` given an id of a feature without block children still works on the looked-up feature", func=f,
                   sig="bed12('gene1') without blocks -> %s" % ("a result" if ok else sorted({(t.result[0], t.result[1]) for t in tr if t.result[0] != "return"})),
                   detail=None if ok else "the id string itself became the single block and reached attribute access -> AttributeError")
        ctx.ob("R4", outs["an id"] == outs["a Feature"], "`%s` gives the same result for an id and for the Feature it names" % f.name, func=f,
               sig="%s: id and Feature results %s" % (f.name, "agree" if outs["an id"] == outs["a Feature"] else "differ: %s vs %s" % (outs["an id"], outs["a Feature"])), nontrivial=False)


def switch_restored(ctx, rule="R2"):
    """bed12 evaluated for both initial settings of always_return_list and a present / missing name field: whatever it sets
    meanwhile, the switch ends as it was found."""
    from ..absint import Opaque
    b = require_func(ctx, "interface.FeatureDB.bed12")
    fp = [p for p in b.params if p != "self"][0]
    blocks = {("exon",): [("e1", 10, 20), ("e2", 50, 100)], ("CDS",): [("c1", 15, 20), ("c2", 50, 80)], "exon": [("e1", 10, 20), ("e2", 50, 100)]}
    for initial in (False, True):
        for nf in ("ID", "absent"):
            summ, G_ = _db(blocks, None, None)
            tr = _traces(ctx, b, {fp: _gene(), "name_field": nf}, self_obj=Opaque("self", "FeatureDB"), summaries=summ, overrides={("constants", "always_return_list"): initial})
            ctx.require(len(tr) == 1, "bed12 forks on concrete input (%d paths)" % len(tr))
            sw = [e for e in tr[0].events if e[0] == "setglobal" and e[2] == "always_return_list"]
            ok = (not sw) or sw[-1][3] is initial
            ctx.ob(rule, ok, "bed12 leaves the always_return_list switch as it found it (also when the name field is missing)", func=b,
                   sig="switch %s before bed12(name_field=%s): %s" % (initial, nf, "restored" if ok else "left at %r" % (sw[-1][3],)), nontrivial=False)


def check(ctx):
    ctx.explanation = (
        "__len__, the stop/chrom aliases, Feature.sequence, FeatureDB.bed12 and convert.to_bed12 are evaluated abstractly (no execution) on "
        "features with concrete coordinates and a summarised database (db[id], children by type): the slice taken from the FASTA object, the "
        "twelve BED fields, the thick region from thick or thin features, the span checks, and the id-or-Feature discipline (an id must be "
        "looked up before it is used as a Feature) are compared with the conventions of the statement. Does not decide string contents of "
        "sequences (pyfaidx).")
    r1_r2_r3(ctx)
    r4(ctx)
