"""C11 -- feature-type/strand filters, ordering and counts.

R1  query text and positional arguments in lock-step (exhaustive over the
    builder's configuration space, decided by partitioned dataflow);
R2  order_by: str and iterable forms validated and translated alike,
    `length` -> (end - start), reverse -> DESC, every name resolves;
R3  count / distinct listings filter the same column as the iteration;
R4  exactly one WHERE, every further condition introduced by AND (parse).
"""
import ast

from .. import sql as S
from ..absint import Sym, AStr
from ..builders import (interp_for, BoundQuery, where_conjuncts, normalise_filters, compare_filters,
                        ft_options, limit_options, order_options, strand_options)
from ..util import require_func, execute_sites, calls_in, kwarg, call_attr


def expected_order(order_by, reverse):
    names = [order_by] if isinstance(order_by, str) else list(order_by)
    out = []
    for n in names:
        out.append("(end - start)" if n == "length" else n)
    return out, ("desc" if reverse else "asc")


def order_term_text(e):
    if e[0] == "col":
        return e[2].lower()
    if e[0] == "arith":
        return "(%s %s %s)" % (order_term_text(e[2]), e[1], order_term_text(e[3]))
    return S.show(e)


def check(ctx):
    proj = ctx.proj
    mq = require_func(ctx, "helpers.make_query")
    it = interp_for(ctx)
    consts = ctx.folder.env("constants")
    ctx.require("_gffkeys_extra" in consts and "_SELECT" in consts, "cannot fold constants._gffkeys_extra/_SELECT")
    select_cols = [c.strip().split(" as ")[-1].split(".")[-1] for c in
                   consts["_SELECT"].split("FROM")[0].replace("SELECT", "").split(",")]
    valid_spec = list(consts["_gffkeys_extra"]) + ["file_order", "length"]
    ctx.explanation = (
        "helpers.make_query (and its callers all_features/features_of_type/_relation) is evaluated by a partitioned "
        "forward dataflow over its whole configuration space: featuretype{absent,str,collections} x limit{absent,tuple,"
        "'seqid:start-end'} x completely_within x strand x order_by forms x reverse x relation clauses. Every resulting "
        "statement is parsed; each placeholder is matched with the argument bound to it and with the column it is "
        "compared to; the ORDER BY clause is compared with the requested columns. Count/distinct listings are checked "
        "by parsing their SQL. Decides the lock-step, validation/translation and well-formedness clauses; does not "
        "decide sort results on concrete data (SQLite's sorter, collation, ties).")

    n_part = n_traces = 0
    seen_sig = set()

    def fail(rule, desc, sig, detail=None, node=None):
        ctx.ob(rule, False, desc, node=node or mq.node, func=mq, sig=sig, detail=detail)

    orders = order_options(ctx.tier, [v for v in valid_spec])
    for (ftn, ft) in ft_options(ctx.tier):
        for (ln, lim) in limit_options():
            for within in ((False, True) if lim is not None else (False,)):
                for (sn, strand) in strand_options():
                    for (on, ob) in orders:
                        for rev in ((False, True) if ob is not None else (False,)):
                            n_part += 1
                            label = "ft=%s limit=%s within=%s strand=%s order_by=%s reverse=%s" % (ftn, ln, within, sn, on, rev)
                            args = dict(args=[], featuretype=ft, limit=lim, completely_within=within,
                                        strand=strand, order_by=ob, reverse=rev)
                            traces = it.run(mq, args)
                            for t in traces:
                                n_traces += 1
                                _check_trace(ctx, t, label, ft, lim, strand, ob, rev, on, valid_spec, select_cols, fail)
    ctx.extra["partitions"] = n_part
    ctx.extra["traces"] = n_traces
    ctx.exhaustive = True
    ctx.ob("R1", True, "lock-step binding evaluated on %d partitions / %d traces of make_query" % (n_part, n_traces),
           func=mq, sig="make_query partitions evaluated", nontrivial=True)

    # relation callers: other/extra with and without level
    for meth in ("children", "parents"):
        f = require_func(ctx, "interface.FeatureDB." + meth)
        for level in (None, Sym("level", "int")):
            for (ftn, ft) in ft_options(ctx.tier)[:3]:
                for (ln, lim) in limit_options()[:2]:
                    args = dict(id=Sym("id", "str"), level=level, featuretype=ft, limit=lim)
                    traces = it.run(f, args)
                    label = "%s level=%s ft=%s limit=%s" % (meth, "given" if level is not None else "none", ftn, ln)
                    for t in traces:
                        n_traces += 1
                        ex = t.executes()
                        if t.result[0] == "raise":
                            ctx.ob("R1", False, "%s raises %s for a valid argument combination" % (meth, t.result[1]),
                                   func=f, sig="%s raises %s: %s" % (meth, t.result[1], _short(t.result[2])), detail=label)
                            continue
                        if len(ex) != 1:
                            ctx.ob("R1", False, "%s executes %d statements, expected 1" % (meth, len(ex)), func=f,
                                   sig="%s executes %d statements" % (meth, len(ex)), detail=label)
                            continue
                        bq = BoundQuery(ex[0][1], ex[0][2])
                        ok = not bq.problems
                        ctx.ob("R1", ok, "placeholders and arguments of %s agree (%s)" % (meth, label), func=f,
                               sig="%s: %s" % (meth, "; ".join(bq.problems) if bq.problems else "lock-step"),
                               detail=bq.text and " ".join(bq.text.split()), nontrivial=(label.endswith("none")))
                        if ok:
                            filters, coords, bins_, joins, others, probs = normalise_filters(where_conjuncts(bq))
                            exp = {}
                            if ft is not None:
                                exp["featuretype"] = [x.name for x in ([ft] if isinstance(ft, Sym) else ft)]
                            got = {k: v for k, v in filters.items() if k == "featuretype"}
                            p2 = compare_filters(got, exp) + probs
                            ctx.ob("R1", not p2, "featuretype filter of %s is bound to the requested types (%s)" % (meth, label),
                                   func=f, sig="%s featuretype filter: %s" % (meth, "; ".join(p2) if p2 else "ok"),
                                   nontrivial=False)

    # forwarding by the public callers: the statement they execute, and its bound values, are those make_query builds from
    # the same arguments (evaluated abstractly, whatever helpers sit in between)
    from ..absint import Opaque, Unsupported
    rep = dict(limit=("chr", Sym("S", "int", True), Sym("E", "int", True)), strand=Sym("strand", "str", True), featuretype=Sym("ft", "str", True),
               order_by="start", reverse=True, completely_within=True)
    norm_sql = lambda q: " ".join((q.render() if hasattr(q, "render") else str(q)).split())
    names = lambda a: tuple(getattr(x, "name", x) for x in (a or ()))
    for qual in ("interface.FeatureDB.all_features", "interface.FeatureDB.features_of_type"):
        f = require_func(ctx, qual)
        ps = [p for p in f.params if p != "self"]
        variants = [("all arguments", {k: v for k, v in rep.items() if k in ps}), ("defaults", {k: v for k, v in rep.items() if k in ps and k == "featuretype"})]
        # every way of asking for an order: each sortable name alone (string and one-item tuple), a two-key order, both directions
        for ob in ("file_order", ("file_order",), "length", "id", "seqid", ("start", "file_order"), ["end", "start"]):
            for rev in (False, True):
                a_ = {k: v for k, v in rep.items() if k in ps and k == "featuretype"}
                a_.update(order_by=ob, reverse=rev)
                variants.append(("order_by=%r, reverse=%s" % (ob, rev), a_))
        for variant, a in variants:
            try:
                got = it.run(f, dict(a), self_obj=Opaque("self", "FeatureDB"))
                ref = it.run(mq, dict(args=[], **a))
            except Unsupported as e:
                ctx.require(False, "%s outside the analysable subset: %s" % (qual, e))
            want = sorted({(norm_sql(t.result[1][0]), names(t.result[1][1])) for t in ref if t.result[0] == "return"})
            have = sorted({(norm_sql(e[1]), names(e[2])) for t in got for e in t.executes()})
            rw = sorted({t.result[1] for t in ref if t.result[0] == "raise"})
            rh = sorted({t.result[1] for t in got if t.result[0] == "raise"})
            ok = have == want and (bool(want) or (bool(rw) and rw == rh))
            ctx.ob("R1", ok, "%s runs exactly the statement make_query builds from its arguments, with the same bound values (%s)" % (f.name, variant), func=f,
                   sig="%s forwards %s" % (f.name, variant) if ok else "%s (%s) executes %s, make_query builds %s" % (f.name, variant, [h[0][-60:] + " " + str(h[1]) for h in have][:2],
                                                                                                                        [w[0][-60:] + " " + str(w[1]) for w in want][:2]))
    ctx.attempt(_r3_counts)
    ctx.attempt(_r_sorted)


def _short(s):
    return " ".join(str(s).split())[:60]


def _check_trace(ctx, t, label, ft, lim, strand, ob, rev, on, valid_spec, select_cols, fail):
    mq = ctx.proj.funcs["helpers.make_query"]
    names = [] if ob is None else ([ob] if isinstance(ob, str) else list(ob))
    bogus = [n for n in names if n not in valid_spec]
    form = "str" if isinstance(ob, str) else "iterable"
    if t.result[0] == "raise":
        if bogus and t.result[1] == "ValueError":
            ctx.ob("R2", True, "invalid order_by name rejected with ValueError (%s form)" % form, func=mq,
                   sig="order_by %s form: invalid name rejected" % form, nontrivial=True)
            return
        fail("R1", "make_query raises %s for a valid argument combination" % t.result[1],
             "make_query raises %s: %s" % (t.result[1], _short(t.result[2]).split("(")[0]), detail=label)
        return
    res = t.result[1]
    if not (isinstance(res, tuple) and len(res) == 2):
        fail("R1", "make_query returns (query, args)", "make_query returns %r" % (type(res).__name__,), detail=label)
        return
    if bogus:
        ctx.ob("R2", False, "an order_by name outside the valid list must be rejected (ValueError) in the %s form" % form,
               func=mq, sig="order_by %s form: invalid name not rejected" % form,
               detail="order_by=%r reaches the statement unvalidated (%s)" % (ob, label))
        return
    bq = BoundQuery(res[0], res[1])
    if bq.problems:
        for p in bq.problems:
            kind = "R4" if "does not parse" in p else "R1"
            fail(kind, "generated statement is well-formed and its placeholders match the argument list",
                 p.split("::")[0].strip() if kind == "R4" else p, detail="%s :: %s" % (label, bq.text and " ".join(bq.text.split())))
        return
    if bq.stmt.verb != "SELECT":
        fail("R1", "make_query builds a SELECT", "make_query builds %s" % bq.stmt.verb, detail=label)
        return
    filters, coords, bins_, joins, others, probs = normalise_filters(where_conjuncts(bq))
    exp = {}
    if ft is not None:
        exp["featuretype"] = [x.name for x in ([ft] if isinstance(ft, Sym) else ft)]
    if strand is not None:
        exp["strand"] = ["strand"]
    if lim is not None:
        exp["seqid"] = ["seqid"]
    p2 = compare_filters(filters, exp) + probs
    for o in others:
        p2.append("unexpected condition %s" % _short(o))
    if lim is None and (coords or bins_):
        p2.append("coordinate/bin condition without a limit")
    if lim is not None:
        from ..builders import coord_vars
        cv = coord_vars(coords)
        if not {"S", "E"} <= cv:
            p2.append("limit coordinates not both bound to start/end comparisons (bound: %s)" % sorted(cv))
    for p in p2:
        fail("R1", "each placeholder is compared with the column its argument means", p,
             detail="%s :: %s :: args=%r" % (label, " ".join(bq.text.split()), bq.args))
    if not p2:
        ctx.ob("R1", True, "lock-step: %s" % label, func=mq, sig="lock-step ok: ft=%s limit=%s strand=%s" % (
            label.split()[0], label.split()[1], label.split()[3]), nontrivial=False)
    # ------------------------------------------------------------- R2
    order = bq.stmt.order_by
    if ob is None:
        ctx.ob("R2", not order, "no ORDER BY when order_by is not given", func=mq,
               sig="ORDER BY without order_by" if order else "no order_by -> no ORDER BY", nontrivial=False)
        return
    exp_terms, exp_dir = expected_order(ob, rev)
    got_terms = [order_term_text(e) for e, _d in order]
    got_dir = (order[-1][1] or "asc") if order else None
    stray = [d for _e, d in order[:-1] if d is not None]
    ok_terms = got_terms == exp_terms
    if not ok_terms and "length" in names and any(g == "length" for g in got_terms):
        ctx.ob("R2", False, "`length` must be translated to (end - start) in the %s form of order_by" % form, func=mq,
               sig="order_by %s form: 'length' not translated" % form,
               detail="%s :: ORDER BY %s" % (label, ",".join(got_terms)))
    else:
        ctx.ob("R2", ok_terms, "ORDER BY lists the requested columns in order (%s form)" % form, func=mq,
               sig="order_by %s form columns ok" % form if ok_terms else "order_by %s form: ORDER BY %s, expected %s" % (
                   form, ",".join(got_terms), ",".join(exp_terms)), detail=label, nontrivial=not rev)
    ok_dir = got_dir == exp_dir and not stray
    ctx.ob("R2", ok_dir, "reverse=%s sorts %s" % (rev, exp_dir.upper()), func=mq,
           sig="reverse=%s -> %s" % (rev, (got_dir or "none").upper()) + (" (stray directions)" if stray else ""),
           detail=label, nontrivial=False)
    for g in (got_terms if ok_terms else []):
        base = g.strip("()").replace(" ", "")
        cols = set(select_cols)
        ok = g in cols or g == "(end - start)" or all(x in cols for x in base.replace("-", " ").replace("+", " ").split())
        ctx.ob("R2", ok, "ORDER BY term resolves to a column or alias of the SELECT list", func=mq,
               sig="ORDER BY term %s %s" % (g, "resolves" if ok else "does not resolve"), nontrivial=False)


def _r_sorted(ctx):
    """Filters and ordering evaluated on a created model database (mixed-case seqids, numeric-looking text columns, ties):
    all_features / features_of_type return exactly the matching rows, each once, in the requested order; without order_by in
    input order; the count equals the number iterated."""
    from . import scen
    import itertools as _it
    f = require_func(ctx, "interface.FeatureDB.all_features")
    fo = require_func(ctx, "interface.FeatureDB.features_of_type")
    spec = [  # id, seqid, source, type, start, end, score, strand, frame
        ("b2", "chr2", "srcB", "exon", 50, 60, "10", "-", "1"), ("a1", "chr10", "srcA", "gene", 5, 500, "9", "+", "."), ("c3", "Chr1", "srcA", "exon", 5, 20, ".", "+", "0"),
        ("d4", "chr1", "srcC", "CDS", 100, 110, "100", "-", "2"), ("e5", "chr1", "srcA", "exon", 100, 300, "9", "+", "."), ("f6", "chrM", "srcB", "gene", 1, 16000, "1e3", ".", "."),
        ("g7", "chr2", "srcB", "exon", 50, 60, "10", "-", "1"), ("h8", "\u00e4chr", "srcC", "mRNA", 7, 7, "2", "+", "."),
    ]
    lines = [scen.feature(i.upper(), ft, s_, e_, {"ID": [i]}, seqid=sq, source=src, score=sc, strand=st, frame=fr) for i, sq, src, ft, s_, e_, sc, st, fr in spec]
    im, t = scen.run_create(ctx, "_GFFDBCreator", lines)
    if not scen.returned(ctx, t, "create()", func=f, rule="R2"):
        return
    it, me, conn, t0 = scen.open_feature_db(ctx, im.db)
    if not scen.returned(ctx, t0, "FeatureDB(dbfn)", func=f, rule="R2"):
        return
    it.summaries["interface.FeatureDB._feature_returner"] = lambda i, pos, kw, node: kw.get("id")
    rec = {r[0]: r for r in spec}
    order = [r[0] for r in spec]
    attrs_json = {r[0]: '{"ID":["%s"]}' % r[0] for r in spec}
    col = {"seqid": lambda r: r[1], "source": lambda r: r[2], "featuretype": lambda r: r[3], "start": lambda r: r[4], "end": lambda r: r[5], "score": lambda r: r[6],
           "strand": lambda r: r[7], "frame": lambda r: r[8], "id": lambda r: r[0], "length": lambda r: r[5] - r[4], "file_order": lambda r: order.index(r[0]),
           "attributes": lambda r: attrs_json[r[0]], "extra": lambda r: "[]", "bin": None}
    valid = list(ctx.folder.const("constants", "_gffkeys_extra")) + ["file_order", "length"]
    names = [k for k in valid if col.get(k) is not None]
    ctx.floor("R2", len(names), 10, "sortable names with a reference column")
    n_q = [0]
    bad = {}

    def run(qual, **kw):
        n_q[0] += 1
        tr = scen.call_method(ctx, it, me, qual, **kw)
        if tr.result[0] != "return":
            return "raises %s" % (tr.result[1],)
        from ..absint import RaiseEx
        try:
            return list(tr.result[1])
        except TypeError:
            return "not iterable"
        except RaiseEx as e:
            return "raises %s: %s" % (e.exc, str(e.msg)[:80])

    def matching(ft, strand):
        fts = None if ft is None else ([ft] if isinstance(ft, str) else list(ft))
        return [i for i in order if (fts is None or rec[i][3] in fts) and (strand is None or rec[i][7] == strand)]

    def judge(label, got, want_ids, keys, reverse):
        if not isinstance(got, list) or sorted(got) != sorted(want_ids):
            bad.setdefault(label, "returns %s, the matching features are %s" % (got, want_ids))
            return
        if not keys:
            if got != want_ids:
                bad.setdefault(label, "returns %s, input order is %s" % (got, want_ids))
            return
        ks = [tuple(col[k](rec[i]) for k in keys) for i in got]
        mono = all((a >= b) if reverse else (a <= b) for a, b in zip(ks, ks[1:]))
        if not mono:
            bad.setdefault(label, "returns %s with keys %s: not %s by %s" % (got, ks, "descending" if reverse else "ascending", list(keys)))
    filters = [(None, None), ("exon", None), (("exon", "CDS"), None), (["gene"], "+"), (None, "-"), ("absent", None), (("mRNA", "gene", "exon"), "+")]
    for ft, strand in filters:
        want = matching(ft, strand)
        kwf = dict(({"featuretype": ft} if ft is not None else {}), **({"strand": strand} if strand is not None else {}))
        label = "featuretype=%r strand=%r" % (ft, strand)
        judge("all_features(%s), no order_by" % label, run("interface.FeatureDB.all_features", **kwf), want, (), False)
        if ft is not None:
            judge("features_of_type(%s), no order_by" % label, run("interface.FeatureDB.features_of_type", **kwf), want, (), False)
            if isinstance(ft, str) and strand is None:
                n = scen.call_method(ctx, it, me, "interface.FeatureDB.count_features_of_type", featuretype=ft).result
                if n != ("return", len(want)):
                    bad.setdefault("count_features_of_type(%r)" % ft, "is %s, %d features are iterated" % (n[1:], len(want)))
        for k in (names if (ft, strand) in filters[:3] or ctx.tier == "thorough" else names[:3]):
            for rev in (False, True):
                for form, ob in (("str", k), ("tuple", (k,))):
                    judge("all_features(%s, order_by=%r, reverse=%s)" % (label, ob, rev), run("interface.FeatureDB.all_features", order_by=ob, reverse=rev, **kwf), want, (k,), rev)
            if ft is not None:
                judge("features_of_type(%s, order_by=%r)" % (label, k), run("interface.FeatureDB.features_of_type", order_by=k, **kwf), want, (k,), False)
    pairs = list(_it.permutations(names, 2)) if ctx.tier == "thorough" else [("seqid", "start"), ("featuretype", "length"), ("strand", "score"), ("start", "file_order"), ("score", "end"), ("length", "seqid")]
    for ks in pairs + [("seqid", "start", "end"), ("strand", "featuretype", "file_order")]:
        for ob in (tuple(ks), list(ks)):
            judge("all_features(order_by=%r)" % (ob,), run("interface.FeatureDB.all_features", order_by=ob), order, ks, False)
    ctx.ob("R2", not bad, "filters and ordering on a model database: exactly the matching features, each once, in input order without order_by, ascending by the requested "
           "column(s) (lexicographic for several; 'length' = end - start; 'file_order' = input order) and descending with reverse for a single column (%d queries over "
           "%d sortable names x filters x forms)" % (n_q[0], len(names)), func=f,
           sig="ordering and filters agree with a full scan" if not bad else "; ".join("%s %s" % kv for kv in sorted(bad.items())[:3])[:700])
    ctx.extra["sorted_queries"] = n_q[0]


def _r3_counts(ctx):
    """Counts and distinct listings, evaluated on a created model database: counts equal the number of stored rows per type,
    featuretypes()/seqids() list each value once -- also after an abandoned iteration, an update and a delete."""
    from . import scen
    from ..absint import Unsupported
    f = require_func(ctx, "interface.FeatureDB.count_features_of_type")
    lines = scen.gff_lines() + [scen.feature("Z1", "exon", 5, 9, {"ID": ["z1"]}, seqid="chr2"), scen.feature("Z2", "CDS", 5, 9, {"ID": ["z2"]}, seqid="chrM")]
    im, t = scen.run_create(ctx, "_GFFDBCreator", lines)
    if not scen.returned(ctx, t, "create()", func=f, rule="R3"):
        return
    it, me, conn, t0 = scen.open_feature_db(ctx, im.db)
    if not scen.returned(ctx, t0, "FeatureDB(dbfn)", func=f, rule="R3"):
        return

    def model():
        rows = im.db.rows("features", ["featuretype", "seqid"])
        types, seqs = {}, []
        for ft, sq in rows:
            types[ft] = types.get(ft, 0) + 1
            if sq not in seqs:
                seqs.append(sq)
        return types, seqs, len(rows)

    def listing(name):
        t_ = scen.call_method(ctx, it, me, "interface.FeatureDB." + name)
        if t_.result[0] != "return":
            return ("raise", t_.result[1])
        try:
            return list(t_.result[1])
        except TypeError:
            return ("not iterable", repr(t_.result[1])[:60])

    def check(stage):
        types, seqs, total = model()
        bad = None
        for ft in list(types) + ["absent"]:
            t_ = scen.call_method(ctx, it, me, "interface.FeatureDB.count_features_of_type", featuretype=ft)
            if t_.result != ("return", types.get(ft, 0)):
                bad = "count_features_of_type(%r) = %s, the table has %d" % (ft, t_.result[1:], types.get(ft, 0))
        t_ = scen.call_method(ctx, it, me, "interface.FeatureDB.count_features_of_type")
        if t_.result != ("return", total):
            bad = "count_features_of_type() = %s, the table has %d rows" % (t_.result[1:], total)
        ctx.ob("R3", bad is None, "count_features_of_type counts exactly the stored rows of the type (all rows without a type) -- %s" % stage, func=f,
               sig="counts equal the table (%s)" % stage if bad is None else "%s: %s" % (stage, bad))
        for name, want in (("featuretypes", sorted(types)), ("seqids", sorted(seqs))):
            g = require_func(ctx, "interface.FeatureDB." + name)
            got = listing(name)
            ok = isinstance(got, list) and sorted(got) == want and len(got) == len(set(got))
            ctx.ob("R3", ok, "%s() lists every distinct stored value exactly once -- %s" % (name, stage), func=g,
                   sig="%s() complete and duplicate-free (%s)" % (name, stage) if ok else "%s, %s() = %s, the table has %s" % (stage, name, got, want))
    # an iteration abandoned after its first item (the very first use of the listing) leaves no trace
    for name in ("featuretypes", "seqids"):
        t_ = scen.call_method(ctx, it, me, "interface.FeatureDB." + name)
        if t_.result[0] == "return":
            try:
                next(iter(t_.result[1]))
            except (StopIteration, TypeError):
                pass
    check("after an abandoned first iteration")
    check("second listing")
    t_ = scen.call_method(ctx, it, me, "interface.FeatureDB.update", data=[scen.feature("N1", "tRNA", 5, 9, {"ID": ["n1"]}, seqid="chr9")], make_backup=False)
    check("after an update adding a new type on a new seqid")
    t_ = scen.call_method(ctx, it, me, "interface.FeatureDB.delete", features=["z2", "n1"], make_backup=False)
    check("after deleting the only features of a type and of two seqids")
