"""C20 -- concurrent imports: unique temp names, removal, no shared state."""
import ast

from ..callgraph import Effects
from ..cfg import cfg_of
from ..model import norm, parents, stmt_of
from ..util import require_func, calls_in, call_attr, kwarg, is_name, assignments_to, guards_of

TEMP_MAKERS = ("tempfile.NamedTemporaryFile", "tempfile.mkstemp")


def temp_sites(ctx, eff, root):
    out = []
    for q in sorted(eff.reach(root.qual)):
        f = ctx.proj.funcs[q]
        for c in calls_in(f.node):
            d = ctx.proj.resolve_call(c, f)[1]
            if d in TEMP_MAKERS or d in ("tempfile.mktemp", "tempfile.TemporaryFile", "tempfile.mkdtemp"):
                out.append((f, c, d))
    return out


def _names_bound_to(f, call):
    """Local names that hold the temp file object or its name."""
    names = set()
    st = stmt_of(call)
    if isinstance(st, ast.Assign):
        for t in st.targets:
            if isinstance(t, ast.Name):
                names.add(t.id)
    # one propagation step: x = tmp.name / with open(tmp) as fout -> fout.name
    changed = True
    while changed:
        changed = False
        for n in ast.walk(f.node):
            if isinstance(n, ast.Assign) and isinstance(n.targets[0], ast.Name) and n.targets[0].id not in names:
                if any(isinstance(x, ast.Name) and x.id in names for x in ast.walk(n.value)) and \
                        isinstance(n.value, (ast.Name, ast.Attribute)):
                    names.add(n.targets[0].id)
                    changed = True
            if isinstance(n, ast.With):
                for it in n.items:
                    if isinstance(it.context_expr, ast.Call) and is_name(it.context_expr.func, "open") and it.context_expr.args and \
                            any(isinstance(x, ast.Name) and x.id in names for x in ast.walk(it.context_expr.args[0])) and \
                            isinstance(it.optional_vars, ast.Name) and it.optional_vars.id not in names:
                        names.add(it.optional_vars.id)
                        changed = True
    return names


def r1_r2(ctx, eff):
    cd = require_func(ctx, "create.create_db")
    sites = temp_sites(ctx, eff, cd)
    ctx.floor("R1", len(sites), 1, "temp-file creation sites in the import call graph")
    for f, c, d in sites:
        ok = d in TEMP_MAKERS
        ctx.ob("R1", ok, "intermediate files get a per-call unique name from tempfile (NamedTemporaryFile/mkstemp)", node=c, func=f,
               sig="%s creates its temp file with %s" % (f.name, d))
        for k in ("dir", "prefix"):
            v = kwarg(c, k)
            ctx.ob("R1", v is None, "the temp file's directory/prefix is left to tempfile", node=c, func=f,
                   sig="%s temp %s=%s" % (f.name, k, norm(v) if v is not None else "default"), nontrivial=False)
    # every write-open in the import call graph targets a tempfile-derived name
    for e in eff.transitive(cd.qual):
        if e[1] == "FS" and e[2] == "write-open":
            f = ctx.proj.funcs[e[0]]
            call = e[4]
            tgt = call.args[0] if call.args else None
            ok = False
            if isinstance(tgt, (ast.Name, ast.Attribute)):
                base = tgt
                while isinstance(base, ast.Attribute):
                    base = base.value
                if isinstance(base, ast.Name):
                    for fs, c, d in sites:
                        if fs is f and base.id in _names_bound_to(f, c):
                            ok = True
            ctx.ob("R1", ok, "files written during an import are the import's own tempfile-named files", node=call, func=f,
                   sig="%s writes %s" % (f.name, norm(tgt) if tgt is not None else "?"))
    # ------------------------------------------------------------------ R2
    for f, c, d in sites:
        delete = kwarg(c, "delete")
        self_deleting = d == "tempfile.NamedTemporaryFile" and (delete is None or (isinstance(delete, ast.Constant) and delete.value is True))
        if self_deleting:
            ctx.ob("R2", True, "temp file removes itself on close", node=c, func=f, sig="%s: self-deleting temp file" % f.name)
            continue
        cfg = cfg_of(f)
        names = _names_bound_to(f, c)
        start = cfg.node_for(c)
        unlinks = []
        for u in calls_in(f.node):
            du = ctx.proj.resolve_call(u, f)[1]
            if du in ("os.unlink", "os.remove") and u.args and any(isinstance(x, ast.Name) and x.id in names for x in ast.walk(u.args[0])):
                unlinks.append(u)
        finalizers = []
        for u in calls_in(f.node):
            du = ctx.proj.resolve_call(u, f)[1] or ""
            if du in ("weakref.finalize", "atexit.register") and any(isinstance(x, ast.Name) and x.id in names for a in u.args for x in ast.walk(a)):
                finalizers.append(u)
        if unlinks:
            # every normal path from the creation to the exit passes an unlink, the only bypass being `_keep_tempfiles`
            un = {cfg.node_for(u).id for u in unlinks}
            reach = cfg.reachable(start.id, avoid=un)
            escapes = cfg.exit.id in reach
            bypass_ok = True
            if escapes:
                # acceptable only when each unlink is guarded solely by `not self._keep_tempfiles`
                for u in unlinks:
                    g = sorted(("" if pol else "not ") + norm(t) for t, pol in guards_of(u, f.node))
                    if g != ["not self._keep_tempfiles"]:
                        bypass_ok = False
                # and removing that guard closes every escape
                guard_ifs = {id(p) for u in unlinks for p in parents(u) if isinstance(p, ast.If)}
                ifn = {cfg.node_for(p).id for u in unlinks for p in parents(u) if isinstance(p, ast.If) and p is not f.node}
                reach2 = cfg.reachable(start.id, avoid=un | ifn)
                if cfg.exit.id in reach2:
                    bypass_ok = False
            ok = (not escapes) or bypass_ok
            ctx.ob("R2", ok, "the temp file of %s is removed on every normal path to the return (only `_keep_tempfiles` may keep it)" % f.name,
                   node=c, func=f, sig="%s: temp file unlinked on all paths" % f.name if ok else "%s: a path returns without unlinking the temp file" % f.name)
        elif finalizers:
            fn = {cfg.node_for(u).id for u in finalizers}
            reach = cfg.reachable(start.id, avoid=fn)
            ok = cfg.exit.id not in reach
            ctx.ob("R2", ok, "a finalizer that removes the temp file of %s is registered on every path to the return" % f.name, node=c, func=f,
                   sig="%s: temp file removed by a registered finalizer" % f.name if ok else "%s: a path returns without registering the finalizer" % f.name)
        else:
            ctx.ob("R2", False,
                   "every intermediate file is removed when the run finishes: the creator unlinks it before returning, or registers a "
                   "finalizer on the object that still needs it", node=c, func=f,
                   sig="%s: temp file (delete=False) is never removed" % f.name,
                   detail="%s creates %s and neither unlinks %s nor registers a finalizer" % (f.qual, norm(c), sorted(names)))


def r3(ctx, eff):
    cd = require_func(ctx, "create.create_db")
    stores = [e for e in eff.transitive(cd.qual) if e[1] == "GLOBAL"]
    for e in stores:
        ctx.ob("R3", False, "imports share no module-level mutable state", node=e[3], func=ctx.proj.funcs[e[0]],
               sig="%s stores to module-level %s" % (e[0].split(".")[-1], e[2]))
    ctx.ob("R3", not stores, "no store to module-level state in the import call graph (%d functions)" % len(eff.reach(cd.qual)), func=cd,
           sig="import closure: no module-level stores", nontrivial=True)
    # file effects of an import: only temp files, the force unlink and the database connection
    kinds = sorted({(e[2], e[3]) for e in eff.transitive(cd.qual) if e[1] == "FS"})
    allowed = {("create-temp", "tempfile.NamedTemporaryFile"), ("create-temp", "tempfile.mkstemp"), ("write-open", "open"), ("unlink", "os.unlink"), ("unlink", "os.remove")}
    extra = [k for k in kinds if k not in allowed]
    ctx.ob("R3", not extra, "an import's file effects are its temp files, the force unlink and the database itself", func=cd,
           sig="import file effects %s" % (extra or "within footprint"))
    ctx.require(len(eff.reach(cd.qual)) >= 15, "import call graph collapsed (%d functions)" % len(eff.reach(cd.qual)))


def check(ctx):
    ctx.explanation = (
        "Effect analysis over the call graph of create_db (creators, iterators, parser): every temp file is named by tempfile; every "
        "delete=False temp file is paired with an unlink on all normal CFG paths to the return (only `_keep_tempfiles` may bypass) or with "
        "a registered finalizer; the import closure stores to no module-level object and writes no file outside its footprint. "
        "Concurrent readers: see C19.R3 (no reader writes). Does not decide identical results under every schedule: separate processes "
        "share no in-process state, and OS/SQLite locking is outside the source.")
    eff = Effects(ctx)
    r1_r2(ctx, eff)
    r3(ctx, eff)
