"""C20 -- concurrent imports: unique temp names, removal, no shared state."""
import ast

from ..callgraph import Effects
from ..cfg import cfg_of
from ..model import norm, parents, stmt_of
from ..util import require_func, calls_in, call_attr, kwarg, is_name, assignments_to, guards_of

TEMP_MAKERS = ("tempfile.NamedTemporaryFile", "tempfile.mkstemp")


def temp_sites(ctx, eff, root):
    out = []
    for q in sorted(eff.reach(root.qual)):
        f = ctx.proj.funcs[q]
        for c in calls_in(f.node):
            d = ctx.proj.resolve_call(c, f)[1]
            if d in TEMP_MAKERS or d in ("tempfile.mktemp", "tempfile.TemporaryFile", "tempfile.mkdtemp"):
                out.append((f, c, d))
    return out


def _derived(v):
    """The temp creation(s) a value is derived from, by its provenance name."""
    n = getattr(v, "name", None)
    if n is None and hasattr(v, "render"):
        n = v.render()
    return n if isinstance(n, str) and "tempfile." in n else None


def r1_r2(ctx, eff):
    """Temp files of an import, judged on the abstract traces of the routines that create them: how they are named, what is
    written where, and that each is removed (or handed to a finalizer) on every normal path unless the caller keeps them."""
    from ..absint import Interp, Sym, Opaque, Unsupported
    cd = require_func(ctx, "create.create_db")
    sites = temp_sites(ctx, eff, cd)
    ctx.floor("R1", len(sites), 1, "temp-file creation sites in the import call graph")
    # the importers' own temp files are judged on the evaluated create() (r_scenario); here: DataIterator(from_string=True)
    entries = [(ctx.proj.maybe_func("iterators.DataIterator"), "function")]
    ctx.require(all(e[0] is not None for e in entries), "anchor vanished: iterators.DataIterator")
    covered = set()
    for q_ in ("create._GFFDBCreator._update_relations", "create._GTFDBCreator._update_relations", "create._DBCreator.create", "iterators.DataIterator"):
        if ctx.proj.maybe_func(q_) is not None:
            covered |= eff.reach(q_) | {q_}
    for f, c, d in sites:
        ok = d in TEMP_MAKERS
        ctx.ob("R1", ok, "intermediate files get a per-call unique name from tempfile (NamedTemporaryFile/mkstemp)", node=c, func=f, sig="%s creates its temp file with %s" % (f.name, d))
        ctx.ob("R1", f.qual in covered, "every temp-file creation of an import is reached from an evaluated routine", node=c, func=f,
               sig="%s: temp creation evaluated" % f.name if f.qual in covered else "%s: temp creation outside the evaluated routines" % f.name, nontrivial=False)

    def run(f, kind, keep):
        it = Interp(ctx)
        it.empty_loops = True
        it.MAX_TRACES = max(getattr(it, "MAX_TRACES", 0), 4096)
        it.summaries["create._DBCreator._insert"] = lambda i, pos, kw, node: None
        it.summaries["create._DBCreator._id_handler"] = lambda i, pos, kw, node: "K"
        it.summaries["create._DBCreator._do_merge"] = lambda i, pos, kw, node: (pos[0], "merge")
        it.summaries["bins.bins"] = lambda i, pos, kw, node: Sym("bin", "int", True)
        try:
            if kind == "method":
                so = Opaque("self", "obj")
                so.attrs.update(dict(_keep_tempfiles=keep, disable_infer_genes=False, disable_infer_transcripts=False, subfeature="exon", transcript_key="transcript_id",
                                     gene_key="gene_id", verbose=Sym("verbose", "any", None), merge_strategy="merge", force_merge_fields=[]))
                return it.run(f, {}, self_obj=so)
            return it.run(f, {"data": Sym("text", "str", True), "from_string": True})
        except Unsupported as e:
            ctx.require(False, "%s outside the analysable subset: %s" % (f.qual, e))
    for f, kind in entries:
        for keep in ((False, True, ".sfx") if kind == "method" else (None,)):
            traces = run(f, kind, keep)
            label = "%s%s" % (f.qual.split(".", 1)[1], "" if keep is None else " (_keep_tempfiles=%r)" % (keep,))
            for t in traces:
                if t.result[0] != "return":
                    continue
                ev = t.events
                name_of = lambda e: getattr(e[1], "name", None) if e[0] == "call-opaque" and not isinstance(e[2], str) else None
                makes = [e for e in ev if (name_of(e) or "").startswith("tempfile.")]
                for e in makes:
                    ctx.ob("R1", name_of(e) in TEMP_MAKERS, "intermediate files get a per-call unique name from tempfile (NamedTemporaryFile/mkstemp)", func=f, sig="%s: %s" % (label, name_of(e)))
                    kw = e[3] if len(e) > 3 and isinstance(e[3], dict) else {}
                    ctx.ob("R1", not ({"dir", "prefix"} & set(kw)), "the temp file's directory/prefix is left to tempfile", func=f,
                           sig="%s: temp keywords %s" % (label, sorted(kw)), nontrivial=False)
                opens = [e for e in ev if e[0] == "open" and isinstance(e[2], str) and set(e[2]) & set("wax+")]
                opens += [("open", e[2][0] if e[2] else None, "w") for e in ev if name_of(e) == "os.fdopen"]
                for e in opens:
                    ctx.ob("R1", _derived(e[1]) is not None, "files written during an import are the import's own tempfile-named files", func=f,
                           sig="%s writes %s" % (label, "its temp file" if _derived(e[1]) else getattr(e[1], "name", repr(e[1]))))
                unl = [e for e in ev if name_of(e) in ("os.unlink", "os.remove") and e[2] and _derived(e[2][0])]
                fin = [e for e in ev if name_of(e) in ("weakref.finalize", "atexit.register") and any(_derived(x) for x in e[2])]
                if not makes:
                    continue
                if kind == "method":
                    if not keep:
                        ok = len(unl) >= len(makes)
                        ctx.ob("R2", ok, "the temp file of %s is removed on every normal path to the return (only `_keep_tempfiles` may keep it)" % f.name, func=f,
                               sig="%s: temp file unlinked" % label if ok else "%s: a path returns without unlinking the temp file" % label)
                        if ok and opens:
                            wr = [i for i, e in enumerate(ev) if e[0] == "call-opaque" and e[2] == "write"]
                            ui = [i for i, e in enumerate(ev) if e in unl]
                            ctx.ob("R2", not wr or min(ui) > max(wr), "the file is removed only after it has been written and read back", func=f,
                                   sig="%s: unlink after the last write" % label, nontrivial=False)
                    else:
                        ctx.ob("R2", True, "with _keep_tempfiles the intermediate file may stay", func=f, sig="%s: %d unlink(s)" % (label, len(unl)), nontrivial=False)
                else:
                    ok = bool(fin) or bool(unl)
                    ctx.ob("R2", ok, "a finalizer that removes the temp file of %s is registered on every path to the return" % f.name, func=f,
                           sig="%s: temp file removed by a registered finalizer" % label if ok else "%s: temp file (delete=False) is never removed" % label)
                    for e in fin:
                        fns = [x for x in e[2] if hasattr(x, "func")]
                        okf = False
                        for fv in fns:
                            r = Interp(ctx).run(fv.func, {fv.func.params[0]: Sym("path", "str", True)})
                            okf = okf or any(ev2[0] == "call-opaque" and not isinstance(ev2[2], str) and getattr(ev2[1], "name", None) in ("os.unlink", "os.remove") and ev2[2] and getattr(ev2[2][0], "name", None) == "path"
                                             for t2 in r for ev2 in t2.events)
                        ctx.ob("R2", okf, "the registered finalizer unlinks the path it is given", func=f, sig="%s: finalizer %s" % (label, "unlinks its argument" if okf else "does not unlink"), nontrivial=False)
    # who writes files: every write-open in the import closure is one of the temp-file writes seen above
    seen_opens = set(ctx.extra.get("scenario_write_opens", ()))
    for f, kind in entries:
        for keep in ((False,) if kind == "method" else (None,)):
            for t in run(f, kind, keep):
                for e in t.events:
                    if e[0] == "open" and _derived(e[1]):
                        seen_opens.add(getattr(e[3], "lineno", None))
    for e in eff.transitive(cd.qual):
        if e[1] == "FS" and e[2] == "write-open":
            call = e[4]
            ok = call.lineno in seen_opens
            ctx.ob("R1", ok, "files written during an import are the import's own tempfile-named files", node=call, func=ctx.proj.funcs[e[0]],
                   sig="%s writes %s" % (e[0].split(".")[-1], "its temp file" if ok else norm(call.args[0]) if call.args else "?"))
    # a failed construction after the temp file was written must not leave it behind
    di = entries[0][0]
    it = Interp(ctx)
    from ..absint import RaiseEx

    def boom(i, pos, kw, node):
        raise RaiseEx("ValueError", "cannot parse", node)
    it.summaries["iterators._BaseIterator.__init__"] = boom
    it.summaries["iterators._FileIterator.__init__"] = boom
    try:
        traces = it.run(di, {"data": Sym("text", "str", True), "from_string": True})
    except Unsupported as e:
        traces = []
    for t in traces:
        if t.result[0] == "raise":
            unl = [e for e in t.events if e[0] == "call-opaque" and not isinstance(e[2], str) and getattr(e[1], "name", None) in ("os.unlink", "os.remove")]
            ctx.ob("R2", bool(unl), "when the iterator cannot be built the temp file is removed before the error propagates", func=di,
                   sig="DataIterator(from_string) failing: %d unlink(s)" % len(unl), nontrivial=False)


def r3(ctx, eff):
    cd = require_func(ctx, "create.create_db")
    stores = [e for e in eff.transitive(cd.qual) if e[1] == "GLOBAL"]
    for e in stores:
        ctx.ob("R3", False, "imports share no module-level mutable state", node=e[3], func=ctx.proj.funcs[e[0]],
               sig="%s stores to module-level %s" % (e[0].split(".")[-1], e[2]))
    ctx.ob("R3", not stores, "no store to module-level state in the import call graph (%d functions)" % len(eff.reach(cd.qual)), func=cd,
           sig="import closure: no module-level stores", nontrivial=True)
    # file effects of an import: only temp files, the force unlink and the database connection
    kinds = sorted({(e[2], e[3]) for e in eff.transitive(cd.qual) if e[1] == "FS"})
    allowed = {("create-temp", "tempfile.NamedTemporaryFile"), ("create-temp", "tempfile.mkstemp"), ("write-open", "open"), ("unlink", "os.unlink"), ("unlink", "os.remove")}
    extra = [k for k in kinds if k not in allowed]
    ctx.ob("R3", not extra, "an import's file effects are its temp files, the force unlink and the database itself", func=cd,
           sig="import file effects %s" % (extra or "within footprint"))
    ctx.require(len(eff.reach(cd.qual)) >= 15, "import call graph collapsed (%d functions)" % len(eff.reach(cd.qual)))


def check(ctx):
    ctx.explanation = (
        "The routines that create temp files are evaluated abstractly with symbolic flags, zero-iteration forks and _keep_tempfiles "
        "False/True/str: naming, what is opened for writing, and removal (unlink after the last write on every returning path, or a "
        "finalizer that unlinks its argument, also when construction fails); effect analysis over the call graph of create_db: every "
        "write-open is one of those writes, no module-level store, no foreign file effect. Concurrent readers: see C19.R3. Does not decide "
        "identical results under every schedule: separate processes share no in-process state, and OS/SQLite locking is outside the source.")
    eff = Effects(ctx)
    r_scenario(ctx)
    r1_r2(ctx, eff)
    r3(ctx, eff)


def r_scenario(ctx):
    """Both importers' create() evaluated on the model database with an in-memory file system and a temp-file service that
    hands out a fresh name per request: which files are written, how they are named, and what is left when create() returns."""
    from . import scen
    n = 0
    no_sub = [scen.feature("Z1", "CDS", 10, 20, {"gene_id": ["g"], "transcript_id": ["t"]}), scen.feature("Z2", "CDS", 30, 40, {"gene_id": ["g"], "transcript_id": ["t"]})]
    cases = []
    for cls, lines in (("_GFFDBCreator", scen.gff_lines()), ("_GTFDBCreator", scen.gtf_lines())):
        for keep in (False, True, ".sfx"):
            cases.append((cls, lines, keep, False, ""))
        for verbose in (True, "debug"):
            cases.append((cls, lines, False, verbose, ", verbose=%r" % (verbose,)))
    cases.append(("_GTFDBCreator", no_sub, False, False, ", nothing to infer"))
    cases.append(("_GFFDBCreator", [scen.feature("L1", "gene", 1, 10, {"ID": ["only"]})], False, False, ", no relations at all"))
    for cls, lines, keep, verbose, extra_label in cases:
        f = require_func(ctx, "create.%s._update_relations" % cls)
        if True:
            im, t = scen.run_create(ctx, cls, lines, _keep_tempfiles=keep, verbose=verbose)
            label = "%s (_keep_tempfiles=%r%s)" % (cls, keep, extra_label)
            if not scen.returned(ctx, t, "create() of %s" % label, func=f, rule="R2"):
                continue
            n += 1
            it = im.it
            written = [p for p, m in it.opened if set(m) & set("wax+")]
            ctx.extra.setdefault("scenario_write_opens", set()).update(ln for p, m, ln in it.open_sites if set(m) & set("wax+") and p in it.tempnames)
            foreign = [p for p in written if p not in it.tempnames]
            ctx.ob("R1", not foreign, "every file written during an import is one of its own temp files, named per request by tempfile (NamedTemporaryFile / mkstemp): "
                   "concurrent imports in one temp directory cannot meet on a name", func=f,
                   sig="%s: writes only tempfile-named files" % label if not foreign else "%s: writes %s, a name not handed out by tempfile" % (label, foreign[:2]))
            ctx.ob("R1", len(set(it.tempnames)) == len(it.tempnames) and len(it.tempnames) >= 1, "the import asks tempfile for a fresh name for each intermediate file", func=f,
                   sig="%s: %d temp name(s) requested" % (label, len(it.tempnames)), nontrivial=False)
            odd = [sorted(k for k in r if k in ("dir", "prefix")) for r in it.temp_requests if {"dir", "prefix"} & set(r)]
            ctx.ob("R1", not odd, "the temp file's directory and prefix are left to tempfile (the shared temporary directory)", func=f,
                   sig="%s: temp keywords plain" % label if not odd else "%s: tempfile called with %s" % (label, odd[0]), nontrivial=False)
            left = sorted(p for p in it.vfs if p in it.tempnames or p in written)
            if not keep:
                ctx.ob("R2", not left, "when create() returns, no intermediate file of the import is left (only `_keep_tempfiles` may keep one)", func=f,
                       sig="%s: temp directory clean" % label if not left else "%s: left behind %s" % (label, left[:2]))
            else:
                ctx.ob("R2", True, "with _keep_tempfiles the intermediate file may stay", func=f, sig="%s: %d file(s) kept" % (label, len(left)), nontrivial=False)
            # the file is removed only after it has been read back: the tables already hold what it carried
            if cls == "_GFFDBCreator" and len(lines) > 3:
                lvl2 = [r for r in im.table("relations") if r[2] == 2]
                ctx.ob("R2", len(lvl2) >= 4, "the intermediate file is read back before it is removed (its second-level relations are in the table)", func=f,
                       sig="%s: %d second-level relations stored" % (label, len(lvl2)), nontrivial=False)
    ctx.floor("R2", n, 6, "import scenarios with temp files")
