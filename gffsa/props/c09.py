"""C09 -- dialect inference."""
import ast
import re

from ..callgraph import Effects
from ..cfg import cfg_of
from ..model import norm, parents, enclosing
from ..util import require_func, calls_in, call_attr, is_name, const_str, kwarg, guards_of
from .c07 import inference_region


def r1(ctx):
    f = require_func(ctx, "helpers._choose_dialect")
    feats = f.params[0]
    w = [n for n in ast.walk(f.node) if isinstance(n, ast.Assign) and is_name(n.targets[0], "weight")]
    ok = len(w) == 1 and norm(w[0].value) == "len(feature.attributes)"
    ctx.ob("R1", ok, "a line's vote is weighted by its number of attributes", func=f, sig="weight := %s" % (norm(w[0].value) if w else None))
    acc = [n for n in ast.walk(f.node) if isinstance(n, ast.Assign) and norm(n.targets[0]) == "count[k][v]"]
    ok = len(acc) == 1 and norm(acc[0].value) in ("val + weight", "weight + val")
    init = [n for n in ast.walk(f.node) if isinstance(n, ast.Assign) and is_name(n.targets[0], "val")]
    ok = ok and len(init) == 1 and norm(init[0].value) == "count[k].get(v, 0)"
    ctx.ob("R1", ok, "weights accumulate per (dialect key, value)", func=f, sig="count[k][v] := %s (val := %s)" % (norm(acc[0].value) if acc else None, norm(init[0].value) if init else None))
    lp = enclosing(acc[0], ast.For) if acc else None
    ok = lp is not None and norm(lp.iter) == "feature.dialect.items()"
    outer = enclosing(lp, ast.For) if lp is not None else None
    ok = ok and outer is not None and is_name(outer.iter, feats)
    ctx.ob("R1", ok, "every inspected feature votes on every key of its own per-line dialect", func=f, sig="votes over %s of %s" % (norm(lp.iter) if lp is not None else None, norm(outer.iter) if outer is not None else None))
    # the winner
    srt = [c for c in calls_in(f.node) if is_name(c.func, "sorted") or is_name(c.func, "max")]
    ok = False
    shown = None
    for c in srt:
        shown = norm(c)
        key = kwarg(c, "key")
        keyok = isinstance(key, ast.Lambda) and norm(key.body) in ("x[1]",) or (key is not None and norm(key) in ("operator.itemgetter(1)", "itemgetter(1)"))
        if is_name(c.func, "sorted"):
            rev = kwarg(c, "reverse")
            if keyok and isinstance(rev, ast.Constant) and rev.value is True and c.args and norm(c.args[0]) == "v.items()":
                st = None
                for p in parents(c):
                    if isinstance(p, ast.Assign):
                        st = p
                nm = st.targets[0].id if st is not None and isinstance(st.targets[0], ast.Name) else None
                pick = [n for n in ast.walk(f.node) if isinstance(n, ast.Assign) and norm(n.targets[0]) == "final_dialect[k]"]
                ok = bool(pick) and norm(pick[0].value) == "%s[0][0]" % nm
                shown += " -> " + (norm(pick[0].value) if pick else "?")
        else:
            if keyok and c.args and norm(c.args[0]) == "v.items()":
                pick = [n for n in ast.walk(f.node) if isinstance(n, ast.Assign) and norm(n.targets[0]) == "final_dialect[k]"]
                ok = bool(pick) and norm(pick[0].value).endswith("[0]")
    ctx.ob("R1", ok, "the value with the largest total weight wins; a stable descending sort (or max) with no secondary key keeps the value seen first on ties",
           func=f, sig="winner: %s" % shown)
    cnt = [n for n in ast.walk(f.node) if isinstance(n, ast.Assign) and is_name(n.targets[0], "count")]
    ok = bool(cnt) and isinstance(cnt[0].value, ast.DictComp) and norm(cnt[0].value.value) == "{}" and "constants.dialect" in norm(cnt[0].value.generators[0].iter)
    ctx.ob("R1", ok, "tallies are insertion-ordered dicts (first-seen order is what breaks ties)", func=f, sig="count := %s" % (norm(cnt[0].value) if cnt else None), nontrivial=False)
    # order
    ordl = [n for n in ast.walk(f.node) if isinstance(n, ast.Assign) and norm(n.targets[0]) == "final_dialect['order']"]
    app = [c for c in calls_in(f.node) if call_attr(c) == "append" and ordl and norm(c.func.value) == norm(ordl[0].value)]
    ok = len(app) == 1 and any(norm(t).endswith("not in %s" % norm(ordl[0].value)) and pol for t, pol in guards_of(app[0], f.node))
    lp = enclosing(app[0], ast.For) if app else None
    ok = ok and lp is not None and norm(lp.iter) == "feature.attributes.keys()" and enclosing(lp, ast.For) is not None and is_name(enclosing(lp, ast.For).iter, feats)
    ctx.ob("R1", ok, "the key order is rebuilt by appending each attribute key when first seen, feature by feature", func=f,
           sig="order rebuilt by first-seen append" if ok else "order not rebuilt by first-seen append")
    if ordl and ok:
        cfg = cfg_of(f)
        pick = [n for n in ast.walk(f.node) if isinstance(n, ast.Assign) and norm(n.targets[0]) == "final_dialect[k]"]
        ok2 = bool(pick) and cfg.node_for(ordl[0]).id in cfg.reachable(cfg.node_for(pick[0]).id)
        ctx.ob("R1", ok2, "the rebuilt order replaces the voted one", func=f, sig="order assigned after the vote" if ok2 else "voted order overrides the rebuilt one", nontrivial=False)
    emp = [n for n in ast.walk(f.node) if isinstance(n, ast.If) and norm(n.test) in ("len(%s) == 0" % feats, "not %s" % feats)]
    ok = bool(emp) and any(isinstance(b, ast.Return) and norm(b.value) == "constants.dialect" for b in emp[0].body)
    ctx.ob("R1", ok, "with nothing to inspect the default dialect is used", func=f, sig="empty peek -> constants.dialect" if ok else "empty peek not handled", nontrivial=False)


def r2_r3(ctx):
    it = require_func(ctx, "iterators._BaseIterator.__iter__")
    cfg = cfg_of(it)
    loops = [n for n in ast.walk(it.node) if isinstance(n, ast.For)]
    item = loops[0].target.id
    asg = [n for n in ast.walk(it.node) if isinstance(n, ast.Assign) and norm(n.targets[0]) == "%s.dialect" % item and norm(n.value) == "self.dialect"]
    ys = [n for n in ast.walk(it.node) if isinstance(n, ast.Yield)]
    ctx.floor("R2", len(ys), 1, "yields in __iter__")
    for y in ys:
        ok = bool(asg) and cfg.dominates(cfg.node_for(asg[0]).id, cfg.node_for(y).id)
        ctx.ob("R2", ok, "every feature handed out carries the iterator's (chosen) dialect", node=y, func=it,
               sig="dialect assignment dominates the yield" if ok else "a feature is yielded without the iterator's dialect")
    # the assignment is before the transform, so the transform sees the file dialect too
    tc = [c for c in calls_in(it.node) if norm(c.func) == "self.transform"]
    if tc and asg:
        ok = cfg.dominates(cfg.node_for(asg[0]).id, cfg.node_for(tc[0]).id)
        ctx.ob("R2", ok, "the dialect is attached before the transform runs", func=it, sig="dialect before transform" if ok else "transform before dialect", nontrivial=False)
    init = require_func(ctx, "iterators._BaseIterator.__init__")
    icfg = cfg_of(init)
    peeks = [c for c in calls_in(init.node) if call_attr(c) == "peek"]
    ctx.floor("R3", len(peeks), 1, "peek calls in the iterator constructor")
    for c in peeks:
        g = [(norm(t), pol) for t, pol in guards_of(c, init.node)]
        ok = ("dialect is not None", False) in g and ("force_dialect_check", False) in g
        ctx.ob("R3", ok, "the input is peeked only when no dialect is supplied (and not under force_dialect_check)", node=c, func=init, sig="peek guards %s" % g)
    given = [n for n in ast.walk(init.node) if isinstance(n, ast.Assign) and norm(n.targets[0]) == "self.dialect" and norm(n.value) == "dialect"]
    g = [(norm(t), pol) for t, pol in guards_of(given[0], init.node)] if given else None
    ok = bool(given) and ("dialect is not None", True) in g
    ctx.ob("R3", ok, "a supplied dialect is used verbatim", func=init, sig="self.dialect := dialect under %s" % g)
    ch = [n for n in ast.walk(init.node) if isinstance(n, ast.Assign) and norm(n.targets[0]) == "self.dialect" and "_choose_dialect" in norm(n.value)]
    ok = len(ch) == 1 and peeks and norm(ch[0].value) == "helpers._choose_dialect(_peek)"
    ctx.ob("R3", ok, "otherwise the dialect is the vote over the peeked features", func=init, sig="self.dialect := %s" % (norm(ch[0].value) if ch else None))
    pk = [n for n in ast.walk(init.node) if isinstance(n, ast.Assign) and is_name(n.targets[0], "_peek")]
    ok = bool(pk) and norm(pk[0].value) == "self.peek(checklines)"
    ctx.ob("R3", ok, "the peek window is `checklines` items", func=init, sig="_peek := %s" % (norm(pk[0].value) if pk else None), nontrivial=False)
    cd = require_func(ctx, "create.create_db")
    rep = [n for n in ast.walk(cd.node) if isinstance(n, ast.Assign) and is_name(n.targets[0], "dialect") and norm(n.value) == "iterator.dialect"]
    g = [(norm(t), pol) for t, pol in guards_of(rep[0], cd.node)] if rep else None
    ok = bool(rep) and g == [("dialect is None", True)]
    ctx.ob("R3", ok, "create_db takes the iterator's dialect only when none was supplied", func=cd, sig="create_db dialect := iterator.dialect under %s" % g)
    kw = [n for n in ast.walk(cd.node) if isinstance(n, ast.Assign) and norm(n.targets[0]) == "kwargs['dialect']"]
    ok = bool(kw) and norm(kw[0].value) == "dialect"
    ctx.ob("R3", ok, "...and hands that dialect to the importer", func=cd, sig="kwargs['dialect'] := %s" % (norm(kw[0].value) if kw else None), nontrivial=False)
    fi = require_func(ctx, "iterators._FileIterator._custom_iter")
    fl = [c for c in calls_in(fi.node) if is_name(c.func, "feature_from_line")]
    ok = bool(fl) and norm(kwarg(fl[0], "dialect") or ast.Constant(value=None)) == "self.dialect"
    ctx.ob("R3", ok, "lines are parsed with the iterator's dialect (None while peeking, so each line is inferred)", func=fi,
           sig="feature_from_line(dialect=%s)" % (norm(kwarg(fl[0], "dialect")) if fl and kwarg(fl[0], "dialect") is not None else None))


def r5(ctx):
    eff = Effects(ctx)
    target = "parser._split_keyvals"
    callers = sorted(q for q, cs in eff.callees.items() if any(g.qual == target for g, _ in cs))
    want = ["feature.Feature.__init__", "feature.feature_from_line", "helpers.infer_dialect"]
    ctx.ob("R5", callers == want, "one inference function sits behind DataIterator, FeatureDB and helpers.infer_dialect", func=ctx.proj.func(target),
           sig="callers of _split_keyvals: %s" % [c.split(".", 1)[1] for c in callers])
    for q in want:
        if q in ctx.proj.funcs:
            ctx.touch(ctx.proj.funcs[q])
    idf = require_func(ctx, "helpers.infer_dialect")
    r = [n for n in ast.walk(idf.node) if isinstance(n, ast.Return)]
    un = [n for n in ast.walk(idf.node) if isinstance(n, ast.Assign) and isinstance(n.targets[0], ast.Tuple)]
    ok = len(r) == 1 and un and len(un[0].targets[0].elts) == 2 and is_name(r[0].value, un[0].targets[0].elts[1].id) and \
        isinstance(un[0].value, ast.Call) and not un[0].value.keywords and len(un[0].value.args) == 1
    ctx.ob("R5", ok, "helpers.infer_dialect returns the dialect half of the parser's result, inferring (no dialect passed)", func=idf,
           sig="infer_dialect returns %s of %s" % (norm(r[0].value) if r else None, norm(un[0].value) if un else None))
    infer_writers = []
    for f in ctx.proj.funcs.values():
        if f.qual.startswith(target) or f.module.name in ("parser",):
            continue
        for n in ast.walk(f.node):
            if isinstance(n, ast.Assign) and isinstance(n.targets[0], ast.Subscript) and norm(n.targets[0].value) == "dialect" and \
                    const_str(n.targets[0].slice) in ("fmt", "field separator", "keyval separator", "quoted GFF2 values", "trailing semicolon", "repeated keys"):
                infer_writers.append(f.qual)
    ctx.ob("R5", not infer_writers, "nothing outside the parser sets dialect entries", func=ctx.proj.func(target),
           sig="dialect entries written elsewhere: %s" % sorted(set(infer_writers)))


def regex_shape(pat):
    """Describe a pattern through re._parser: [(op, arg)...] flattened."""
    import re._parser as sp
    p = sp.parse(pat)
    out = []
    for op, av in p:
        name = str(op)
        if name == "MAX_REPEAT":
            lo, hi, sub = av
            inner = [(str(o), a) for o, a in sub]
            out.append(("repeat", lo, "inf" if hi == sp.MAXREPEAT else hi, str(inner)))
        elif name == "LITERAL":
            out.append(("lit", chr(av)))
        else:
            out.append((name, str(av)))
    return out


def r6(ctx):
    sk = require_func(ctx, "parser._split_keyvals")
    inf, _prov = inference_region(sk)
    pat = None
    pm = ctx.proj.module("parser")
    for n in pm.tree.body:
        if isinstance(n, ast.Assign) and isinstance(n.value, ast.Call) and norm(n.value.func) == "re.compile" and n.value.args:
            if is_name(n.targets[0], "gff3_kw_pat"):
                pat = const_str(n.value.args[0])
    ctx.require(pat is not None, "anchor vanished: parser.gff3_kw_pat")
    shape = regex_shape(pat)
    ok = len(shape) == 2 and shape[0][0] == "repeat" and shape[0][1] == 1 and shape[0][2] == "inf" and "CATEGORY_WORD" in shape[0][3] and shape[1] == ("lit", "=")
    ctx.ob("R6", ok, "the gff3 test is 'one or more word characters followed by ='", node=pm.toplevel.get("gff3_kw_pat"), sig="gff3 key pattern %r -> %s" % (pat, shape))
    tests = [n for st in inf for n in ast.walk(st) if isinstance(n, ast.If) and "gff3_kw_pat" in norm(n.test)]
    ctx.floor("R6", len(tests), 1, "format tests on the key pattern")
    t = tests[0]
    ok = isinstance(t.test, ast.Call) and call_attr(t.test) == "match" and norm(t.test.args[0]) == "parts[0]"
    ctx.ob("R6", ok, "the pattern is matched at the start of the first field", node=t, func=sk, sig="format test %s" % norm(t.test))

    def sets(body):
        out = {}
        for st in body:
            for n in ast.walk(st):
                if isinstance(n, ast.Assign) and isinstance(n.targets[0], ast.Subscript) and norm(n.targets[0].value) == "dialect" and const_str(n.targets[0].slice):
                    out[const_str(n.targets[0].slice)] = ctx.folder.try_fold(n.value, "parser", default=norm(n.value))
        return out
    a, b = sets(t.body), sets(t.orelse)
    ok = a.get("fmt") == "gff3" and a.get("keyval separator") == "=" and "fmt" not in b and b.get("keyval separator") == " "
    ctx.ob("R6", ok, "fmt becomes gff3 (and the separator '=') exactly on the matching branch; otherwise the separator is a blank", node=t, func=sk,
           sig="match -> %s ; no match -> %s" % (sorted(a.items()), sorted((k, v) for k, v in b.items() if k != "leading semicolon")))
    gtf = [n for st in inf for n in ast.walk(st) if isinstance(n, ast.Assign) and norm(n.targets[0]) == "dialect['fmt']" and const_str(n.value) == "gtf"]
    ctx.floor("R6", len(gtf), 1, "assignments of fmt = gtf")
    for n in gtf:
        g = [(norm(tt), pol) for tt, pol in guards_of(n, sk.node)]
        ok = len(g) == 1 and g[0][1] and set(g[0][0].replace("(", "").replace(")", "").split(" and ")) == {"dialect['keyval separator'] == ' '", "dialect['quoted GFF2 values']"}
        ctx.ob("R6", ok, "fmt becomes gtf exactly when the separator is a blank and values are quoted", node=n, func=sk, sig="fmt=gtf under %s" % g)
    allfmt = [n for st in inf for n in ast.walk(st) if isinstance(n, ast.Assign) and norm(n.targets[0]) == "dialect['fmt']"]
    ctx.ob("R6", len(allfmt) == 2, "fmt is decided at exactly these two places", func=sk, sig="%d assignments of fmt on the inference path" % len(allfmt), nontrivial=False)
    ts = [n for st in inf for n in ast.walk(st) if isinstance(n, ast.Assign) and norm(n.targets[0]) == "dialect['trailing semicolon']"]
    ok = len(ts) == 1 and [(norm(tt), pol) for tt, pol in guards_of(ts[0], sk.node)] == [("keyval_str[-1] == ';'", True)] and norm(ts[0].value) == "True"
    ctx.ob("R6", ok, "'trailing semicolon' is recorded exactly when the last character is ';'", func=sk, sig="trailing semicolon under %s" % ([(norm(tt), pol) for tt, pol in guards_of(ts[0], sk.node)] if ts else None))
    rk = [n for st in inf for n in ast.walk(st) if isinstance(n, ast.Assign) and norm(n.targets[0]) == "dialect['repeated keys']"]
    ok = len(rk) == 1 and [(norm(tt), pol) for tt, pol in guards_of(rk[0], sk.node)] == [("key in quals", True)] and norm(rk[0].value) == "True"
    ctx.ob("R6", ok, "'repeated keys' is recorded exactly when a key is seen again", func=sk, sig="repeated keys under %s" % ([(norm(tt), pol) for tt, pol in guards_of(rk[0], sk.node)] if rk else None))
    qv = [n for st in inf for n in ast.walk(st) if isinstance(n, ast.Assign) and norm(n.targets[0]) == "dialect['quoted GFF2 values']"]
    g = [(norm(tt), pol) for tt, pol in guards_of(qv[0], sk.node)] if qv else None
    ok = len(qv) == 1 and g is not None and len(g) == 1 and g[0][1] and "val[0] == '\"'" in g[0][0] and "val[-1] == '\"'" in g[0][0]
    ctx.ob("R6", ok, "quoting is recorded exactly when a value is wrapped in double quotes", func=sk, sig="quoted values under %s" % g)
    od = [c for st in inf for c in ast.walk(st) if isinstance(c, ast.Call) and call_attr(c) == "append" and norm(c.func.value) == "dialect['order']"]
    ok = len(od) == 1 and norm(od[0].args[0]) == "key" and not [x for x in guards_of(od[0], enclosing(od[0], ast.For))]
    reset = [n for st in inf for n in ast.walk(st) if isinstance(n, ast.Assign) and norm(n.targets[0]) == "dialect['order']" and norm(n.value) == "[]"]
    ctx.ob("R6", ok and bool(reset), "the per-line key order is the order of appearance (reset, then appended unconditionally)", func=sk,
           sig="order: reset=%s append=%s" % (bool(reset), norm(od[0]) if od else None))
    cp = [n for n in ast.walk(sk.node) if isinstance(n, ast.Assign) and is_name(n.targets[0], "dialect") and "constants.dialect" in norm(n.value)]
    ok = bool(cp) and norm(cp[0].value) in ("copy.copy(constants.dialect)", "copy.deepcopy(constants.dialect)", "dict(constants.dialect)")
    ctx.ob("R6", ok, "inference starts from a copy of the default dialect (never mutates the shared default)", func=sk, sig="inference base %s" % (norm(cp[0].value) if cp else None))


def check(ctx):
    ctx.explanation = (
        "Def-use facts of the vote (_choose_dialect: weight, accumulation, stable descending sort without secondary key, first-seen key "
        "order); dominance of the dialect assignment over every yield of the common iteration path; the peek is control-dependent on 'no "
        "dialect supplied'; call-graph rule: exactly three callers reach the one inference function; the inference path's decisions are "
        "read off as (guard, recorded value) pairs, the gff3 key pattern through re._parser. Format routing is decided with C03.R5. Does "
        "not decide that the full dictionary is recovered for every consistent input (string semantics).")
    r1(ctx)
    r2_r3(ctx)
    r5(ctx)
    r6(ctx)
    from .c03 import r5_format_routing
    r5_format_routing(ctx, rule="R4")
