"""C09 -- dialect inference."""
import ast
import re

from ..callgraph import Effects
from ..cfg import cfg_of
from ..model import norm, parents, enclosing
from ..util import require_func, calls_in, call_attr, is_name, const_str, kwarg, guards_of
from .c07 import inference_region


def r1(ctx):
    """The vote, decided by abstract evaluation of _choose_dialect on small symbolic peeks."""
    from ..absint import Interp, Opaque, Unsupported
    f = require_func(ctx, "helpers._choose_dialect")
    base = ctx.folder.const("constants", "dialect")
    feats_p = f.params[0]

    def feat(name, attrs, **d):
        F = Opaque(name, "Feature")
        dd = dict(base)
        dd.update(d)
        F.attrs["dialect"] = dd
        F.attrs["attributes"] = attrs
        return F

    def run(feats):
        try:
            traces = Interp(ctx).run(f, {feats_p: feats})
        except Unsupported as e:
            ctx.require(False, "_choose_dialect outside the analysable subset: %s" % e)
        outs = []
        for t in traces:
            outs.append(t.result[1] if t.result[0] == "return" else ("raise", t.result[1]))
        return outs
    one = lambda outs, k: sorted({repr(o.get(k)) if isinstance(o, dict) else repr(o) for o in outs})
    # weight = number of attributes
    outs = run([feat("A", {"ID": [1]}, fmt="gff3"), feat("B", {"a": [1], "b": [2], "c": [3]}, fmt="gtf"), feat("C", {"Name": [1]}, fmt="gff3")])
    ctx.ob("R1", one(outs, "fmt") == ["'gtf'"], "a line's vote is weighted by its number of attributes (one line with three attributes outvotes two lines with one)", func=f,
           sig="votes gff3:1, gtf:3, gff3:1 -> fmt %s" % one(outs, "fmt"))
    outs = run([feat("A", {"ID": [1]}, fmt="gff3"), feat("B", {"a": [1]}, fmt="gtf"), feat("C", {"Name": [1]}, fmt="gff3")])
    ctx.ob("R1", one(outs, "fmt") == ["'gff3'"], "weights accumulate per (dialect key, value)", func=f, sig="votes gff3:1, gtf:1, gff3:1 -> fmt %s" % one(outs, "fmt"))
    # every key is voted on independently
    outs = run([feat("A", {"ID": [1], "x": [2]}, fmt="gff3", **{"field separator": "; "}), feat("B", {"a": [1]}, fmt="gff3", **{"field separator": ";"})])
    ctx.ob("R1", one(outs, "field separator") == ["'; '"] and one(outs, "fmt") == ["'gff3'"], "every inspected feature votes on every key of its own per-line dialect", func=f,
           sig="field separator votes '; ':2, ';':1 -> %s" % one(outs, "field separator"))
    # ties: first seen wins, both ways round
    a = run([feat("A", {"ID": [1], "x": [2]}, fmt="gff3"), feat("B", {"a": [1], "b": [2]}, fmt="gtf")])
    b = run([feat("B", {"a": [1], "b": [2]}, fmt="gtf"), feat("A", {"ID": [1], "x": [2]}, fmt="gff3")])
    ctx.ob("R1", one(a, "fmt") == ["'gff3'"] and one(b, "fmt") == ["'gtf'"],
           "the value with the largest total weight wins; on a tie the value seen first is kept", func=f,
           sig="tie gff3/gtf -> %s ; tie gtf/gff3 -> %s" % (one(a, "fmt"), one(b, "fmt")))
    c = run([feat("A", {"ID": [1]}, fmt="gff3"), feat("B", {"a": [1], "b": [2]}, fmt="gtf"), feat("C", {"x": [1]}, fmt="gff3")])
    ctx.ob("R1", one(c, "fmt") == ["'gff3'"], "a tie is decided on the totals: the value seen first wins even if another value led in between", func=f,
           sig="votes gff3:1, gtf:2, gff3:1 -> fmt %s" % one(c, "fmt"))
    # order
    outs = run([feat("A", {"ID": [1], "Name": [2]}, fmt="gff3", order=["zz"]), feat("B", {"Parent": [1], "ID": [2]}, fmt="gff3", order=["zz"])])
    ctx.ob("R1", one(outs, "order") == [repr(["ID", "Name", "Parent"])], "the key order is rebuilt by appending each attribute key when first seen, feature by feature "
           "(it replaces the voted per-line order)", func=f, sig="order of {ID,Name},{Parent,ID} -> %s" % one(outs, "order"))
    outs = run([])
    ok = len(outs) == 1 and isinstance(outs[0], dict) and outs[0] == base
    ctx.ob("R1", ok, "with nothing to inspect the default dialect is used", func=f, sig="empty peek -> constants.dialect" if ok else "empty peek -> %s" % (outs,), nontrivial=False)
    outs = run([feat("A", {"ID": [1]}, fmt="gff3")])
    ok = len(outs) == 1 and isinstance(outs[0], dict) and set(outs[0]) == set(base)
    ctx.ob("R1", ok, "the chosen dialect has every dialect key", func=f, sig="keys of the result %s" % (sorted(outs[0]) if outs and isinstance(outs[0], dict) else outs), nontrivial=False)


def r2_r3(ctx):
    """The iterator's constructor and its common iteration path, evaluated abstractly; create_db's hand-over."""
    from ..absint import Interp, Sym, Opaque, Callback, Unsupported
    init = require_func(ctx, "iterators._BaseIterator.__init__")
    itf = require_func(ctx, "iterators._BaseIterator.__iter__")
    D = {"fmt": "gtf"}
    pnames = [p for p in init.params if p != "self"]
    ctx.require({"dialect", "force_dialect_check", "checklines"} <= set(pnames), "iterator constructor lost a parameter: %s" % pnames)
    for force in (False, True):
        for dia in (None, D):
            it = Interp(ctx)
            it.summaries["helpers._choose_dialect"] = lambda i, pos, kw, node: (i.trace.events.append(("vote", pos[0], node)), Opaque("VOTED", "dialect"))[1]
            it.summaries["iterators._BaseIterator._custom_iter"] = lambda i, pos, kw, node: Opaque("items", "iter")
            for q_ in ctx.proj.funcs:
                if q_.startswith("iterators.") and q_.endswith(".peek"):
                    # wherever peek is defined: its own behaviour is judged separately (window rule, C13.R2)
                    it.summaries[q_] = lambda i, pos, kw, node: (i.trace.events.append(("call-opaque", None, "peek", list(pos), kw, node)), Opaque("self.peek()", "obj"))[1]
            so = Opaque("self", "obj")
            try:
                traces = it.run(init, {pnames[0]: Sym("data", "any", True), "checklines": Sym("n", "int", True), "force_dialect_check": force, "dialect": dia}, self_obj=so)
            except Unsupported as e:
                ctx.require(False, "iterator constructor outside the analysable subset: %s" % e)
            for t in traces:
                peeks = [e for e in t.events if e[0] == "call-opaque" and e[2] == "peek"]
                votes = [e for e in t.events if e[0] == "vote"]
                sets_ = [e[3] for e in t.events if e[0] == "setattr" and e[2] == "dialect" and getattr(e[1], "name", None) == "self"]
                final = sets_[-1] if sets_ else "unset"
                label = "force_dialect_check=%s dialect=%s" % (force, "given" if dia else None)
                if force and dia:
                    ctx.ob("R3", t.result[0] == "raise", "a supplied dialect together with force_dialect_check is rejected", func=init, sig="%s -> %s" % (label, t.result[0]), nontrivial=False)
                elif force:
                    ctx.ob("R3", not peeks and not votes and final is None, "under force_dialect_check nothing is peeked and the dialect stays None (each line is inferred)", func=init,
                           sig="%s: peeks=%d votes=%d dialect=%r" % (label, len(peeks), len(votes), final), nontrivial=False)
                elif dia:
                    ctx.ob("R3", not peeks and not votes, "the input is peeked only when no dialect is supplied", func=init, sig="%s: peeks=%d votes=%d" % (label, len(peeks), len(votes)))
                    ctx.ob("R3", final is not None and final == D, "a supplied dialect is used verbatim", func=init, sig="%s: self.dialect := %r" % (label, final))
                else:
                    okp = len(peeks) == 1 and [getattr(x, "name", x) for x in peeks[0][3]] == ["n"]
                    ctx.ob("R3", okp, "without a dialect the first `checklines` items are peeked", func=init, sig="%s: peek(%s)" % (label, [getattr(x, "name", x) for x in peeks[0][3]] if peeks else None))
                    okv = len(votes) == 1 and isinstance(votes[0][1], Opaque) and "peek" in votes[0][1].name and isinstance(final, Opaque) and final.name == "VOTED"
                    ctx.ob("R3", okv, "otherwise the dialect is the vote over the peeked features", func=init,
                           sig="%s: self.dialect := %s" % (label, "vote(peek)" if okv else repr(final)))
    # ---- iteration path
    n_y = 0
    for label, tf in (("no transform", None), ("identity transform", "same"), ("transform returning None", "none")):
        it = Interp(ctx)
        X = Opaque("X", "Feature")
        it.summaries["iterators._BaseIterator._custom_iter"] = lambda i, pos, kw, node: [X]
        so = Opaque("self", "obj")
        so.attrs["dialect"] = D
        so.attrs["transform"] = None if tf is None else Callback("transform", X if tf == "same" else None)
        try:
            traces = it.run(itf, {}, self_obj=so)
        except Unsupported as e:
            ctx.require(False, "iterator __iter__ outside the analysable subset: %s" % e)
        for t in traces:
            ys = [e for e in t.events if e[0] == "yield"]
            cbs = [e for e in t.events if e[0] == "callback"]
            n_y += len(ys)
            if tf == "none":
                ctx.ob("R2", not ys, "a feature the transform rejects is not handed out", func=itf, sig="%s: %d yielded" % (label, len(ys)), nontrivial=False)
                continue
            ok = len(ys) == 1 and isinstance(ys[0][1], Opaque) and ys[0][1].attrs.get("dialect") == D
            ctx.ob("R2", ok, "every feature handed out carries the iterator's (chosen) dialect", func=itf,
                   sig="%s: yielded feature dialect %r" % (label, ys[0][1].attrs.get("dialect") if ys and isinstance(ys[0][1], Opaque) else None))
            if tf == "same":
                okc = len(cbs) == 1 and cbs[0][2] and isinstance(cbs[0][2][0], Opaque) and cbs[0][2][0].attrs.get("dialect") == D
                ctx.ob("R2", okc, "the dialect is attached before the transform runs", func=itf, sig="transform sees dialect %r" % (cbs[0][2][0].attrs.get("dialect") if cbs and cbs[0][2] else None),
                       nontrivial=False)
    ctx.floor("R2", n_y, 2, "yields on the common iteration path")
    # ---- create_db: which dialect reaches the importer
    cd = require_func(ctx, "create.create_db")
    ITD = {"fmt": "gff3", "_from": "iterator"}
    for label, given in (("dialect supplied", {"fmt": "gff3", "_from": "caller"}), ("no dialect", None)):
        it = Interp(ctx)

        def s_di(i, pos, kw, node):
            o = Opaque("ITER", "obj")
            o.attrs["dialect"] = ITD
            o.attrs["directives"] = Opaque("directives", "list")
            i.trace.events.append(("dataiterator", kw.get("dialect"), node))
            return o
        it.summaries["iterators.DataIterator"] = s_di
        try:
            traces = it.run(cd, {"data": Sym("data", "str", True), "dbfn": Sym("dbfn", "str", True), "dialect": given})
        except Unsupported as e:
            ctx.require(False, "create_db outside the analysable subset: %s" % e)
        for t in traces:
            cons = [e for e in t.events if e[0] == "construct" and e[1] in ("create._GFFDBCreator", "create._GTFDBCreator")]
            if not cons:
                continue
            got = cons[0][3].get("dialect")
            want = given if given is not None else ITD
            ctx.ob("R3", got == want, "create_db takes the iterator's dialect only when none was supplied, and hands that dialect to the importer", func=cd,
                   sig="%s: importer dialect from %s" % (label, got.get("_from") if isinstance(got, dict) else got))
            di = [e for e in t.events if e[0] == "dataiterator"]
            ctx.ob("R3", bool(di) and di[0][1] == given, "the iterator is built with the caller's dialect (None lets it infer)", func=cd,
                   sig="%s: DataIterator(dialect=%s)" % (label, "caller's" if di and di[0][1] is not None and di[0][1] == given else di[0][1] if di else "?"), nontrivial=False)
    # which dialect the lines of a file are parsed with: one pass of the file iterator over two feature lines, evaluated
    from .c14 import _run_file, FEATURE_LINE
    fi = require_func(ctx, "iterators._FileIterator._custom_iter")
    _ys, _dirs, seen, _stream, _t = _run_file(ctx, [FEATURE_LINE % "a" + "\n", FEATURE_LINE % "b" + "\n"])
    ok = len(seen) == 2 and all(getattr(d, "name", None) == "DIALECT" for _l, d in seen)
    ctx.ob("R3", ok, "lines are parsed with the iterator's dialect (None while peeking, so each line is inferred)", func=fi,
           sig="feature_from_line(dialect=self.dialect)" if ok else "feature_from_line called with another dialect: %s" % [getattr(d, "name", repr(d)) for _l, d in seen])


R5_CORPUS = [
    ("gff3", "ID=g1;Name=G1;Parent=p1,p2"),
    ("gff3, trailing semicolon", "ID=g1;Name=G1;"),
    ("gff3, ' ; ' separators", "ID=g1 ; Name=G1"),
    ("gtf", 'gene_id "g1"; transcript_id "t1";'),
    ("gtf, repeated key", 'gene_id "g1"; tag "a"; tag "b";'),
    ("unquoted gff2", "gene_id g1; transcript_id t1"),
    ("one unquoted pair", "Name x"),
    ("empty", ""),
]


def r5(ctx):
    """Sibling agreement, evaluated: for one attribute text, the parser's own inference, helpers.infer_dialect, the Feature
    built by feature_from_line and a DataIterator over the line report the same dialect dictionary (key order included)."""
    from . import scen
    from ..absint import Unsupported
    sk = require_func(ctx, "parser._split_keyvals")
    idf = require_func(ctx, "helpers.infer_dialect")
    ffl = require_func(ctx, "feature.feature_from_line")
    di = require_func(ctx, "iterators.DataIterator")

    def plain(d):
        if hasattr(d, "attrs") and "_d" in d.attrs:
            d = d.attrs["_d"]
        return [(k, list(v) if isinstance(v, (list, tuple)) else v) for k, v in d.items()] if isinstance(d, dict) else repr(d)[:60]

    def run(f, args, pick, files=None):
        it = scen.text_interp(ctx)
        if files:
            from .. import minidb
            from ..scenario import install
            install(it, minidb.MiniDB(), files=files)
        try:
            traces = it.run(f, args, copy_args=False)
        except Unsupported as e:
            ctx.require(False, "%s outside the analysable subset: %s" % (f.qual, e))
        ctx.require(len(traces) == 1, "%s forks on concrete text (%d paths)" % (f.qual, len(traces)))
        r = traces[0].result
        if r[0] != "return":
            return ("raise", r[1])
        return pick(r[1])

    for label, text in R5_CORPUS:
        line = "chr1\tsrc\tgene\t1\t9\t.\t+\t.\t" + text
        base = run(sk, {sk.params[0]: text}, lambda v: plain(v[1]))
        views = [("helpers.infer_dialect", idf, run(idf, {idf.params[0]: text}, plain)),
                 ("feature_from_line(...).dialect", ffl, run(ffl, {ffl.params[0]: line}, lambda v: plain(v.attrs.get("dialect")) if hasattr(v, "attrs") else repr(v)))]
        if text:
            views.append(("DataIterator(line).dialect", di, run(di, {di.params[0]: "one-line.txt"}, lambda v: plain(v.attrs.get("dialect")) if hasattr(v, "attrs") else repr(v),
                                                                files={"one-line.txt": [line + "\n"]})))
        for name, f, got in views:
            if f is di and isinstance(base, list):
                # the vote records the first-seen order of keys: a repeated key is listed once
                base = [(k, list(dict.fromkeys(v)) if k == "order" else v) for k, v in base]
            ok = got == base and isinstance(base, list)
            ctx.ob("R5", ok, "one inference sits behind DataIterator, Feature and helpers.infer_dialect: they report what the parser infers (%s)" % label, func=f,
                   sig="%s agrees with the parser on %s" % (name, label) if ok else "%s on %r: %s, the parser infers %s" % (name, text, _diff(got, base), _diff(base, got)))


def _diff(a, b):
    if not isinstance(a, list) or not isinstance(b, list):
        return str(a)[:120]
    db = dict((k, v) for k, v in b)
    d = [(k, v) for k, v in a if db.get(k, "<absent>") != v]
    return str(d)[:160] if d else ("key order %s" % [k for k, _ in a])


def r6(ctx):
    """What inference records for a line: decided by the template round trip (c07.r_roundtrip, inferred mode: fmt, both
    separators, quoting, trailing semicolon, repeated keys and key order must be those the template was written in) and by
    a provenance rule: the dictionary the parser writes to is never the shared default itself."""
    from .c07 import r_roundtrip
    r_roundtrip(ctx, rule="R6")
    # the gff3 key test, observed on what inference records: the key/value separator is '=' exactly when the first field
    # starts with one or more word characters followed by '=' (a corpus that separates the neighbouring patterns)
    import re as _re
    import copy as _copy
    from .. import printer
    from ..absint import Unsupported
    from .c07 import regex_patterns
    sk = require_func(ctx, "parser._split_keyvals")
    pat = dict(regex_patterns(ctx, "parser"))
    corpus = ["a=", "=", "a", " a=", "a =", "ab=c", "_=", "1=", "-=", "a-b=", "a==", "gene_id \"x\"", "=x", "a.b=c", "\u00e4=1", "a\t=1", "a=b=c", "ID=x", "Parent =y", "k v"]
    ref = _re.compile(r"\w+=")
    diff = []
    shared = {k: (_copy.deepcopy(v)) for k, v in ctx.folder.const("constants", "dialect").items()}
    before = _copy.deepcopy(shared)
    n = 0
    for text in corpus:
        try:
            traces = printer.parse_run(ctx, sk, text, None, pat, shared_default=shared)
        except Unsupported as e:
            ctx.require(False, "attribute parser outside the analysable subset on %r: %s" % (text, e))
        for t in traces:
            n += 1
            if t.result[0] != "return" or not (isinstance(t.result[1], tuple) and len(t.result[1]) == 2 and isinstance(t.result[1][1], dict)):
                diff.append((text, "no dialect: %s" % (t.result[:2],)))
                continue
            got = t.result[1][1].get("keyval separator") == "="
            if got != (ref.match(text) is not None):
                diff.append((text, "keyval separator %r" % t.result[1][1].get("keyval separator")))
    ctx.floor("R6", n, 15, "inference runs on the key-pattern corpus")
    ctx.ob("R6", not diff, "the gff3 test is 'one or more word characters followed by =' at the start of the first field (observed on the inferred key/value separator)", func=sk,
           sig="inference agrees with \\w+= on the separating corpus" if not diff else "inference differs from \\w+= on %r" % (diff[:3],))
    ctx.ob("R6", shared == before, "inference starts from a copy of the default dialect (never mutates the shared default)", func=sk,
           sig="the parser writes only to its own copy of the dialect" if shared == before else
           "the parser writes into constants.dialect itself: %s" % sorted(k for k in before if shared.get(k) != before[k]))


def r_files(ctx):
    """The dialect of a file, evaluated end to end (DataIterator -> peek -> vote -> create_db -> FeatureDB): it is the one
    the file is written in, it decides the import route, and it follows the file's content -- not its name -- when the same
    path is written again within one process."""
    from . import scen
    f = require_func(ctx, "helpers._choose_dialect")
    gff = "\n".join(["chr1\tsrc\tgene\t100\t900\t.\t+\t.\tID=g1;Name=G1", "chr1\tsrc\tmRNA\t100\t900\t.\t+\t.\tID=t1;Parent=g1",
                      "chr1\tsrc\texon\t100\t200\t.\t+\t.\tID=e1;Parent=t1"]) + "\n"
    gtf = "\n".join(['chr1\tsrc\texon\t100\t200\t.\t+\t.\tgene_id "g1"; transcript_id "t1";', 'chr1\tsrc\texon\t300\t400\t.\t+\t.\tgene_id "g1"; transcript_id "t1";']) + "\n"
    spaced = gff.replace(";", " ; ")
    it = scen.text_interp(ctx)
    for label, text, want in (("GFF3", gff, {"fmt": "gff3", "field separator": ";", "keyval separator": "=", "quoted GFF2 values": False, "trailing semicolon": False}),
                              ("the same path rewritten as GTF", gtf, {"fmt": "gtf", "field separator": "; ", "keyval separator": " ", "quoted GFF2 values": True, "trailing semicolon": True}),
                              ("the same path rewritten with ' ; ' separators", spaced, {"fmt": "gff3", "field separator": " ; ", "keyval separator": "="})):
        it, db, t = scen.create_db_from_text(ctx, text, path="annotation.txt", it=it)
        if not scen.returned(ctx, t, "create_db (%s)" % label, func=f, rule="R4"):
            continue
        fdb = t.result[1]
        d = fdb.attrs.get("dialect") if hasattr(fdb, "attrs") else None
        got = {k: d.get(k) for k in want} if isinstance(d, dict) else d
        ctx.ob("R4", got == want, "the database's dialect is the one the file is written in (%s)" % label, func=f,
               sig="dialect of %s as written" % label if got == want else "%s: FeatureDB.dialect %s, the file is written with %s" % (label, got, want))
        derived = sorted(r[0] for r in db.rows("features", ["id", "source"]) if r[1] == "gffutils_derived")
        route_ok = (derived == ["g1", "t1"]) if want["fmt"] == "gtf" else (derived == [])
        ctx.ob("R4", route_ok, "the format decides the import semantics: GTF infers gene and transcript features, GFF3 does not (%s)" % label, func=f,
               sig="%s imported with %s semantics" % (label, want["fmt"]) if route_ok else "%s: derived features %s" % (label, derived), nontrivial=False)


def r_window(ctx):
    """The inspected window: every peek implementation, evaluated on a source longer than the window, returns the same
    number of items for the same `checklines` (sibling agreement: the vote must not depend on how the data is supplied)."""
    from ..absint import Opaque, StreamVal
    from .c13 import _run
    base = ctx.proj.cls("iterators._BaseIterator")
    impls = []
    for c in ctx.proj.subclasses(base):
        if c is base:
            continue          # the abstract base: its hooks are the subclasses'
        m = ctx.proj.method(c, "peek")
        if m is not None and not all(isinstance(st, (ast.Raise, ast.Expr, ast.Pass)) for st in m.node.body):
            impls.append((c, m))
    ctx.floor("R3", len(impls), 2, "iterator classes with a peek")
    sizes = {}
    for c, m in impls:
        n_param = [p for p in m.params if p != "self"][0]
        for n in (1, 2, 5):
            for label, mk in (("one-shot stream", lambda xs: StreamVal(xs, "data")), ("list", lambda xs: list(xs))):
                xs = [Opaque("x%d" % i, "Feature") for i in range(n + 4)]
                so = Opaque("self", c.name)      # the run-time class: template methods dispatch through it
                # file-based iterators read a path (their pass over the file is the summarised _custom_iter); the others hold the items
                so.attrs["data"] = "annotation.gff" if ctx.proj.method(c, "open_function") is not None else mk(xs)
                fresh = lambda i, pos, kw, node, xs=xs: StreamVal(xs, "file pass")
                traces = _run(ctx, m, {n_param: n}, self_obj=so, summaries={"iterators._FileIterator._custom_iter": fresh, "iterators._BaseIterator._custom_iter": fresh})
                for t in traces:
                    got = t.result[1] if t.result[0] == "return" else None
                    sizes.setdefault(n, {}).setdefault(len(got) if isinstance(got, (list, tuple)) else "not a list", []).append("%s.peek on a %s" % (c.name, label))
    for n, by in sorted(sizes.items()):
        ctx.ob("R3", len(by) == 1, "peek(%d) inspects the same number of items however the data is supplied (%d implementations x stream/list)" % (n, len(impls)),
               func=impls[0][1], sig="peek(%d): window size %s" % (n, sorted(by, key=str)[0]) if len(by) == 1 else
               "peek(%d): window sizes differ: %s" % (n, {k: sorted(set(v))[:2] for k, v in by.items()}))


def check(ctx):
    ctx.explanation = (
        "The vote (_choose_dialect) is evaluated abstractly on small symbolic peeks; the iterator's constructor and its common iteration path "
        "are evaluated for dialect given/None x force_dialect_check and for no/identity/rejecting transforms; create_db's hand-over is read "
        "off the importer's constructor arguments on the abstract trace; the three entry points must reach the one inference function; what "
        "inference records is decided by the template round trip (C07) in inferred mode, the key pattern on a separating corpus, and a "
        "provenance rule that the parser never writes into the shared default. Format routing is decided with C03.R5. Does not decide that "
        "the full dictionary is recovered for every consistent input beyond the templates.")
    r1(ctx)
    r2_r3(ctx)
    r_window(ctx)
    r_files(ctx)
    r5(ctx)
    r6(ctx)
    from .c03 import r5_format_routing
    r5_format_routing(ctx, rule="R4")
