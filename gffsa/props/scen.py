"""Scenario harness shared by the importer / database properties: the importer's own methods evaluated against the model
database (scenario.install) for a small family of features, after which the tables are read."""
import collections

from ..absint import Interp, Opaque, Sym, Unsupported
from ..scenario import install
from ..util import require_func


def feature(name, ftype, start, end, attrs, seqid="chr1", strand="+", source="src", **over):
    """A parsed input line as the importer receives it: a Feature object carrying its fields (its methods are the class's)."""
    F = Opaque(name, "Feature")
    base = dict(id=None, seqid=seqid, source=source, featuretype=ftype, start=start, end=end, score=".", strand=strand, frame=".",
                attributes={k: list(v) for k, v in attrs.items()}, extra=[], bin=None, dialect=None, keep_order=False,
                sort_attribute_values=False, file_order=None)
    base.update(over)
    F.attrs.update(base)
    return F


class Import:
    """One importer object over a fresh (or given) model database."""

    def __init__(self, ctx, cls, db=None, **attrs):
        self.ctx, self.cls = ctx, cls
        self.it = Interp(ctx)
        self.it.MAX_TRACES = 64
        self.conn = install(self.it, db)
        if db is None:
            self.conn.db.script(ctx.folder.const("constants", "SCHEMA"))
        self.db = self.conn.db
        self.me = Opaque("self", cls)
        base = dict(conn=self.conn, merge_strategy="error", id_spec="ID" if cls == "_GFFDBCreator" else {"gene": "gene_id", "transcript": "transcript_id"},
                    force_merge_fields=[], verbose=False, default_encoding="utf-8", _autoincrements=collections.defaultdict(int),
                    _keep_tempfiles=False, disable_infer_genes=False, disable_infer_transcripts=False, transcript_key="transcript_id",
                    gene_key="gene_id", subfeature="exon", directives=[], dialect={"fmt": "gff3" if cls == "_GFFDBCreator" else "gtf"},
                    pragmas={}, dbfn="db.sqlite")
        base.update(attrs)
        self.me.attrs.update(base)
        self.traces = []

    def call(self, method, **args):
        f = self.ctx.proj.method(self.ctx.proj.cls("create." + self.cls), method)
        self.ctx.require(f is not None, "importer %s lost its method %s" % (self.cls, method))
        self.ctx.touch(f)
        try:
            traces = self.it.run(f, args, self_obj=self.me, copy_args=False)
        except Unsupported as e:
            self.ctx.require(False, "%s.%s outside the analysable subset: %s" % (self.cls, method, e))
        self.ctx.require(len(traces) == 1, "%s.%s forks on a concrete scenario (%d paths): %s" % (
            self.cls, method, len(traces), [repr(d[0])[:80] for t in traces[:2] for d in t.decisions[:3]]))
        self.traces.append((method, traces[0]))
        return traces[0]

    def table(self, name, cols=None):
        return self.db.rows(name, cols)


# ------------------------------------------------------------------------------------------------ GFF3 families
def gff_lines(which="family"):
    """Small GFF3 annotation graphs (unique ids): depth 4, a shared child, a dangling Parent, a repeated Parent value, a
    line without ID."""
    if which == "family":
        return [
            feature("L1", "gene", 1, 1000, {"ID": ["g1"], "Name": ["G"]}),
            feature("L2", "mRNA", 1, 500, {"ID": ["t1"], "Parent": ["g1"]}),
            feature("L3", "exon", 1, 100, {"ID": ["e1"], "Parent": ["t1"]}),
            feature("L4", "exon", 200, 300, {"ID": ["e2"], "Parent": ["t1", "t2"]}),
            feature("L5", "mRNA", 1, 900, {"ID": ["t2"], "Parent": ["g1"]}),
            feature("L6", "match_part", 210, 220, {"ID": ["p1"], "Parent": ["e2"]}),
            feature("L7", "exon", 2000, 2100, {"ID": ["o1"], "Parent": ["nowhere"]}),
            feature("L8", "exon", 400, 450, {"ID": ["e3"], "Parent": ["t2", "t2"]}),
            feature("L9", "region", 1, 200000, {"Note": ["no id"]}, strand="."),
        ]
    raise ValueError(which)


def expected_relations(lines, ids):
    """The Parent graph of the lines, two levels deep: {(parent, child, level)}."""
    l1 = set()
    for f, i in zip(lines, ids):
        for p in f.attrs["attributes"].get("Parent", []):
            l1.add((p, i))
    l2 = {(gp, c) for gp, p in l1 for p2, c in l1 if p2 == p}
    return {(a, b, 1) for a, b in l1} | {(a, b, 2) for a, b in l2}


def run_gff(ctx, lines, **attrs):
    im = Import(ctx, "_GFFDBCreator", **attrs)
    im.call("_populate_from_lines", lines=list(lines))
    im.call("_update_relations")
    return im
