"""Scenario harness shared by the importer / database properties: the importer's own methods evaluated against the model
database (scenario.install) for a small family of features, after which the tables are read."""
import collections

from ..absint import Interp, Opaque, Sym, Unsupported
from ..scenario import install
from ..util import require_func


def feature(name, ftype, start, end, attrs, seqid="chr1", strand="+", source="src", **over):
    """A parsed input line as the importer receives it: a Feature object carrying its fields (its methods are the class's)."""
    F = Opaque(name, "Feature")
    base = dict(id=None, seqid=seqid, source=source, featuretype=ftype, start=start, end=end, score=".", strand=strand, frame=".",
                attributes={k: list(v) for k, v in attrs.items()}, extra=[], bin=None, dialect=None, keep_order=False,
                sort_attribute_values=False, file_order=None)
    base.update(over)
    F.attrs.update(base)
    return F


def scenario_interp(ctx):
    """Attribute mappings are plain dicts in the scenarios: Feature builds a dict where it would build an Attributes
    wrapper, and reading a stored row yields the decoded JSON object itself (Attributes' own behaviour is C17's subject)."""
    from ..absint import TypeVal
    from ..scenario import json_loads
    it = Interp(ctx, overrides={("feature", "dict_class"): TypeVal("dict")})
    it.summaries["helpers._unjsonify"] = lambda i, pos, kw, node: json_loads(i, pos[:1], {}, node)
    it.construct_real |= {"feature.Feature", "*"}      # scenario mode: package classes are constructed for real (helper objects of a refactoring)
    it.lazy_generators = True                            # generators interleave with their consumers as in Python
    it.keep_generators = True
    it.MAX_DEPTH = 60                                    # whole pipelines are evaluated: create_db -> ... -> bins
    return it


class Import:
    """One importer object over a fresh (or given) model database, built by the importer's own constructor."""

    def __init__(self, ctx, cls, db=None, lines=(), **attrs):
        self.ctx, self.cls = ctx, cls
        attrs.setdefault("merge_strategy", "error")
        self.it, me, self.conn = make_creator(ctx, cls, db=db, lines=lines, **attrs)
        ctx.require(isinstance(me, Opaque), "%s(...) raises %s on a well-formed scenario" % (cls, me[1:] if isinstance(me, tuple) else me))
        self.me = me
        self.db = self.conn.db
        self.traces = []

    def call(self, method, **args):
        f = self.ctx.proj.method(self.ctx.proj.cls("create." + self.cls), method)
        self.ctx.require(f is not None, "importer %s lost its method %s" % (self.cls, method))
        self.ctx.touch(f)
        self.it.summaries.pop("iterators.DataIterator", None)
        try:
            traces = self.it.run(f, args, self_obj=self.me, copy_args=False)
        except Unsupported as e:
            self.ctx.require(False, "%s.%s outside the analysable subset: %s" % (self.cls, method, e))
        self.ctx.require(len(traces) == 1, "%s.%s forks on a concrete scenario (%d paths): %s" % (
            self.cls, method, len(traces), [repr(d[0])[:80] for t in traces[:2] for d in t.decisions[:3]]))
        self.traces.append((method, traces[0]))
        return traces[0]

    def table(self, name, cols=None):
        return self.db.rows(name, cols)


# ------------------------------------------------------------------------------------------------ GFF3 families
def gff_lines(which="family"):
    """Small GFF3 annotation graphs (unique ids): depth 4, a shared child, a dangling Parent, a repeated Parent value, a
    line without ID."""
    if which == "family":
        return [
            feature("L1", "gene", 1, 1000, {"ID": ["g1"], "Name": ["G"]}),
            feature("L2", "mRNA", 1, 500, {"ID": ["t1"], "Parent": ["g1"]}),
            feature("L3", "exon", 1, 100, {"ID": ["e1"], "Parent": ["t1"]}),
            feature("L4", "exon", 200, 300, {"ID": ["e2"], "Parent": ["t1", "t2"]}),
            feature("L5", "mRNA", 1, 900, {"ID": ["t2"], "Parent": ["g1"]}),
            feature("L6", "match_part", 210, 220, {"ID": ["p1"], "Parent": ["e2"]}),
            feature("L7", "exon", 2000, 2100, {"ID": ["o1"], "Parent": ["nowhere"]}),
            feature("L8", "exon", 400, 450, {"ID": ["e3"], "Parent": ["t2", "t2"]}),
            feature("L9", "region", 1, 200000, {"Note": ["no id"]}, strand="."),
            feature("L10", "exon", 600, 650, {"ID": ["e5"], "Parent": ["t1", "g1"]}),      # names its transcript and that transcript's gene: level 1 and level 2 of g1
        ]
    raise ValueError(which)


def expected_relations(lines, ids):
    """The Parent graph of the lines, two levels deep: {(parent, child, level)}."""
    l1 = set()
    for f, i in zip(lines, ids):
        for p in f.attrs["attributes"].get("Parent", []):
            l1.add((p, i))
    l2 = {(gp, c) for gp, p in l1 for p2, c in l1 if p2 == p}
    return {(a, b, 1) for a, b in l1} | {(a, b, 2) for a, b in l2}


def run_gff(ctx, lines, **attrs):
    im = Import(ctx, "_GFFDBCreator", **attrs)
    im.call("_populate_from_lines", lines=list(lines))
    im.call("_update_relations")
    return im


# ------------------------------------------------------------------------------------------------ whole pipelines
from ..absint import HostIter  # noqa: E402


class IterVal(HostIter):
    """The DataIterator the importer is given: the parsed lines in file order, plus the iterator's dialect / directives."""

    def __init__(self, lines, dialect=None, directives=None):
        HostIter.__init__(self, iter(list(lines)), "DataIterator")
        self.fields = {"dialect": dialect if dialect is not None else {"fmt": "gff3"}, "warnings": [], "directives": directives if directives is not None else [],
                       "data": "file.gff", "current_item": None, "current_item_number": None}

    def __deepcopy__(self, memo):
        return self

    def ai_getattr(self, interp, attr):
        if attr in self.fields:
            return self.fields[attr]
        return NotImplemented

    def ai_setattr(self, interp, attr, v):
        self.fields[attr] = v

    def ai_call(self, interp, attr, pos, kw, node):
        if attr in ("__iter__",):
            return self
        raise Unsupported("iterator method %s" % attr)


def run_create(ctx, cls, lines, directives=None, dialect=None, **attrs):
    """_DBCreator.create() on an empty model database."""
    from .. import minidb
    db = minidb.MiniDB()
    ds = directives if directives is not None else []
    kw = dict(attrs)
    if dialect is not None:
        kw["dialect"] = dialect
    im = Import(ctx, cls, db=db, lines=lines, directives=ds, **kw)
    t = im.call("create")
    return im, t


def feature_db(ctx, db, fmt="gff3", counters=None, it=None, **attrs):
    """A FeatureDB object over the model database `db` (as FeatureDB.__init__ leaves it), and the evaluator to run its methods."""
    from ..absint import TypeVal
    it = it or scenario_interp(ctx)
    it.MAX_TRACES = 64
    conn = install(it, db)
    me = Opaque("self", "FeatureDB")
    cnt = collections.defaultdict(int)
    cnt.update(counters or {})
    base = dict(conn=conn, dbfn="db.sqlite", dialect={"fmt": fmt}, _autoincrements=cnt, keep_order=False, sort_attribute_values=False,
                default_encoding="utf-8", directives=[], version="0.13", pragmas={}, _analyzed_=True)
    base.update(attrs)
    me.attrs.update(base)
    it.construct_real |= {"create._GFFDBCreator", "create._GTFDBCreator", "feature.Feature"}

    def s_dataiterator(i, pos, kw, node):
        data = pos[0] if pos else kw.get("data")
        if isinstance(data, IterVal):
            return data
        if isinstance(data, Opaque) and data.kind == "FeatureDB":
            raise Unsupported("update from another database")
        items = list(data)
        iv = IterVal(items, dialect=kw.get("dialect") or {"fmt": fmt})
        n = kw.get("checklines", 10)
        iv.fields["_peek"] = items[: (n + 1 if isinstance(n, int) else 11)]
        return iv
    it.summaries["iterators.DataIterator"] = s_dataiterator
    return it, me, conn


def call_method(ctx, it, me, qual, **args):
    f = require_func(ctx, qual)
    try:
        traces = it.run(f, args, self_obj=me, copy_args=False)
    except Unsupported as e:
        ctx.require(False, "%s outside the analysable subset: %s" % (qual, e))
    ctx.require(len(traces) == 1, "%s forks on a concrete scenario (%d paths): %s" % (qual, len(traces), [repr(d[0])[:80] for t in traces[:2] for d in t.decisions[:3]]))
    return traces[0]


def returned(ctx, t, what, func=None, rule="R1"):
    """Obligation: the evaluated call returned (a raise on a well-formed scenario is a finding, reported with its exception)."""
    ok = t.result[0] == "return"
    if not ok:
        ctx.ob(rule, False, "%s completes on a well-formed scenario" % what, func=func, sig="%s raises %s: %s" % (what, t.result[1], str(t.result[2])[:80] if len(t.result) > 2 else ""))
    return ok


def expected_row(f, keys):
    """The features row the statement prescribes for a parsed line (attributes / extra as decoded JSON)."""
    from ..binsmodel import spec_bins
    a = f.attrs
    row = {}
    for k in keys:
        if k == "bin":
            row[k] = spec_bins(a["start"], a["end"], "gff", True) if isinstance(a["start"], int) and isinstance(a["end"], int) else None
        else:
            row[k] = a[k]
    return row


def decoded_row(r, keys):
    import json
    out = dict(zip(keys, r))
    for k in ("attributes", "extra"):
        if isinstance(out.get(k), str):
            try:
                out[k] = json.loads(out[k])
            except ValueError:
                out[k] = ("not JSON", out[k])
    return out


# ------------------------------------------------------------------------------------------------ GTF families
def gtf_lines(which="family"):
    g = lambda name, ft, s, e, gene, tx, **kw: feature(name, ft, s, e, {"gene_id": [gene], "transcript_id": [tx]}, **kw)
    if which == "family":
        return [
            g("A1", "exon", 100, 200, "g1", "t1"),
            g("B1", "exon", 5000, 5100, "g2", "t3", seqid="chr2", strand="-"),
            g("A2", "exon", 300, 400, "g1", "t1"),
            g("A3", "CDS", 150, 350, "g1", "t1"),
            g("A4", "exon", 1000, 1100, "g1", "t2"),
            g("A5", "start_codon", 150, 152, "g1", "t1"),
            g("B2", "exon", 4000, 4100, "g2", "t3", seqid="chr2", strand="-"),
            g("A6", "CDS", 2000, 2100, "g1", "t9"),          # a transcript that owns no exon
            g("A7", "exon", 120, 450, "g1", "t1"),            # starts inside the first exon, ends after the later-starting one
            g("B3", "exon", 4050, 6000, "g2", "t3", seqid="chr2", strand="-"),   # the furthest end is not on the last-starting exon
        ]
    if which == "explicit":
        # gene and transcript lines present in the file
        return [
            feature("G", "gene", 90, 1200, {"gene_id": ["g1"], "Name": ["G1"]}),
            feature("T", "transcript", 95, 450, {"gene_id": ["g1"], "transcript_id": ["t1"], "tag": ["basic"]}),
            g("A1", "exon", 100, 200, "g1", "t1"),
            g("A2", "exon", 300, 400, "g1", "t1"),
            g("T2", "transcript", 500, 600, "g1", "t2"),      # a transcript line whose exons are not in the file
        ]
    if which == "shared-id":
        # the id X names a gene (through its exons) and, on a CDS line of gene Y, a transcript that owns no exon
        return [
            g("S1", "exon", 100, 200, "X", "T1"),
            g("S2", "exon", 300, 400, "X", "T1"),
            g("S3", "CDS", 5000, 5100, "Y", "X"),
        ]
    raise ValueError(which)


def expected_gtf(lines, ids, infer_genes=True, infer_transcripts=True, subfeature="exon", tkey="transcript_id", gkey="gene_id"):
    """Reference model of the GTF import: (derived features {id: (type, seqid, start, end, strand)}, relations)."""
    rel = set()
    tx, gn = {}, {}
    given = dict(zip(ids, lines))
    for f, i in zip(lines, ids):
        a = f.attrs["attributes"]
        t = (a.get(tkey) or [None])[0]
        g = (a.get(gkey) or [None])[0]
        if t is not None and t != i:
            rel.add((t, i, 1))
        if g is not None:
            if g != i:
                rel.add((g, i, 2))
            if t is not None:
                rel.add((g, t, 1))
        if f.attrs["featuretype"] == subfeature and t is not None:
            tx.setdefault(t, []).append(f)
            if g is not None:
                gn.setdefault(g, []).append(f)
    derived = {}
    if infer_transcripts:
        for t, ex in tx.items():
            if t not in given:
                derived[t] = ("transcript", ex[0].attrs["seqid"], min(e.attrs["start"] for e in ex), max(e.attrs["end"] for e in ex), ex[0].attrs["strand"])
    if infer_genes:
        for g, ex in gn.items():
            if g not in given:
                derived[g] = ("gene", ex[0].attrs["seqid"], min(e.attrs["start"] for e in ex), max(e.attrs["end"] for e in ex), ex[0].attrs["strand"])
    # a line's own id is never its own parent/child; the relation table is a set
    rel = {r for r in rel if r[0] != r[1]}
    return derived, rel


def open_feature_db(ctx, db, dbfn="db.sqlite", **kw):
    """FeatureDB(dbfn) evaluated on the model database: the object __init__ leaves behind (dialect, directives, counters
    read from the tables), with the evaluator to run its methods."""
    it = scenario_interp(ctx)
    it.MAX_TRACES = 64
    conn = install(it, db, files={dbfn: []})
    it.construct_real |= {"create._GFFDBCreator", "create._GTFDBCreator", "feature.Feature"}
    me = Opaque("self", "FeatureDB")
    me.attrs["__class__"] = __import__("gffsa.absint", fromlist=["TypeVal"]).TypeVal("interface.FeatureDB")
    t = call_method(ctx, it, me, "interface.FeatureDB.__init__", dbfn=dbfn, **kw)

    def s_dataiterator(i, pos, kw_, node):
        data = pos[0] if pos else kw_.get("data")
        if isinstance(data, IterVal):
            return data
        items = list(data)
        iv = IterVal(items, dialect=kw_.get("dialect") or me.attrs.get("dialect"))
        n = kw_.get("checklines", 10)
        iv.fields["_peek"] = items[: (n + 1 if isinstance(n, int) else 11)]
        return iv
    it.summaries["iterators.DataIterator"] = s_dataiterator
    return it, me, conn, t


def make_creator(ctx, cls, db=None, lines=(), it=None, **kwargs):
    """An importer built by its own constructor (evaluated), over the model database: every attribute the constructor sets
    exists, whatever it is called.  Returns (evaluator, importer object, connection)."""
    from ..absint import TypeVal
    it = it or scenario_interp(ctx)
    it.MAX_TRACES = 64
    conn = install(it, db)
    if db is None:
        conn.db.script(ctx.folder.const("constants", "SCHEMA"))
    fmt = "gff3" if cls == "_GFFDBCreator" else "gtf"
    dialect = kwargs.pop("dialect", {"fmt": fmt})
    directives = kwargs.pop("directives", None)
    iv = IterVal(list(lines), dialect=dialect, directives=directives if directives is not None else [])
    it.summaries["iterators.DataIterator"] = lambda i, pos, kw, node: iv
    kwargs.setdefault("id_spec", "ID" if cls == "_GFFDBCreator" else {"gene": "gene_id", "transcript": "transcript_id"})
    kwargs.setdefault("verbose", False)
    args = dict(data=iv, dbfn="db.sqlite", dialect=dialect, **kwargs)
    if directives is not None:
        args["directives"] = directives
    env = {"__module__": "create", "__args__": args}
    import ast as _ast
    call = _ast.parse("create_cls(**__args__)", mode="eval").body
    for n in _ast.walk(call):
        n.lineno = n.col_offset = 0
        n.end_lineno = n.end_col_offset = 0
    env["create_cls"] = TypeVal("create." + cls)
    from ..absint import Trace, RaiseEx
    it.choices, it.ptr, it.pending = [], 0, []
    it.trace = Trace()
    it.depth = 0
    it.overrides = dict(it.overrides)
    try:
        me = it.eval(call, env)
    except Unsupported as e:
        ctx.require(False, "%s(...) outside the analysable subset: %s" % (cls, e))
    except RaiseEx as e:
        return it, ("raise", e.exc, e.msg), conn
    ctx.require(not it.pending, "%s(...) forks on concrete arguments" % cls)
    return it, me, conn


# ------------------------------------------------------------------------------------------------ from text to database
def text_interp(ctx):
    """Scenario evaluator in which every package class is constructed for real: files are read by the package's own
    iterators, lines parsed by its own parser, features built by Feature.__init__."""
    it = scenario_interp(ctx)
    it.construct_real |= {"*", "iterators._FileIterator", "iterators._FeatureIterator", "iterators._UrlIterator", "create._GFFDBCreator", "create._GTFDBCreator",
                          "interface.FeatureDB", "feature.Feature", "iterators.Directive"}
    it.summaries.pop("helpers._unjsonify", None)
    from ..scenario import json_loads
    it.summaries["helpers._unjsonify"] = lambda i, pos, kw, node: json_loads(i, pos[:1], {}, node)
    it.MAX_TRACES = 64
    return it


def create_db_from_text(ctx, text, path="file.gff3", it=None, dbfn="db.sqlite", **kwargs):
    """create.create_db(path, dbfn, **kwargs) evaluated end to end on a file of the in-memory file system holding `text`.
    Returns (evaluator, model database, trace); the trace's result is the FeatureDB object create_db returns."""
    from .. import minidb
    it = it or text_interp(ctx)
    db = minidb.MiniDB()
    files = dict(getattr(it, "vfs", None) or {})
    files[path] = [text]
    conn = install(it, db, files=files)
    it.ext_summaries["sqlite3.connect"] = lambda i, pos, kw, node: (i.trace.events.append(("connect", pos[0] if pos else None, node)), conn)[1]
    f = require_func(ctx, "create.create_db")
    try:
        traces = it.run(f, dict(data=path, dbfn=dbfn, **kwargs), copy_args=False)
    except Unsupported as e:
        ctx.require(False, "create_db(%r) outside the analysable subset: %s" % (path, e))
    ctx.require(len(traces) == 1, "create_db forks on a concrete file (%d paths): %s" % (len(traces), [repr(d[0])[:80] for t in traces[:2] for d in t.decisions[:3]]))
    return it, db, traces[0]


def printed(ctx, it, feature):
    """str(feature), evaluated."""
    f = require_func(ctx, "feature.Feature.__str__") if ctx.proj.maybe_func("feature.Feature.__str__") is not None else require_func(ctx, "feature.Feature.__unicode__")
    try:
        traces = it.run(f, {}, self_obj=feature, copy_args=False)
    except Unsupported as e:
        ctx.require(False, "str(Feature) outside the analysable subset: %s" % e)
    ctx.require(len(traces) == 1, "str(Feature) forks on a concrete feature")
    r = traces[0].result
    if r[0] != "return":
        return ("raise", r[1])
    v = r[1]
    from ..absint import AStr
    if isinstance(v, AStr):
        v = v.simplify()
    return v
