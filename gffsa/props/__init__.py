"""Property modules: one per property id, each exposing check(ctx)."""
import importlib

from .. import AnalysisError

ALL = ["C%02d" % i for i in range(1, 21)]


def load(pid):
    if pid not in ALL:
        raise AnalysisError("unknown property %s" % pid)
    try:
        return importlib.import_module(".%s" % pid.lower(), __name__)
    except ModuleNotFoundError:
        raise AnalysisError("no check implemented for %s" % pid)
