"""C04 -- primary keys follow id_spec, are unique, look-ups are exact."""
import ast

from .. import sql as S
from ..cfg import cfg_of
from ..model import norm, parents, enclosing
from ..util import require_func, execute_sites, calls_in, call_attr, is_name, const_str, kwarg


def r1_r2_r3(ctx):
    """The id derivation as a decision table: _id_handler (with _increment_featuretype_autoid inlined) is evaluated by the
    partitioned dataflow for every documented form of id_spec against symbolic features; the abstract result of each
    configuration is compared with the one the property prescribes."""
    import collections
    from ..absint import Interp, Sym, Opaque, Callback, AStr, Unsupported
    f = require_func(ctx, "create._DBCreator._id_handler")
    inc = require_func(ctx, "create._DBCreator._increment_featuretype_autoid")
    feat = [p for p in f.params if p != "self"]
    ctx.require(len(feat) == 1, "_id_handler signature changed")
    v, w, seqid = Sym("v", "str", True), Sym("w", "str", True), Sym("seqid", "str", True)

    def run(spec, attrs, ft="gene", counters=None):
        from . import scen
        cnt = collections.defaultdict(int)
        cnt.update(counters or {})
        # the importer is built by its own constructor (whatever helper objects it sets up exist)
        it_, so, _conn = scen.make_creator(ctx, "_GFFDBCreator", id_spec=spec, _autoincrements=cnt)
        ctx.require(isinstance(so, Opaque), "_GFFDBCreator(...) raises on id_spec %r" % (spec,))
        F = Opaque("F", "Feature")
        F.attrs.update({"attributes": attrs, "featuretype": ft, "seqid": seqid, "strand": Sym("strand", "str", True)})
        try:
            traces = it_.run(f, {feat[0]: F}, self_obj=so)
        except Unsupported as e:
            ctx.require(False, "_id_handler outside the analysable subset: %s" % e)
        out = []
        for t in traces:
            if t.result[0] == "return":
                r = t.result[1]
                out.append(("id", r.name if isinstance(r, Sym) else r.render() if isinstance(r, AStr) else r))
            else:
                out.append(("raise", t.result[1]))
        return sorted(set(out), key=repr)
    cb = lambda res: Callback("id_spec", res)
    CASES = [
        # rule, description, spec, attributes, featuretype, counters, expected
        ("R1", "a string id_spec names the attribute whose (single) value is the id", "ID", {"ID": [v]}, "gene", None, [("id", "v")]),
        ("R1", "a feature lacking the id attribute is numbered per featuretype", "ID", {}, "gene", None, [("id", "gene_1")]),
        ("R1", "an id attribute with an empty value list is skipped", "ID", {"ID": []}, "gene", None, [("id", "gene_1")]),
        ("R1", "':field:' keys return that column of the feature", ":seqid:", {}, "gene", None, [("id", "seqid")]),
        ("R1", "keys are tried in order: the first one that yields a value wins", ["ID", "Name"], {"ID": [v], "Name": [w]}, "gene", None, [("id", "v")]),
        ("R1", "a key that yields nothing falls through to the next key", ["ID", "Name"], {"Name": [w]}, "gene", None, [("id", "w")]),
        ("R1", "no key yields an id: the feature gets '<featuretype>_<n>'", ["ID", "Name"], {}, "exon", None, [("id", "exon_1")]),
        ("R1", "a dict id_spec is looked up by the feature's featuretype", {"gene": "ID", "mRNA": "Name"}, {"ID": [v], "Name": [w]}, "mRNA", None, [("id", "w")]),
        ("R1", "a dict id_spec may map a featuretype to several keys", {"gene": ["ID", "Name"]}, {"Name": [w]}, "gene", None, [("id", "w")]),
        ("R1", "a featuretype missing from a dict id_spec is numbered per featuretype", {"mRNA": "ID"}, {"ID": [v]}, "gene", None, [("id", "gene_1")]),
        ("R1", "a callable's truthy result is the id", cb(v), {"ID": [w]}, "gene", None, None),
        ("R1", "a callable returning None leads to default numbering", cb(None), {}, "gene", None, [("id", "gene_1")]),
        ("R1", "a callable returning '' leads to default numbering", cb(""), {}, "gene", None, [("id", "gene_1")]),
        ("R1", "a callable returning None falls through to the next key", [cb(None), "ID"], {"ID": [v]}, "gene", None, [("id", "v")]),
        ("R2", "'autoincrement:<base>' from a callable numbers the feature per <base> (everything after the prefix)", cb("autoincrement:chr"), {}, "gene", None, [("id", "chr_1")]),
        ("R2", "only the exact prefix 'autoincrement:' is special", cb("autoincrement"), {}, "gene", None, [("id", "autoincrement")]),
        ("R2", "a result that merely contains the prefix is an ordinary id", cb("xautoincrement:chr"), {}, "gene", None, [("id", "xautoincrement:chr")]),
        ("R3", "an id attribute with several values is rejected", "ID", {"ID": [v, w]}, "gene", None, [("raise", "ValueError")]),
        ("R3", "an id attribute with several values is rejected (later key of a list)", ["Name", "ID"], {"ID": [v, w]}, "gene", None, [("raise", "ValueError")]),
        ("R3", "an id attribute with several values is rejected (dict id_spec)", {"gene": "ID"}, {"ID": [v, w]}, "gene", None, [("raise", "ValueError")]),
        ("R4", "numbering continues from the per-base counter (incremented before formatting)", "ID", {}, "gene", {"gene": 4}, [("id", "gene_5")]),
        ("R4", "counters are kept per base", "ID", {}, "exon", {"gene": 4}, [("id", "exon_1")]),
    ]
    for rule, desc, spec, attrs, ft, counters, want in CASES:
        got = run(spec, attrs, ft, counters)
        if want is None:
            # symbolic callable result: the id unless it carries the autoincrement prefix
            ok = ("id", "v") in got and all(g == ("id", "v") or (g[0] == "id" and isinstance(g[1], str) and g[1].endswith("_1")) for g in got)
        else:
            ok = got == want
        show = lambda x: "id_spec=%s" % ("<callable -> %r>" % (x.result.name if isinstance(x.result, Sym) else x.result) if isinstance(x, Callback) else
                                          "[%s]" % ", ".join(show(y)[8:] for y in x) if isinstance(x, list) else repr(x))
        ctx.ob(rule, ok, desc, func=f,
               sig="%s attributes=%s featuretype=%s%s -> %s" % (show(spec), {k: [getattr(x, "name", x) for x in vs] for k, vs in attrs.items()}, ft,
                                                               " counters=%s" % counters if counters else "", got),
               detail=None if ok else "expected %s" % (want,))
    ctx.extra["id_handler_cases"] = len(CASES)


def r4(ctx):
    """Generated keys '<base>_<n>': the counter routine is evaluated abstractly (start state {gene: 4} -> 'gene_5', state 5;
    fresh base -> '<base>_1'); merge()'s own id generator is judged on the provenance of the id it assigns."""
    import collections
    from ..absint import Interp, Sym, Opaque, AStr, Unsupported
    from ..flow import Flow, text_parts, show
    from ..util import closure
    f = require_func(ctx, "create._DBCreator._increment_featuretype_autoid")
    key = [p for p in f.params if p != "self"][0]
    for start, base, want, state in (({"gene": 4}, "gene", "gene_5", 5), ({"gene": 4}, "exon", "exon_1", 1), ({}, "chr:1", "chr:1_1", 1)):
        from . import scen
        cnt = collections.defaultdict(int)
        cnt.update(start)
        it_, so, _conn = scen.make_creator(ctx, "_GFFDBCreator", _autoincrements=cnt)
        try:
            traces = it_.run(f, {key: base}, self_obj=so)
        except Unsupported as e:
            ctx.require(False, "_increment_featuretype_autoid outside the analysable subset: %s" % e)
        res = sorted({(t.result[0], t.result[1].render() if isinstance(t.result[1], AStr) else t.result[1]) for t in traces}, key=repr)
        ok = res == [("return", want)]
        ctx.ob("R4", ok, "generated keys have the form <base>_<n>, n being the per-base counter after incrementing it (numbering starts at 1)", func=f,
               sig="counter %s, base %r -> %s" % (start, base, res))
        stores = [e for t in traces for e in t.events if e[0] == "setitem" and e[2] == base]
        final = stores[-1][3] if stores else None
        ctx.ob("R4", final == state, "the counter of the base is advanced by one (the next key differs)", func=f,
               sig="counter %s, base %r: counter stored %s" % (start, base, final))
    # sibling: FeatureDB.merge's own id generator -- decided on the evaluated merge scenarios of C16 (fresh distinct ids
    # '<type>_<n>', counter advanced once per run, numbering continued from the database's counters)
    from . import c16
    n0 = len(ctx.obs)
    c16.merge_semantics(ctx)
    kept = [o for o in ctx.obs[n0:] if o.rule.endswith("R5")]
    del ctx.obs[n0:]
    for o in kept:
        o.rule = "C04.R4"
        ctx.obs.append(o)
    ctx.floor("R4", len(kept), 3, "id obligations on the evaluated merge scenarios")


def r5(ctx):
    sch = S.schema_from_script(ctx.folder.const("constants", "SCHEMA"))
    ok = sch.get("features", {}).get("pk") == ["id"]
    ctx.ob("R5", ok, "features declares PRIMARY KEY (id): the database enforces key uniqueness", func=None,
           node=ctx.proj.module("constants").toplevel.get("SCHEMA"), sig="features primary key %s" % sch.get("features", {}).get("pk"))
    n = 0
    for s in execute_sites(ctx):
        for st in (s.stmts or []):
            if st.verb == "INSERT" and st.table.lower() == "features":
                n += 1
                ctx.ob("R5", st.or_clause is None, "features rows are added with a plain INSERT so that a key collision raises and is "
                       "diverted to the merge strategy (never silently absorbed)", node=s.call, func=s.func,
                       sig="%s: INSERT%s INTO features" % (s.func.name, " OR " + st.or_clause.upper() if st.or_clause else ""))
    ctx.floor("R5", n, 3, "INSERT INTO features sites")


def r6(ctx):
    """db[key], evaluated on a created model database: a stored key (given as a string or as a Feature) returns the
    feature stored under exactly that key, an absent one raises FeatureNotFoundError."""
    from . import scen
    f = require_func(ctx, "interface.FeatureDB.__getitem__")
    lines = scen.gff_lines() + [scen.feature("Q1", "exon", 5, 6, {"ID": ["e2x"], "Parent": ["t1"]}), scen.feature("Q2", "exon", 7, 8, {"ID": ["E2"], "Parent": ["t1"]})]
    im, t = scen.run_create(ctx, "_GFFDBCreator", lines)
    if not scen.returned(ctx, t, "create()", func=f, rule="R6"):
        return
    it, me, conn, t0 = scen.open_feature_db(ctx, im.db)
    if not scen.returned(ctx, t0, "FeatureDB(dbfn)", func=f, rule="R6"):
        return
    by_id = {x.attrs["id"]: x for x in lines}
    auto = [x.attrs["id"] for x in lines if "ID" not in x.attrs["attributes"]]
    n = 0
    for key in ["e2", "e2x", "E2", "g1"] + auto[:1]:
        for form in ("string", "Feature"):
            arg = key if form == "string" else scen.feature("probe", "x", 1, 2, {}, id=key)
            t = scen.call_method(ctx, it, me, "interface.FeatureDB.__getitem__", key=arg)
            n += 1
            got = t.result[1] if t.result[0] == "return" else None
            want = by_id[key]
            ok = hasattr(got, "attrs") and got.attrs.get("id") == key and got.attrs.get("start") == want.attrs["start"] and got.attrs.get("featuretype") == want.attrs["featuretype"] \
                and got.attrs.get("attributes") == want.attrs["attributes"]
            ctx.ob("R6", ok, "a present key (%s form) returns exactly the feature stored under it (exact match: 'e2', 'e2x' and 'E2' are three features)" % form, func=f,
                   sig="db[%r as %s] is the stored feature" % (key, form) if ok else "db[%r as %s] -> %s %s" % (key, form, t.result[0], getattr(got, "attrs", {}).get("id", t.result[1])))
    for key in ("absent", "e", "e2 ", ""):
        for form in ("string", "Feature"):
            arg = key if form == "string" else scen.feature("probe", "x", 1, 2, {}, id=key)
            t = scen.call_method(ctx, it, me, "interface.FeatureDB.__getitem__", key=arg)
            n += 1
            ok = t.result[0] == "raise" and str(t.result[1]).split(".")[-1] == "FeatureNotFoundError"
            ctx.ob("R6", ok, "an absent key (%s form) raises FeatureNotFoundError" % form, func=f,
                   sig="db[%r as %s] raises FeatureNotFoundError" % (key, form) if ok else "db[%r as %s] -> %s %s" % (key, form, t.result[0], getattr(t.result[1], "name", t.result[1])))
    ctx.floor("R6", n, 10, "look-ups evaluated")
    # ---- look-ups follow the table through a history: replace by update, then delete
    newer = scen.feature("N", "exon", 777, 888, {"ID": ["e2"], "Parent": ["t1"], "note": ["newer"]}, strand="-")
    t = scen.call_method(ctx, it, me, "interface.FeatureDB.update", data=[newer], make_backup=False, merge_strategy="replace")
    if scen.returned(ctx, t, "update(merge_strategy='replace')", func=f, rule="R6"):
        for form in ("string", "Feature"):
            arg = "e2" if form == "string" else scen.feature("probe", "x", 1, 2, {}, id="e2")
            t = scen.call_method(ctx, it, me, "interface.FeatureDB.__getitem__", key=arg)
            got = t.result[1] if t.result[0] == "return" else None
            ok = hasattr(got, "attrs") and got.attrs.get("start") == 777 and got.attrs.get("end") == 888 and got.attrs.get("strand") == "-" and got.attrs.get("attributes", {}).get("note") == ["newer"]
            ctx.ob("R6", ok, "after the feature stored under a key was replaced by an update, db[key] (%s form, looked up before and after on the same object) returns what is stored now" % form, func=f,
                   sig="db['e2' as %s] after replace is the stored row" % form if ok else "db['e2' as %s] after replace -> %s..%s %s" % (
                       form, getattr(got, "attrs", {}).get("start"), getattr(got, "attrs", {}).get("end"), getattr(got, "attrs", {}).get("attributes")))
    t = scen.call_method(ctx, it, me, "interface.FeatureDB.delete", features="e2", make_backup=False)
    if scen.returned(ctx, t, "delete('e2')", func=f, rule="R6"):
        t = scen.call_method(ctx, it, me, "interface.FeatureDB.__getitem__", key="e2")
        ok = t.result[0] == "raise" and str(t.result[1]).split(".")[-1] == "FeatureNotFoundError"
        ctx.ob("R6", ok, "after delete the key is absent: FeatureNotFoundError", func=f, sig="db['e2'] after delete raises" if ok else "db['e2'] after delete -> %s" % (t.result[:2],))


def r1_histories(ctx):
    """The key of a line depends on the line (and on the counters), not on which lines came before it: importers evaluated
    on files where earlier lines lack, and later lines have, the first listed id attribute -- in both orders."""
    from . import scen
    f = require_func(ctx, "create._DBCreator._id_handler")
    mk = lambda name, ft, attrs: scen.feature(name, ft, 1, 10, attrs)
    lines = [mk("A", "gene", {"Name": ["nameA"]}), mk("B", "gene", {"ID": ["idB"], "Name": ["nameB"]}), mk("C", "mRNA", {"Name": ["nameC"]}),
             mk("D", "gene", {"ID": ["idD"]}), mk("E", "gene", {"note": ["x"]}), mk("F", "gene", {"Name": ["nameF"], "ID": ["idF"]}), mk("G", "gene", {"note": ["y"]})]
    want = {"A": "nameA", "B": "idB", "C": "nameC", "D": "idD", "F": "idF"}
    for spec, label in ((["ID", "Name"], "list"), ({"gene": ["ID", "Name"], "mRNA": ["ID", "Name"]}, "dict of lists")):
        for order, olabel in ((list(range(len(lines))), "file order"), (list(range(len(lines)))[::-1], "reversed")):
            ls = [mk(lines[i].name, lines[i].attrs["featuretype"], lines[i].attrs["attributes"]) for i in order]
            im = scen.Import(ctx, "_GFFDBCreator", id_spec=spec)
            t = im.call("_populate_from_lines", lines=ls)
            got = {x.name: x.attrs["id"] for x in ls}
            auto = sorted(got[n] for n in ("E", "G"))
            ok = t.result[0] == "return" and all(got[k] == v for k, v in want.items()) and auto == ["gene_1", "gene_2"]
            ctx.ob("R1", ok, "each line's key is the value of the first listed attribute it has (else '<featuretype>_<n>'), whatever the earlier lines looked like (id_spec as %s, %s)" % (label, olabel),
                   func=f, sig="keys follow id_spec per line (%s, %s)" % (label, olabel) if ok else "id_spec %s, %s: keys %s" % (label, olabel, got))


def check(ctx):
    ctx.explanation = (
        "The id derivation is a decision table: _id_handler (with the counter routine inlined) is evaluated abstractly for every documented "
        "form of id_spec against symbolic features and each outcome is compared with the prescribed one; the counter routine is evaluated "
        "from given start states; merge()'s id generator is judged on the provenance of the id it assigns; PRIMARY KEY(id) with plain "
        "INSERTs is parsed; db[key] is evaluated for a string and a Feature key on the absent-row and present-row paths. Default id_spec per "
        "format is decided with C03.R5. Does not decide numbering 'in input order' separately (follows from C01.R2 + R4).")
    r1_r2_r3(ctx)
    r1_histories(ctx)
    r4(ctx)
    r5(ctx)
    r6(ctx)
    from .c03 import r5_format_routing
    r5_format_routing(ctx, rule="R1")
