"""C04 -- primary keys follow id_spec, are unique, look-ups are exact."""
import ast

from .. import sql as S
from ..cfg import cfg_of
from ..model import norm, parents, enclosing
from ..util import require_func, execute_sites, calls_in, call_attr, is_name, const_str, kwarg


def fmt_shape(e, resolver=None):
    sh = _fmt_shape(e)
    if sh is None or resolver is None:
        return sh
    out = []
    for part in sh:
        if isinstance(part, tuple) and part[1].isidentifier():
            v = resolver(part[1])
            if v is not None:
                out.append(("expr", norm(v)))
                continue
        out.append(part)
    return out


def _fmt_shape(e):
    """['%s_%s' % (a, b)], a + '_' + str(b), f'{a}_{b}'  ->  [a, '_', b] with
    expressions normalised to source text."""
    if isinstance(e, ast.BinOp) and isinstance(e.op, ast.Mod) and const_str(e.left) is not None:
        args = e.right.elts if isinstance(e.right, ast.Tuple) else [e.right]
        parts = const_str(e.left).split("%s")
        if len(parts) - 1 != len(args):
            return None
        out = []
        for i, p in enumerate(parts):
            if p:
                out.append(p)
            if i < len(args):
                out.append(("expr", norm(args[i])))
        return out
    if isinstance(e, ast.BinOp) and isinstance(e.op, ast.Add):
        l, r = _fmt_shape(e.left), _fmt_shape(e.right)
        if l is None or r is None:
            return None
        return l + r
    if isinstance(e, ast.JoinedStr):
        out = []
        for p in e.values:
            if isinstance(p, ast.Constant):
                out.append(p.value)
            else:
                out.append(("expr", norm(p.value)))
        return out
    if isinstance(e, ast.Call) and is_name(e.func, "str") and len(e.args) == 1:
        return [("expr", norm(e.args[0]))]
    if isinstance(e, ast.Call) and call_attr(e) == "format" and const_str(e.func.value) is not None:
        s = const_str(e.func.value)
        out, i, auto = [], 0, 0
        while i < len(s):
            j = s.find("{", i)
            if j < 0:
                out.append(s[i:])
                break
            if j > i:
                out.append(s[i:j])
            k = s.find("}", j)
            fld = s[j + 1:k]
            if fld == "":
                idx = auto
                auto += 1
            elif fld.isdigit():
                idx = int(fld)
            else:
                return None
            if idx >= len(e.args):
                return None
            out.append(("expr", norm(e.args[idx])))
            i = k + 1
        return out
    if isinstance(e, ast.Constant) and isinstance(e.value, str):
        return [e.value]
    if isinstance(e, (ast.Name, ast.Attribute, ast.Subscript)):
        return [("expr", norm(e))]
    return None


def r1_r2_r3(ctx):
    f = require_func(ctx, "create._DBCreator._id_handler")
    cfg = cfg_of(f)
    feat = [p for p in f.params if p != "self"]
    ctx.require(len(feat) == 1, "_id_handler signature changed")
    fv = feat[0]
    # ---- id_spec kinds
    src = " ".join(norm(n.test) for n in ast.walk(f.node) if isinstance(n, ast.If))
    for what, needle in (("a string", "isinstance(self.id_spec, str)"), ("a callable", "hasattr(self.id_spec, '__call__')"),
                         ("a dict", "isinstance(self.id_spec, dict)")):
        alt = needle.replace("hasattr(self.id_spec, '__call__')", "callable(self.id_spec)")
        ok = needle in src or alt in src
        ctx.ob("R1", ok, "id_spec given as %s is recognised" % what, func=f, sig="id_spec kind test: %s" % what if ok else "no test for id_spec as %s" % what)
    # dict lookup by featuretype with KeyError -> autoincrement(featuretype)
    look = [n for n in ast.walk(f.node) if isinstance(n, ast.Subscript) and norm(n.value) == "self.id_spec"]
    ok = any(norm(n.slice) == "%s.featuretype" % fv for n in look)
    ctx.ob("R1", ok, "a dict id_spec is looked up by the feature's featuretype", func=f,
           sig="dict id_spec keyed by %s" % (sorted({norm(n.slice) for n in look}) or None))
    incs = [c for c in calls_in(f.node) if call_attr(c) == "_increment_featuretype_autoid"]
    ctx.floor("R1", len(incs), 2, "autoincrement calls in _id_handler")
    loops = [n for n in ast.walk(f.node) if isinstance(n, ast.For)]
    ctx.require(len(loops) == 1, "_id_handler no longer has a single loop over the id keys")
    loop = loops[0]
    kv = loop.target.id if isinstance(loop.target, ast.Name) else None
    ctx.require(kv, "_id_handler loop target")
    for c in incs:
        a = norm(c.args[0]) if c.args else None
        inside = loop in list(parents(c))
        if not inside:
            ctx.ob("R1", a == "%s.featuretype" % fv, "a feature without a usable id key is numbered per featuretype", node=c, func=f,
                   sig="default counter base: %s" % a)
    # after the loop: default autoincrement
    tail = f.node.body[-1]
    ok = isinstance(tail, ast.Return) and isinstance(tail.value, ast.Call) and call_attr(tail.value) == "_increment_featuretype_autoid" \
        and norm(tail.value.args[0]) == "%s.featuretype" % fv
    ctx.ob("R1", ok, "when no key yields an id the feature gets '<featuretype>_<n>'", node=tail, func=f,
           sig="fall-through result: %s" % norm(tail))
    # ---- inside the loop: fall through to the next key on a miss
    breaks = [n for n in ast.walk(loop) if isinstance(n, ast.Break)]
    ctx.ob("R1", not breaks, "a key that yields nothing falls through to the next key (no break)", node=(breaks[0] if breaks else loop), func=f,
           sig="break in the id key loop" if breaks else "no break in the id key loop")
    for h in [n for n in ast.walk(loop) if isinstance(n, ast.ExceptHandler)]:
        bad = [n for n in ast.walk(h) if isinstance(n, (ast.Return, ast.Raise, ast.Break))]
        ctx.ob("R1", not bad, "a missing/empty attribute is skipped, the next key is tried", node=h, func=f,
               sig="except %s: %s" % (norm(h.type) if h.type else "", "falls through" if not bad else norm(bad[0])))
    rets = [n for n in ast.walk(loop) if isinstance(n, ast.Return)]
    kinds = {}
    for r in rets:
        v = r.value
        if isinstance(v, ast.Call) and is_name(v.func, "getattr"):
            ok = len(v.args) == 2 and is_name(v.args[0], fv) and norm(v.args[1]) == "%s[1:-1]" % kv
            kinds["field"] = ok
            ctx.ob("R1", ok, "':field:' keys return that column of the feature", node=r, func=f, sig="field key returns %s" % norm(v))
            g = [norm(t) for t, pol in _guards(r, loop) if pol]
            okg = any("%s[0] == ':'" % kv in t and "%s[-1] == ':'" % kv in t for t in g)
            ctx.ob("R1", okg, "the ':field:' form is recognised by its leading and trailing colon", node=r, func=f,
                   sig="field form guard: %s" % (g[0] if g else None), nontrivial=False)
        elif isinstance(v, ast.Call) and call_attr(v) == "_increment_featuretype_autoid":
            kinds["auto"] = r
        elif isinstance(v, ast.Subscript) and isinstance(v.slice, ast.Constant):
            ok = v.slice.value == 0 and norm(v.value) in ("%s.attributes[%s]" % (fv, kv), "%s[%s]" % (fv, kv))
            kinds["attr"] = ok
            ctx.ob("R1", ok, "an attribute key returns the attribute's first (only) value", node=r, func=f, sig="attribute key returns %s" % norm(v))
            # R3: dominated by the multi-value rejection
            node = cfg.node_for(r)
            dom_ok = False
            for n in ast.walk(f.node):
                if isinstance(n, ast.If) and isinstance(n.test, ast.Compare) and norm(n.test.left) == "len(%s)" % norm(v.value) \
                        and isinstance(n.test.ops[0], ast.Gt) and norm(n.test.comparators[0]) == "1" \
                        and any(isinstance(b, ast.Raise) for b in n.body):
                    if cfg.dominates(cfg.node_for(n).id, node.id):
                        dom_ok = True
            ctx.ob("R3", dom_ok, "an id attribute with several values is rejected before its first value could be used", node=r, func=f,
                   sig="multi-value check dominates %s" % norm(r) if dom_ok else "%s not dominated by a len(...) > 1 rejection" % norm(r))
        elif isinstance(v, ast.Name):
            # callable result
            g = [norm(t) for t, pol in _guards(r, loop) if pol]
            ok = v.id in g
            kinds["callable"] = ok
            ctx.ob("R1", ok, "a callable's value is used only when it is truthy (None -> next key / default numbering)", node=r, func=f,
                   sig="callable result guarded by %s" % g)
        else:
            ctx.ob("R1", False, "every exit of the id key loop is one of the documented forms", node=r, func=f, sig="unexpected %s" % norm(r))
    # R3 applies to every exit that uses an attribute's first value, also outside the key loop (fast paths)
    for r in [n for n in ast.walk(f.node) if isinstance(n, ast.Return) and loop not in list(parents(n))]:
        v = r.value
        if isinstance(v, ast.Subscript) and isinstance(v.slice, ast.Constant) and v.slice.value == 0 and \
                (("%s.attributes[" % fv) in norm(v.value) or norm(v.value).startswith("%s[" % fv)):
            node = cfg.node_for(r)
            dom_ok = False
            for n in ast.walk(f.node):
                if isinstance(n, ast.If) and isinstance(n.test, ast.Compare) and norm(n.test.left) == "len(%s)" % norm(v.value) \
                        and isinstance(n.test.ops[0], ast.Gt) and norm(n.test.comparators[0]) == "1" and any(isinstance(b, ast.Raise) for b in n.body):
                    if cfg.dominates(cfg.node_for(n).id, node.id):
                        dom_ok = True
            ctx.ob("R3", dom_ok, "an id attribute with several values is rejected before its first value could be used", node=r, func=f,
                   sig="multi-value check dominates %s" % norm(r) if dom_ok else "%s not dominated by a len(...) > 1 rejection" % norm(r))
    for k, what in (("field", "':field:' form"), ("attr", "attribute form"), ("callable", "callable form"), ("auto", "'autoincrement:X' form")):
        ctx.ob("R1", k in kinds, "_id_handler handles the %s" % what, func=f, sig="%s %s" % (what, "present" if k in kinds else "missing"), nontrivial=False)
    # ---- R2: prefix slice
    if "auto" in kinds:
        r = kinds["auto"]
        arg = r.value.args[0] if r.value.args else None
        pref = None
        for t, pol in _guards(r, loop):
            if pol and isinstance(t, ast.Call) and call_attr(t) == "startswith" and t.args and const_str(t.args[0]) is not None:
                pref = (norm(t.func.value), const_str(t.args[0]))
        ok = False
        shown = norm(arg) if arg is not None else None
        if pref and isinstance(arg, ast.Subscript) and isinstance(arg.slice, ast.Slice) and norm(arg.value) == pref[0] and arg.slice.upper is None:
            lo = ctx.folder.try_fold(arg.slice.lower, f.module.name, default=None) if arg.slice.lower is not None else None
            if lo is None and arg.slice.lower is not None and norm(arg.slice.lower) in ("len(%r)" % pref[1],):
                lo = len(pref[1])
            ok = lo == len(pref[1])
        ctx.ob("R2", pref is not None and pref[1] == "autoincrement:", "the special callable result is recognised by the prefix 'autoincrement:'",
               node=r, func=f, sig="autoincrement prefix %r" % (pref[1] if pref else None))
        ctx.ob("R2", ok, "the counter base is everything after the prefix (slice starts at len(prefix))", node=r, func=f,
               sig="counter base %s for prefix %r" % (shown, pref[1] if pref else None))


def _guards(node, stop):
    out = []
    child = node
    for p in parents(node):
        if p is stop:
            break
        if isinstance(p, ast.If):
            if any(child is s for s in p.body):
                out.append((p.test, True))
            elif any(child is s for s in p.orelse):
                out.append((p.test, False))
        child = p
    return out


def r4(ctx):
    f = require_func(ctx, "create._DBCreator._increment_featuretype_autoid")
    key = [p for p in f.params if p != "self"][0]
    cfg = cfg_of(f)
    incs = [n for n in ast.walk(f.node) if isinstance(n, ast.AugAssign) and isinstance(n.op, ast.Add)
            and norm(n.target) == "self._autoincrements[%s]" % key and norm(n.value) == "1"]
    rets = [n for n in ast.walk(f.node) if isinstance(n, ast.Return)]
    ctx.require(rets, "_increment_featuretype_autoid has no return")
    ok = bool(incs) and all(cfg.dominates(cfg.node_for(incs[0]).id, cfg.node_for(r).id) for r in rets)
    ctx.ob("R4", ok, "the per-base counter is incremented (by 1) before the key is formatted: numbering starts at 1", func=f,
           sig="increment dominates the formatted return" if ok else "counter not incremented before formatting")
    for r in rets:
        sh = fmt_shape(r.value)
        ok = sh == [("expr", key), "_", ("expr", "self._autoincrements[%s]" % key)]
        ctx.ob("R4", ok, "generated keys have the form <base>_<n>", node=r, func=f, sig="key format %s" % (sh if sh is not None else norm(r.value)))
    # sibling: FeatureDB.merge's own id generator
    m = require_func(ctx, "interface.FeatureDB.merge")
    asg = [n for n in ast.walk(m.node) if isinstance(n, ast.Assign) and any(is_name(t, "last_id") for t in n.targets)
           and not (isinstance(n.value, ast.Constant) and n.value.value is None)]
    ctx.floor("R4", len(asg), 1, "id generators in FeatureDB.merge")
    mcfg = cfg_of(m)
    for a in asg:
        sh = fmt_shape(a.value)
        # id generation factored into a helper method: judge the helper's returned shape, with its parameter as the base
        if isinstance(a.value, ast.Call) and isinstance(a.value.func, ast.Attribute) and is_name(a.value.func.value, "self"):
            hs = ctx.proj.resolve_call(a.value, m)[0]
            if len(hs) == 1:
                h = hs[0]
                ctx.touch(h)
                hp = [p_ for p_ in h.params if p_ != "self"]
                hr = [n for n in ast.walk(h.node) if isinstance(n, ast.Return) and n.value is not None]
                hcfg = cfg_of(h)
                if len(hp) >= 1 and len(hr) == 1:
                    from ..util import single_assignment
                    res_ = lambda nm: single_assignment(h.node, nm) if nm not in hp else None
                    hsh = fmt_shape(hr[0].value, res_)
                    if isinstance(hr[0].value, ast.Name):
                        v_ = single_assignment(h.node, hr[0].value.id)
                        hsh = fmt_shape(v_, res_) if v_ is not None else hsh
                    hinc = [n for n in ast.walk(h.node) if isinstance(n, ast.AugAssign) and norm(n.target) == "self._autoincrements[%s]" % hp[0] and norm(n.value) == "1"]
                    okh = hsh == [("expr", hp[0]), "_", ("expr", "self._autoincrements[%s]" % hp[0])] and bool(hinc) and \
                        hcfg.dominates(hcfg.node_for(hinc[0]).id, hcfg.node_for(hr[0]).id)
                    ctx.ob("R4", okh, "merge() numbers its outputs with the same counters and the same <base>_<n> shape (through %s)" % h.name, node=a, func=m,
                           sig="merge id via %s: %s" % (h.name, "base_n after increment" if okh else hsh))
                    continue
        ok = sh is not None and len(sh) == 3 and sh[1] == "_" and sh[0][0] == "expr" and sh[2] == ("expr", "self._autoincrements[%s]" % sh[0][1])
        ctx.ob("R4", ok, "merge() numbers its outputs with the same counters and the same <base>_<n> shape", node=a, func=m,
               sig="merge id format %s" % (sh if sh is not None else norm(a.value)))
        if ok:
            base = sh[0][1]
            incs = [n for n in ast.walk(m.node) if isinstance(n, ast.AugAssign) and norm(n.target) == "self._autoincrements[%s]" % base
                    and norm(n.value) == "1" and isinstance(n.op, ast.Add)]
            okd = bool(incs) and any(mcfg.dominates(mcfg.node_for(i).id, mcfg.node_for(a).id) for i in incs)
            ctx.ob("R4", okd, "merge() increments the counter before using it", node=a, func=m,
                   sig="merge counter incremented before use" if okd else "merge counter used without a dominating increment")


def r5(ctx):
    sch = S.schema_from_script(ctx.folder.const("constants", "SCHEMA"))
    ok = sch.get("features", {}).get("pk") == ["id"]
    ctx.ob("R5", ok, "features declares PRIMARY KEY (id): the database enforces key uniqueness", func=None,
           node=ctx.proj.module("constants").toplevel.get("SCHEMA"), sig="features primary key %s" % sch.get("features", {}).get("pk"))
    n = 0
    for s in execute_sites(ctx):
        for st in (s.stmts or []):
            if st.verb == "INSERT" and st.table.lower() == "features":
                n += 1
                ctx.ob("R5", st.or_clause is None, "features rows are added with a plain INSERT so that a key collision raises and is "
                       "diverted to the merge strategy (never silently absorbed)", node=s.call, func=s.func,
                       sig="%s: INSERT%s INTO features" % (s.func.name, " OR " + st.or_clause.upper() if st.or_clause else ""))
    ctx.floor("R5", n, 3, "INSERT INTO features sites")


def r6(ctx):
    f = require_func(ctx, "interface.FeatureDB.__getitem__")
    key = [p for p in f.params if p != "self"][0]
    cfg = cfg_of(f)
    norm_ok = False
    for n in ast.walk(f.node):
        if isinstance(n, ast.If) and "isinstance(%s, Feature)" % key in norm(n.test):
            for b in n.body:
                if isinstance(b, ast.Assign) and is_name(b.targets[0], key) and norm(b.value) == "%s.id" % key:
                    norm_ok = True
    ctx.ob("R6", norm_ok, "db[feature] looks the feature up by its id", func=f, sig="Feature key -> key.id" if norm_ok else "Feature key not replaced by its id")
    sites = execute_sites(ctx, [f])
    ctx.floor("R6", len(sites), 1, "look-up statements in __getitem__")
    for s in sites:
        st = s.stmts[0] if s.stmts else None
        ok = st is not None and st.verb == "SELECT" and st.tables() == ["features"] and st.where is not None and st.where[0] == "cmp" \
            and st.where[1] == "=" and st.where[2][0] == "col" and st.where[2][2].lower() == "id" and st.where[3][0] == "param"
        ctx.ob("R6", ok, "the look-up is an exact match on the primary key", node=s.call, func=f,
               sig="look-up WHERE %s" % (S.show(st.where) if st is not None and st.where is not None else None))
        p = s.params
        okp = isinstance(p, ast.Tuple) and len(p.elts) == 1 and key in {x.id for x in ast.walk(p.elts[0]) if isinstance(x, ast.Name)}
        ctx.ob("R6", okp, "the look-up binds the requested key", node=s.call, func=f, sig="look-up binds %s" % (norm(p) if p is not None else None), nontrivial=False)
    rets = [n for n in ast.walk(f.node) if isinstance(n, ast.Return)]
    guards = [n for n in ast.walk(f.node) if isinstance(n, ast.If) and any(isinstance(b, ast.Raise) and "FeatureNotFoundError" in norm(b) for b in n.body)]
    ok = bool(guards) and bool(rets) and all(cfg.dominates(cfg.node_for(guards[0]).id, cfg.node_for(r).id) for r in rets)
    t = norm(guards[0].test) if guards else None
    okt = t in ("results is None", "not results", "results == None")
    ctx.ob("R6", ok and okt, "an absent key raises FeatureNotFoundError before any Feature is built", func=f,
           sig="absent key: raise under `%s` dominates the return" % t if ok and okt else "absent key not rejected (guard %s)" % t)
    for r in rets:
        ok = isinstance(r.value, ast.Call) and call_attr(r.value) == "_feature_returner"
        ctx.ob("R6", ok, "the stored row is returned through _feature_returner", node=r, func=f, sig="__getitem__ returns %s" % norm(r.value), nontrivial=False)


def check(ctx):
    ctx.explanation = (
        "Structural decision of the id derivation (_id_handler): recognised id_spec kinds, fall-through to the next key on a miss "
        "(no break/return in miss paths), prefix slice computed from the prefix length, dominance of the multi-value rejection over "
        "every use of an attribute's first value, counter incremented before formatting '<base>_<n>' (and the same shape in merge()), "
        "PRIMARY KEY(id) with plain INSERTs, exact look-up raising FeatureNotFoundError. Default id_spec per format is decided with "
        "C03.R5. Does not decide numbering 'in input order' separately (follows from C01.R2 + R4).")
    r1_r2_r3(ctx)
    r4(ctx)
    r5(ctx)
    r6(ctx)
    from .c03 import r5_format_routing
    r5_format_routing(ctx, rule="R1")
