"""C03 -- GTF import: per-line relations, inferred extents, flags, routing."""
import ast

from .. import sql as S
from ..cfg import cfg_of
from ..model import norm, parents, enclosing, stmt_of
from ..util import require_func, execute_sites, calls_in, call_attr, is_name, const_str, kwarg, assignments_to
from .c02 import feature_loop, schema, insert_columns

SPEC_PAIR = ("SELECT r0.parent, r1.parent FROM relations r0 JOIN features f0 ON f0.id = r0.child "
             "JOIN relations r1 ON r1.child = r0.parent WHERE f0.featuretype = :sub AND r0.level = 1 AND r1.level = 1")
SPEC_EXTENT = ("SELECT MIN(f.start), MAX(f.end), f.strand, f.seqid FROM features f JOIN relations r ON f.id = r.child "
               "WHERE r.parent = :id AND f.featuretype = :sub")


























def r5_format_routing(ctx, rule="R5"):
    """Format routing as a decision table obtained by abstract evaluation (partitioned dataflow) of create_db and
    FeatureDB.update for every (force_gff, fmt, id_spec given or not): which importer class is constructed and with which
    id_spec -- however the choice is spelled (cascade, lookup table, flags computed beforehand)."""
    from ..absint import Interp, Sym, Opaque, Unsupported
    GTF_DEFAULT = {"gene": "gene_id", "transcript": "transcript_id"}
    cd = require_func(ctx, "create.create_db")
    up = require_func(ctx, "interface.FeatureDB.update")
    results = {}
    CRE = {"create._GFFDBCreator": "_GFFDBCreator", "create._GTFDBCreator": "_GTFDBCreator"}

    def outcomes(func, args, self_obj=None):
        try:
            traces = Interp(ctx).run(func, args, self_obj=self_obj)
        except Unsupported as e:
            ctx.require(False, "%s outside the analysable subset: %s" % (func.qual, e))
        out = set()
        for t in traces:
            cons = [(CRE[e[1]], e[3]) for e in t.events if e[0] == "construct" and e[1] in CRE]
            if cons:
                for name, kw in cons:
                    out.add((name, _freeze(kw.get("id_spec")), tuple(sorted((k, _freeze(v)) for k, v in kw.items() if k in ("transcript_key", "gene_key", "subfeature")))))
            elif t.result[0] == "raise":
                out.add(("raise", t.result[1], ()))
        return out
    tk, gk, sf = Sym("tk", "str", True), Sym("gk", "str", True), Sym("sf", "str", True)
    for func, has_force in ((cd, True), (up, False)):
        for force in ((False, True) if has_force else (False,)):
            for fmt in ("gff3", "gtf", "other"):
                for given in (False, True):
                    spec = Sym("spec", "any", True) if given else None
                    if func is cd:
                        got = outcomes(cd, {"data": Sym("data", "str", True), "dbfn": Sym("dbfn", "str", True), "force_gff": force, "dialect": {"fmt": fmt},
                                            "id_spec": spec, "gtf_transcript_key": tk, "gtf_gene_key": gk, "gtf_subfeature": sf})
                    else:
                        so = Opaque("self", "obj")
                        so.attrs["dialect"] = {"fmt": fmt}
                        a = {"data": Sym("data", "str", True)}
                        if given:
                            a["id_spec"] = spec
                        got = outcomes(up, a, self_obj=so)
                    want = "_GFFDBCreator" if (force or fmt == "gff3") else "_GTFDBCreator" if fmt == "gtf" else None
                    classes = sorted({g[0] for g in got})
                    if want is None:
                        ok = all(c == "raise" for c in classes)
                        ctx.ob(rule, ok, "%s: a dialect that is neither gff3 nor gtf selects no importer" % func.name, func=func,
                               sig="%s routing fmt=other -> %s" % (func.name, classes or None), nontrivial=False)
                        continue
                    ctx.ob(rule, classes == [want], "%s: fmt=%s%s is imported by %s" % (func.name, fmt, ", force_gff" if force else "", want), func=func,
                           sig="%s routing fmt=%s force_gff=%s -> %s" % (func.name, fmt, force, classes or None))
                    ids = sorted({repr(g[1]) for g in got if g[0] == want})
                    want_id = _freeze(spec) if given else _freeze("ID" if want == "_GFFDBCreator" else GTF_DEFAULT)
                    ctx.ob(rule, ids == [repr(want_id)], "%s: %s for %s" % (func.name, "a given id_spec is passed on unchanged" if given else "default id_spec is %r" % (want_id,), want),
                           func=func, sig="%s id_spec for %s (%s) = %s" % (func.name, want, "given" if given else "default", ", ".join(ids) or None))
                    results[(func.name, fmt, force, given)] = (classes, ids)
                    if func is cd and want == "_GTFDBCreator" and not given:
                        keys = {g[2] for g in got if g[0] == want}
                        okk = keys == {(("gene_key", _freeze(gk)), ("subfeature", _freeze(sf)), ("transcript_key", _freeze(tk)))}
                        ctx.ob(rule, okk, "custom transcript/gene keys and subfeature type reach the GTF importer", func=cd,
                               sig="GTF importer receives gtf_transcript_key, gtf_gene_key, gtf_subfeature" if okk else "GTF importer kwargs %s" % sorted(keys))
    for fmt in ("gff3", "gtf"):
        for given in (False, True):
            a, b = results.get(("create_db", fmt, False, given)), results.get(("update", fmt, False, given))
            ctx.ob(rule, a == b and a is not None, "create_db and update route fmt=%s alike" % fmt, func=up,
                   sig="routing agreement fmt=%s id_spec %s: %s" % (fmt, "given" if given else "default", "same" if a == b else "%s vs %s" % (a, b)), nontrivial=False)


def _freeze(v):
    from ..absint import Sym
    if isinstance(v, Sym):
        return "<%s>" % v.name
    if isinstance(v, dict):
        return tuple(sorted((k, _freeze(x)) for k, x in v.items()))
    if isinstance(v, (list, tuple)):
        return tuple(_freeze(x) for x in v)
    return v


def check(ctx):
    ctx.explanation = (
        "The GTF importer's create() is evaluated by the abstract evaluator against a model database (relational evaluator for the SQL used, "
        "including the DISTINCT pair query with its sub-select and the MIN/MAX extent queries; in-memory intermediate file): a family with two "
        "genes on two chromosomes, interleaved lines, an exon whose end lies beyond that of the last-starting exon, a transcript without exons, "
        "under all four combinations of the disable_infer_* flags and shuffled line orders; a file with explicit gene/transcript lines; custom "
        "transcript/gene keys and subfeature type; an id shared by a gene and an exon-less transcript. Relations, derived features (type, "
        "seqid, extent, strand, bin, id attribute) and the fate of explicit lines are compared with a reference model of the statement. Format "
        "routing is a decision table obtained by abstract evaluation of create_db and FeatureDB.update over force_gff x fmt x id_spec "
        "given/absent. gffutils and sqlite3 are not imported or run. Does not decide 'for every GTF file'.")
    sch = schema(ctx)
    r_scenario(ctx)
    r5_format_routing(ctx)


# ------------------------------------------------------------------------------------------------ scenario rules
def r_scenario(ctx):
    """The GTF importer evaluated on the model database (create(): tables, lines, relations, derived features through the
    intermediate file, finalisation) and compared with a reference model of the statement."""
    import random
    from . import scen
    from ..binsmodel import spec_bins
    fu = require_func(ctx, "create._GTFDBCreator._update_relations")
    fp = require_func(ctx, "create._GTFDBCreator._populate_from_lines")
    keys = list(ctx.folder.const("constants", "_keys"))
    rnd = random.Random(7)
    runs = []
    fam = scen.gtf_lines("family")
    for ig in (False, True):
        for it_ in (False, True):
            runs.append(("family, disable_infer_genes=%s, disable_infer_transcripts=%s" % (ig, it_), "family", None, dict(disable_infer_genes=ig, disable_infer_transcripts=it_), {}))
    runs.append(("explicit gene and transcript lines", "explicit", None, {}, {}))
    runs.append(("an id shared by a gene and an exon-less transcript", "shared-id", None, {}, {}))
    for k in range(2 if ctx.tier == "quick" else 12):
        o = list(range(len(fam)))
        rnd.shuffle(o)
        runs.append(("family, line order %s" % "".join(str(i + 1) for i in o), "family", o, {}, {}))
    runs.append(("custom keys (tx / gn) and subfeature CDS", "custom", None, dict(transcript_key="tx", gene_key="gn", subfeature="CDS",
                                                                                    id_spec={"gene": "gn", "transcript": "tx"}), dict(tkey="tx", gkey="gn", subfeature="CDS")))
    n = 0
    for label, which, order, attrs, okw in runs:
        if which == "custom":
            lines = [scen.feature("C1", "CDS", 10, 20, {"gn": ["G"], "tx": ["T"]}), scen.feature("C2", "exon", 1, 50, {"gn": ["G"], "tx": ["T"]}),
                     scen.feature("C3", "CDS", 30, 40, {"gn": ["G"], "tx": ["T"]}), scen.feature("C4", "CDS", 100, 120, {"gene_id": ["zz"], "transcript_id": ["yy"]})]
        else:
            lines = scen.gtf_lines(which)
            if order is not None:
                lines = [lines[i] for i in order]
        im, t = scen.run_create(ctx, "_GTFDBCreator", lines, **attrs)
        n += 1
        if not scen.returned(ctx, t, "GTF create() (%s)" % label, func=fu, rule="R2"):
            continue
        ids = [f.attrs["id"] for f in lines]
        derived, rel = scen.expected_gtf(lines, ids, infer_genes=not attrs.get("disable_infer_genes", False), infer_transcripts=not attrs.get("disable_infer_transcripts", False), **okw)
        got_rel = im.table("relations")
        okr = set(got_rel) == rel and len(got_rel) == len(set(got_rel))
        ctx.ob("R1", okr, "relations: every line is a level-1 child of its transcript and a level-2 child of its gene, each transcript a level-1 child of its gene -- "
               "once each, nothing else, and no feature related to itself (%s)" % label, func=fp,
               sig="%s: relations equal the model" % label if okr else "%s: missing %s, unexpected %s" % (label, sorted(rel - set(got_rel))[:3], sorted(set(got_rel) - rel)[:3]))
        selfrel = [r for r in got_rel if r[0] == r[1]]
        ctx.ob("R6", not selfrel, "no feature is its own parent or child (%s)" % label, func=fp, sig="%s: no self relation" % label if not selfrel else "%s: %s" % (label, selfrel[:2]), nontrivial=False)
        rows = [scen.decoded_row(r, keys) for r in im.table("features", keys)]
        by = {}
        for r in rows:
            by.setdefault(r["id"], []).append(r)
        bad = None
        for did, (ft, seqid, start, end, strand) in sorted(derived.items()):
            got = by.get(did, [])
            if len(got) != 1:
                bad = "derived %s %s is stored %d times" % (ft, did, len(got))
                break
            g = got[0]
            want = dict(featuretype=ft, seqid=seqid, start=start, end=end, strand=strand, bin=spec_bins(start, end, "gff", True))
            diff = sorted(k for k, v in want.items() if g.get(k) != v)
            if diff:
                bad = "derived %s %s: %s = %s, the model has %s" % (ft, did, diff, [g.get(k) for k in diff], [want[k] for k in diff])
                break
            tk, gk = okw.get("tkey", "transcript_id"), okw.get("gkey", "gene_id")
            a = g.get("attributes")
            if not isinstance(a, dict) or (ft == "transcript" and a.get(tk) != [did]) or (ft == "gene" and a.get(gk) != [did]):
                bad = "derived %s %s carries attributes %r" % (ft, did, a)
                break
        extra = sorted(set(map(str, by)) - set(map(str, ids)) - set(derived))
        if bad is None and extra:
            bad = "unexpected feature(s) %s" % extra[:3]
        ctx.ob("R2", bad is None, "one derived transcript per transcript id owning a subfeature and one derived gene per gene id, spanning exactly min(start)..max(end) of the "
               "subfeatures on their seqid and strand, binned by their own extent, carrying their id; none for ids without subfeatures, none when disabled (%s)" % label, func=fu,
               sig="%s: derived features equal the model" % label if bad is None else "%s: %s" % (label, bad))
        if which == "explicit":
            g1 = by.get("g1", [])
            t1 = by.get("t1", [])
            ok = len(g1) == 1 and len(t1) == 1 and g1[0]["start"] == 90 and g1[0]["end"] == 1200 and t1[0]["start"] == 95 and g1[0]["source"] == "src" \
                and isinstance(g1[0]["attributes"], dict) and g1[0]["attributes"].get("Name") == ["G1"] and g1[0]["attributes"].get("gene_id") == ["g1"] \
                and isinstance(t1[0]["attributes"], dict) and t1[0]["attributes"].get("tag") == ["basic"]
            ctx.ob("R4", ok, "gene / transcript lines present in the file stay the single feature under their id, with the file's own coordinates and attributes (a derived twin is merged into them)", func=fu,
                   sig="explicit gene and transcript kept" if ok else "explicit lines: gene %s transcript %s" % ([(r["start"], r["end"], r["source"], r["attributes"]) for r in g1], [(r["start"], r["end"], r["attributes"]) for r in t1]))
    ctx.floor("R2", n, 8, "GTF import scenarios")
