"""C03 -- GTF import: per-line relations, inferred extents, flags, routing."""
import ast

from .. import sql as S
from ..cfg import cfg_of
from ..model import norm, parents, enclosing, stmt_of
from ..util import require_func, execute_sites, calls_in, call_attr, is_name, const_str, kwarg, assignments_to
from .c02 import feature_loop, schema, insert_columns

SPEC_PAIR = ("SELECT r0.parent, r1.parent FROM relations r0 JOIN features f0 ON f0.id = r0.child "
             "JOIN relations r1 ON r1.child = r0.parent WHERE f0.featuretype = :sub AND r0.level = 1 AND r1.level = 1")
SPEC_EXTENT = ("SELECT MIN(f.start), MAX(f.end), f.strand, f.seqid FROM features f JOIN relations r ON f.id = r.child "
               "WHERE r.parent = :id AND f.featuretype = :sub")


def gtf_cls(ctx):
    return ctx.proj.cls("create._GTFDBCreator")


def gtf_method(ctx, name):
    c = gtf_cls(ctx)
    f = c.methods.get(name)
    ctx.require(f is not None, "anchor vanished: _GTFDBCreator.%s" % name)
    ctx.touch(f)
    return f


def resolve_expr(expr, at_node, func, cfg, depth=0):
    """Substitute local names by their reaching definition (the last plain
    assignment in source order that dominates `at_node`), recursively."""
    if depth > 6:
        return expr

    class T(ast.NodeTransformer):
        def visit_Name(self, n):
            if not isinstance(n.ctx, ast.Load) or n.id == "self":
                return n
            tn = cfg.node_for(at_node)
            if tn is None:
                return n
            asg = [a for a in assignments_to(func.node, n.id) if cfg.node_for(a) is not None]
            ids = {cfg.node_for(a).id for a in asg}
            reaching = []
            for a in asg:
                an = cfg.node_for(a).id
                if an == tn.id:
                    continue
                if tn.id in cfg.reachable(an, avoid=ids - {an, tn.id}):
                    reaching.append(a)
            plain = [a for a in reaching if isinstance(a, ast.Assign) and len(a.targets) == 1 and is_name(a.targets[0], n.id)]
            if len(plain) != len(reaching):
                return n
            nonnull = [a for a in plain if not (isinstance(a.value, ast.Constant) and a.value.value is None)]
            if len(plain) > 1 and len(nonnull) == 1:
                # a None initialiser is excluded when the use is guarded by `name is not None`
                guarded = False
                for p in parents(at_node):
                    if isinstance(p, ast.If) and norm(p.test) in ("%s is not None" % n.id, n.id):
                        guarded = True
                if not guarded:
                    return n
                plain = nonnull
            if len(plain) != 1 or (isinstance(plain[0].value, ast.Constant) and plain[0].value.value is None):
                return n
            best = plain[0]
            return resolve_expr(best.value, best, func, cfg, depth + 1)
    import copy
    return T().visit(copy.deepcopy(expr))


def r1_r6(ctx, sch):
    f = gtf_method(ctx, "_populate_from_lines")
    loop, fv = feature_loop(ctx, f)
    cfg = cfg_of(f)
    sites = [s for s in execute_sites(ctx, [f]) if s.stmts and s.stmts[0].verb == "INSERT" and s.stmts[0].table.lower() == "relations"]
    ctx.floor("R1", len(sites), 1, "relation INSERT sites in the GTF importer")
    s = sites[0]
    st = s.stmts[0]
    cols = insert_columns(st, sch)
    ok = cols[:3] == ["parent", "child", "level"] and len(st.values) == 3 and all(v[0] == "param" for v in st.values)
    ctx.ob("R1", ok, "relation rows are (parent, child, level) triples", node=s.call, func=f, sig="GTF relation insert columns %s" % cols)
    ctx.ob("R1", st.or_clause == "ignore", "relation rows are inserted OR IGNORE (the gene-transcript link recurs on every line)", node=s.call, func=f,
           sig="GTF relation insert conflict clause: %s" % (st.or_clause or "none"))
    lst = s.params.id if isinstance(s.params, ast.Name) else None
    ctx.require(lst, "GTF relation insert is not fed from a local list")
    apps = [c for c in calls_in(f.node) if call_attr(c) == "append" and is_name(c.func.value, lst) and loop in list(parents(c))]
    ctx.floor("R1", len(apps), 3, "relation tuples appended per GTF line")
    T = "%s.attributes[self.transcript_key][0]" % fv
    G = "%s.attributes[self.gene_key][0]" % fv
    me = "%s.id" % fv
    expected = {(T, me, "1"): "line -> transcript, level 1", (G, me, "2"): "line -> gene, level 2", (G, T, "1"): "transcript -> gene, level 1"}
    got = {}
    for a in apps:
        tup = a.args[0] if a.args else None
        if not isinstance(tup, ast.Tuple) or len(tup.elts) != 3:
            ctx.ob("R1", False, "each appended relation is a (parent, child, level) tuple", node=a, func=f, sig="appended %s" % norm(a))
            continue
        res = tuple(norm(resolve_expr(e, a, f, cfg)) for e in tup.elts)
        got[res] = a
    for k, what in expected.items():
        ctx.ob("R1", k in got, "every line adds the relation %s" % what, node=got.get(k, loop), func=f,
               sig="relation %s" % what if k in got else "missing relation (%s); appended: %s" % (what, sorted(got)))
    for k, a in got.items():
        if k not in expected:
            ctx.ob("R1", False, "only the three documented relations are added per line", node=a, func=f, sig="unexpected relation tuple %s" % (k,))
    reset = [n for n in assignments_to(f.node, lst) if isinstance(n, ast.Assign) and isinstance(n.value, ast.List) and not n.value.elts
             and loop in list(parents(n))]
    ctx.ob("R1", bool(reset), "the relation list is rebuilt for every line", func=f, sig="relations list reset per line" if reset else "relations list not reset inside the loop")
    # id assigned before
    idasg = [n for n in ast.walk(loop) if isinstance(n, ast.Assign) and any(norm(t) == me for t in n.targets)]
    ctx.floor("R1", len(idasg), 1, "assignments of the feature id in the GTF importer loop")
    dom = all(cfg.dominates(cfg.node_for(idasg[0]).id, cfg.node_for(a).id) for a in apps)
    ctx.ob("R1", dom, "the id is assigned before the relations of the line are built", func=f,
           sig="id assignment dominates the relation tuples" if dom else "relation tuples not dominated by the id assignment")
    # ------------------------------------------------------------------ R6
    upd = gtf_method(ctx, "_update_relations")
    sweep = False
    for x in execute_sites(ctx, [f, upd]):
        for st2 in (x.stmts or []):
            if st2.verb == "DELETE" and st2.table.lower() == "relations" and st2.where is not None:
                w = st2.where
                if w[0] == "cmp" and w[1] == "=" and {w[2][0], w[3][0]} == {"col"} and {w[2][2].lower(), w[3][2].lower()} == {"parent", "child"}:
                    sweep = True
    for k, a in got.items():
        if k[1] != me or k not in expected:
            continue
        parent_e = a.args[0].elts[0]
        guarded = False
        for p in parents(a):
            if p is loop:
                break
            if isinstance(p, ast.If):
                for n in ast.walk(p.test):
                    if isinstance(n, ast.Compare) and len(n.ops) == 1 and isinstance(n.ops[0], (ast.NotEq,)):
                        sides = {norm(resolve_expr(n.left, a, f, cfg)), norm(resolve_expr(n.comparators[0], a, f, cfg))}
                        if sides == {k[0], me}:
                            guarded = True
        what = "transcript" if k[0] == T else "gene"
        ctx.ob("R6", guarded or sweep,
               "an explicit %s line (whose own id is the value of its %s_id attribute) is never made its own parent/child: the tuple "
               "(%s, f.id, %s) needs a guard parent != f.id, or self-relations are swept before the import returns" % (what, what, norm(parent_e), k[2]),
               node=a, func=f,
               sig="self-relation possible: (%s value, f.id, %s) appended without comparing it with f.id" % (what + "_key", k[2])
               if not (guarded or sweep) else "self-relation excluded for the %s link" % what,
               detail=None if (guarded or sweep) else "a `%s` line with %s_id X gets id X (default id_spec) and the row (X, X, %s)" % (what, what, k[2]))


def _ev3(test, env, leaf):
    """Three-valued evaluation of a guard: True / False / None (depends on something else)."""
    if isinstance(test, ast.BoolOp):
        vals = [_ev3(v, env, leaf) for v in test.values]
        if isinstance(test.op, ast.And):
            return False if False in vals else (None if None in vals else True)
        return True if True in vals else (None if None in vals else False)
    if isinstance(test, ast.UnaryOp) and isinstance(test.op, ast.Not):
        v = _ev3(test.operand, env, leaf)
        return None if v is None else not v
    return leaf(test, env)


def _reachable_under(conds, env, leaf):
    return all(_ev3(t, env, leaf) in (pol, None) for t, pol in conds)


def r2(ctx, sch):
    """Derived transcripts/genes: decided on the provenance of every field of the record written for them (which column of
    which query reaches which field), on the queries' conjunctive normal forms, and on the writer's path conditions."""
    from ..flow import Flow, show
    from ..util import closure
    from .c02 import _find
    f = gtf_method(ctx, "_update_relations")
    pool = closure(ctx, f)
    fl = Flow(ctx, pool)
    sites = execute_sites(ctx, pool)
    by_key = {(s.func.qual, s.call.lineno, s.call.col_offset): s for s in sites}
    sels = [s for s in sites if s.stmts and s.stmts[0].verb == "SELECT"]
    pair = [s for s in sels if s.stmts[0].tables().count("relations") >= 2]
    is_ext = lambda s: any(e[0] == "call" and e[1] in ("min", "max") for e, _a in s.stmts[0].cols)
    ctx.floor("R2", len(pair), 1, "transcript/gene pair queries")
    # ---- pair query
    s = pair[0]
    spec = S.to_cq(S.parse(SPEC_PAIR), sch)
    SUB = ("attr", ("self",), "subfeature")
    pt = fl.terms(s.params, s.func) if s.params is not None else set()
    ok_p = pt == {("op", "tuple", SUB)} or pt == {("op", "list", SUB)}
    ctx.ob("R2", ok_p, "the pair query is restricted to the configured subfeature type", node=s.call, func=s.func,
           sig="pair query bound to %s" % ", ".join(sorted(show(t) for t in pt)))
    try:
        got = S.to_cq(s.stmts[0], sch, {0: "sub"})
        eq = S.cq_equivalent(got, spec)
        ctx.ob("R2", eq, "pairs = transcripts that own a subfeature at level 1, each with its level-1 parent (the gene)", node=s.call, func=s.func,
               sig="pair query ≅ specification" if eq else "pair query differs: " + got.describe(),
               detail=None if eq else "expected " + spec.describe())
        by_gene = bool(got.order) and len(got.proj) == 2 and _canon(got, got.order[0][0]) == _canon(got, got.proj[1])
        ctx.ob("R2", by_gene, "pairs are ordered by gene, so 'one derived gene per gene id' can be decided on consecutive rows", node=s.call, func=s.func,
               sig="pair query ordered by the gene column" if by_gene else "pair query not ordered by the gene column")
    except S.SQLError as e:
        ctx.ob("R2", False, "pair query normalises", node=s.call, func=s.func, sig="pair query: %s" % e)
    PAIR = ("row", (s.func.qual, s.call.lineno, s.call.col_offset))
    IDS = {"transcript": ("pos", PAIR, 0), "gene": ("pos", PAIR, 1)}
    # ---- the reader's field names
    keys = None
    rsep = None
    for g in pool:
        for c in calls_in(g.node):
            if is_name(c.func, "zip") and len(c.args) == 2:
                kt = fl.terms(c.args[0], g)
                vt = fl.terms(c.args[1], g)
                for k in kt:
                    if k[0] == "op" and k[1] in ("list", "tuple") and len(k) >= 8 and all(x[0] == "const" and isinstance(x[1], str) for x in k[2:]):
                        sp = [_find(v, lambda x: isinstance(x, tuple) and x[0] == "call" and x[1] == "split") for v in vt]
                        if sp and sp[0] is not None:
                            keys = [x[1] for x in k[2:]]
                            rsep = sp[0][3][0][1] if sp[0][3] and sp[0][3][0][0] == "const" else None
                            ctx.touch(g)
    ctx.require(keys is not None, "reader of the derived-feature file (zip of field names with the split line) not found")
    # ---- the writer: records and their fields
    records = []
    for g in pool:
        for w in calls_in(g.node):
            if call_attr(w) != "write" or not w.args:
                continue
            for t in fl.terms(w.args[0], g):
                j = _find(t, lambda x: isinstance(x, tuple) and x[0] == "call" and x[1] == "join" and x[2] is not None and x[2][0] == "const" and len(x[3]) == 1)
                if j is None:
                    continue
                lst = j[3][0]
                if lst[0] == "call" and lst[1] == "map" and len(lst[3]) == 2 and lst[3][0] == ("global", "str"):
                    lst = lst[3][1]
                for one in (lst[1:] if lst[0] == "alt" else (lst,)):
                    if one[0] == "op" and one[1] in ("list", "tuple") and len(one) - 2 >= 6:
                        records.append((g, w, list(one[2:]), j[2][1]))
    ctx.floor("R2", len(records), 2, "records written for derived features")
    ext_sites = {}
    roles_seen = {}
    for g, w, fields, sep in records:
        ok = len(fields) == len(keys)
        ctx.ob("R2", ok, "writer and reader of the derived-feature file agree on the number of fields", node=w, func=g,
               sig="record: %d fields written, %d read" % (len(fields), len(keys)))
        ctx.ob("R2", sep == rsep, "writer and reader agree on the field separator", node=w, func=g, sig="record separator %r / %r" % (sep, rsep), nontrivial=False)
        if not ok:
            continue
        rec = dict(zip(keys, fields))
        ft = rec.get("featuretype")
        role = ft[1] if ft is not None and ft[0] == "const" and ft[1] in IDS else None
        ctx.ob("R2", role is not None, "a derived feature is typed 'transcript' or 'gene'", node=w, func=g, sig="derived featuretype := %s" % (show(ft) if ft else None))
        if role is None:
            continue
        roles_seen[role] = (g, w)
        idt = IDS[role]
        first = rec.get(keys[0])
        ctx.ob("R2", first == idt, "the record's first field is the %s id of the pair row" % role, node=w, func=g, sig="%s record id field := %s" % (role, show(first)), nontrivial=False)
        want = {"start": "min(start)", "end": "max(end)", "strand": "strand", "seqid": "seqid"}
        rows = set()
        for k, col in want.items():
            t = rec.get(k)
            got_col = None
            if t is not None and t[0] == "pos" and t[1][0] == "row" and t[1][1] in by_key and isinstance(t[2], int):
                es = by_key[t[1][1]]
                rows.add(t[1][1])
                cols_ = es.stmts[0].cols if es.stmts and es.stmts[0].verb == "SELECT" else []
                if 0 <= t[2] < len(cols_):
                    e_ = cols_[t[2]][0]
                    if e_[0] == "call" and e_[2] and e_[2][0][0] == "col":
                        got_col = "%s(%s)" % (e_[1], e_[2][0][2].lower())
                    elif e_[0] == "col":
                        got_col = e_[2].lower()
                    else:
                        got_col = S.show(e_)
            ctx.ob("R2", got_col == col, "field `%s` of the derived %s is %s of its subfeatures" % (k, role, col.upper()), node=w, func=g,
                   sig="%s.%s := %s" % (role, k, got_col if got_col else show(t) if t else None))
        ctx.ob("R2", len(rows) == 1, "start, end, strand and seqid of a derived %s come from one extent row" % role, node=w, func=g,
               sig="%s extent fields from %d queries" % (role, len(rows)), nontrivial=False)
        for rk in rows:
            ext_sites[rk] = (role, idt)
        bt = rec.get("bin")
        okb = bt is not None and bt[0] == "call" and bt[1] == "bins.bins" and len(bt[3]) >= 2 and bt[3][0] == rec.get("start") and bt[3][1] == rec.get("end") and \
            ("op", "kw", ("const", "one"), ("const", True)) in bt[3]
        ctx.ob("R2", okb, "the derived %s is binned by its own extent (smallest containing bin)" % role, node=w, func=g, sig="%s.bin := %s" % (role, show(bt) if bt else None), nontrivial=False)
        at = rec.get("attributes")
        key_attr = ("attr", ("self",), "transcript_key" if role == "transcript" else "gene_key")
        okj = at is not None and at[0] == "call" and at[1] == "helpers._jsonify"
        ctx.ob("R2", okj, "attributes travel as JSON", node=w, func=g, sig="%s.attributes := %s" % (role, show(at)[:60] if at else None), nontrivial=False)
        kv = _find(at, lambda x: isinstance(x, tuple) and x[:2] == ("op", "kv") and x[2] == key_attr) if at else None
        okk = kv is not None and kv[3] == ("op", "list", idt)
        ctx.ob("R2", okk, "the derived %s carries its id under the configured key, hence is retrievable by that id" % role, node=w, func=g,
               sig="%s attributes[%s] := %s" % (role, key_attr[2], show(kv[3]) if kv else None))
    for role in ("transcript", "gene"):
        ctx.ob("R2", role in roles_seen, "there is a record for inferred %ss" % role, func=f,
               sig="%s record present" % role if role in roles_seen else "%s record missing" % role, nontrivial=False)
    # ---- extent queries
    have_agg = [s_ for s_ in sels if is_ext(s_)]
    ctx.ob("R2", bool(have_agg),
           "the extent of a derived transcript/gene is the minimum start and the maximum end over its subfeature children (MIN/MAX aggregates)", func=f,
           sig="extents computed with MIN(start)/MAX(end)" if have_agg else "derived extents are not computed as MIN(start) .. MAX(end)",
           detail=None if have_agg else "e.g. 'first row's start, last row's end under ORDER BY start, end' is wrong for nested or overlapping exons")
    spec_e = S.to_cq(S.parse(SPEC_EXTENT), sch)
    for rk, (role, idt) in sorted(ext_sites.items()):
        es = by_key[rk]
        if not (es.stmts and es.stmts[0].verb == "SELECT"):
            continue
        # bound to (the id of the pair row -- per calling context -- , the subfeature type)
        pts = fl.terms(es.params, es.func) if es.params is not None else set()
        okb = bool(pts) and all(t[0] == "op" and t[1] in ("tuple", "list") and len(t) == 4 and t[2] in IDS.values() and t[3] == SUB for t in pts) and \
            any(t[2] == idt for t in pts if len(t) == 4)
        ctx.ob("R2", okb, "an extent query is bound to (the transcript or gene id, the subfeature type)", node=es.call, func=es.func,
               sig="%s extent query bound to %s" % (role, " | ".join(sorted(show(t) for t in pts))))
        try:
            got = S.to_cq(es.stmts[0], sch, {0: "id", 1: "sub"})
        except S.SQLError as e:
            ctx.ob("R2", False, "extent query normalises", node=es.call, func=es.func, sig="%s extent query: %s" % (role, e))
            continue
        same_body = S.cq_equivalent(_with_proj(got, []), _with_proj(spec_e, []))
        agg = sorted((t[1], _strip_alias(t[2])) for t in got.proj if t[0] == "agg")
        ok_agg = agg == [("max", "end"), ("min", "start")]
        ctx.ob("R2", ok_agg, "%s extent = MIN(start) .. MAX(end) over the subfeature children" % role, node=es.call, func=es.func,
               sig="%s extent aggregates %s" % (role, ["%s(%s)" % a for a in agg]))
        ctx.ob("R2", same_body, "%s extent ranges over features F joined to relations R on F.id = R.child with R.parent = id and "
               "F.featuretype = subfeature" % role, node=es.call, func=es.func,
               sig="%s extent query ≅ specification" % role if same_body else "%s extent query differs: %s" % (role, got.describe()))
    ctx.extra["derived_records"] = {r: [show(x) for x in rec_] for r, rec_ in ((ro, fi) for _g, _w, fi, _s in records for ro in [""])} if False else len(records)
    return fl, pool, records, keys


def _strip_alias(t):
    return t[2] if isinstance(t, tuple) and t[0] == "col" else t


def _canon(cq, t):
    cls, _ = cq.classes()
    for c in cls:
        if t in c:
            return min(c, key=repr)
    return t


def _with_proj(cq, proj):
    import copy
    c = copy.copy(cq)
    c.proj = list(proj)
    return c


def r3(ctx, r2res):
    """The derived transcript (gene) is written exactly when disable_infer_transcripts (disable_infer_genes) is off; with
    both flags set no statement is executed at all.  Decided on the CFG path conditions of the writes, evaluated
    three-valued over the four flag valuations (other guards are free)."""
    fl, pool, records, keys = r2res
    f = gtf_method(ctx, "_update_relations")
    FLAGS = {("attr", ("self",), "disable_infer_transcripts"): "dt", ("attr", ("self",), "disable_infer_genes"): "dg"}

    def evterm(t, env):
        if t in FLAGS:
            return env[FLAGS[t]]
        if t[0] == "op" and t[1] == "Not":
            v = evterm(t[2], env)
            return None if v is None else not v
        if t[0] == "const":
            return bool(t[1])
        return None

    def leaf_in(func):
        def leaf(test, env):
            vals = {evterm(t, env) for t in fl.terms(test, func)}
            return vals.pop() if len(vals) == 1 else None
        return leaf

    def chain(g, node, depth=0):
        """[(func, conds)] alternatives from f down to node."""
        cfg = cfg_of(g)
        cn = cfg.node_for(node)
        here = [(g, cfg.conditions(cn.id) if cn is not None else [])]
        if g is f or depth > 4:
            return [here]
        outs = []
        for caller, call in fl.callers(g):
            for up in chain(caller, call, depth + 1):
                outs.append(up + here)
        return outs or [here]

    def reachable(g, node, env):
        return any(all(_reachable_under(conds, env, leaf_in(h)) for h, conds in alt) for alt in chain(g, node))
    idx = keys.index("featuretype") if "featuretype" in keys else None
    ctx.require(idx is not None, "reader has no featuretype field")
    import itertools
    for g, w, fields, _sep in records:
        ft = fields[idx] if idx < len(fields) else None
        if not (ft and ft[0] == "const" and ft[1] in ("transcript", "gene")):
            continue
        role = ft[1]
        flag = "dt" if role == "transcript" else "dg"
        bad = None
        for dt, dg in itertools.product((False, True), repeat=2):
            env = {"dt": dt, "dg": dg}
            if reachable(g, w, env) != (not env[flag]):
                bad = env
                break
        ctx.ob("R3", bad is None, "the derived %s is written exactly when %s is off" % (role, "disable_infer_" + role + "s"), node=w, func=g,
               sig="derived %s written iff not disable_infer_%ss" % (role, role) if bad is None else
               "derived %s: wrong under disable_infer_transcripts=%s, disable_infer_genes=%s" % (role, bad["dt"], bad["dg"]))
    # both flags: nothing runs
    both = {"dt": True, "dg": True}
    ran = []
    for x in execute_sites(ctx, [f]):
        if reachable(f, x.call, both):
            ran.append(x.call.lineno)
    for c in calls_in(f.node):
        if call_attr(c) == "write" and reachable(f, c, both):
            ran.append(c.lineno)
    ctx.ob("R3", not ran, "with both flags set nothing is inferred (no statement is executed, nothing is written)", func=f,
           sig="both flags -> nothing executed" if not ran else "statements still run under both flags (%d sites)" % len(ran))


def r4(ctx):
    f = gtf_method(ctx, "_update_relations")
    hs = []
    for h in [n for n in ast.walk(f.node) if isinstance(n, ast.ExceptHandler) and n.type is not None and "IntegrityError" in norm(n.type)]:
        hs.append(h)
    ctx.floor("R4", len(hs), 1, "collision handlers around the derived-feature insert")
    for h in hs:
        calls = [c for c in ast.walk(h) if isinstance(c, ast.Call) and call_attr(c) == "_do_merge"]
        ok = bool(calls) and all(len(c.args) >= 2 and const_str(c.args[1]) == "merge" or const_str(kwarg(c, "merge_strategy") or ast.Constant(value=None)) == "merge" for c in calls)
        ctx.ob("R4", ok, "a derived feature colliding with a stored id is resolved with the strategy 'merge'", node=h, func=f,
               sig="derived collision strategy %s" % ([norm(c.args[1]) for c in calls if len(c.args) >= 2] or None))
        upd = [s for s in execute_sites(ctx, [f]) if h in list(parents(s.call)) and s.stmts and s.stmts[0].verb == "UPDATE"]
        ok = bool(upd) and all(isinstance(s.stmts[0].sets, list) and [c_.lower() for c_, _ in s.stmts[0].sets] == ["attributes"] for s in upd)
        ctx.ob("R4", ok, "the merged attributes are written back to the stored row", node=h, func=f,
               sig="derived collision writes %s" % ([[c_ for c_, _ in s.stmts[0].sets] if isinstance(s.stmts[0].sets, list) else s.stmts[0].sets for s in upd] or None), nontrivial=False)


def r5_format_routing(ctx, rule="R5"):
    """Format routing as a decision table obtained by abstract evaluation (partitioned dataflow) of create_db and
    FeatureDB.update for every (force_gff, fmt, id_spec given or not): which importer class is constructed and with which
    id_spec -- however the choice is spelled (cascade, lookup table, flags computed beforehand)."""
    from ..absint import Interp, Sym, Opaque, Unsupported
    GTF_DEFAULT = {"gene": "gene_id", "transcript": "transcript_id"}
    cd = require_func(ctx, "create.create_db")
    up = require_func(ctx, "interface.FeatureDB.update")
    results = {}
    CRE = {"create._GFFDBCreator": "_GFFDBCreator", "create._GTFDBCreator": "_GTFDBCreator"}

    def outcomes(func, args, self_obj=None):
        try:
            traces = Interp(ctx).run(func, args, self_obj=self_obj)
        except Unsupported as e:
            ctx.require(False, "%s outside the analysable subset: %s" % (func.qual, e))
        out = set()
        for t in traces:
            cons = [(CRE[e[1]], e[3]) for e in t.events if e[0] == "construct" and e[1] in CRE]
            if cons:
                for name, kw in cons:
                    out.add((name, _freeze(kw.get("id_spec")), tuple(sorted((k, _freeze(v)) for k, v in kw.items() if k in ("transcript_key", "gene_key", "subfeature")))))
            elif t.result[0] == "raise":
                out.add(("raise", t.result[1], ()))
        return out
    tk, gk, sf = Sym("tk", "str", True), Sym("gk", "str", True), Sym("sf", "str", True)
    for func, has_force in ((cd, True), (up, False)):
        for force in ((False, True) if has_force else (False,)):
            for fmt in ("gff3", "gtf", "other"):
                for given in (False, True):
                    spec = Sym("spec", "any", True) if given else None
                    if func is cd:
                        got = outcomes(cd, {"data": Sym("data", "str", True), "dbfn": Sym("dbfn", "str", True), "force_gff": force, "dialect": {"fmt": fmt},
                                            "id_spec": spec, "gtf_transcript_key": tk, "gtf_gene_key": gk, "gtf_subfeature": sf})
                    else:
                        so = Opaque("self", "obj")
                        so.attrs["dialect"] = {"fmt": fmt}
                        a = {"data": Sym("data", "str", True)}
                        if given:
                            a["id_spec"] = spec
                        got = outcomes(up, a, self_obj=so)
                    want = "_GFFDBCreator" if (force or fmt == "gff3") else "_GTFDBCreator" if fmt == "gtf" else None
                    classes = sorted({g[0] for g in got})
                    if want is None:
                        ok = all(c == "raise" for c in classes)
                        ctx.ob(rule, ok, "%s: a dialect that is neither gff3 nor gtf selects no importer" % func.name, func=func,
                               sig="%s routing fmt=other -> %s" % (func.name, classes or None), nontrivial=False)
                        continue
                    ctx.ob(rule, classes == [want], "%s: fmt=%s%s is imported by %s" % (func.name, fmt, ", force_gff" if force else "", want), func=func,
                           sig="%s routing fmt=%s force_gff=%s -> %s" % (func.name, fmt, force, classes or None))
                    ids = sorted({repr(g[1]) for g in got if g[0] == want})
                    want_id = _freeze(spec) if given else _freeze("ID" if want == "_GFFDBCreator" else GTF_DEFAULT)
                    ctx.ob(rule, ids == [repr(want_id)], "%s: %s for %s" % (func.name, "a given id_spec is passed on unchanged" if given else "default id_spec is %r" % (want_id,), want),
                           func=func, sig="%s id_spec for %s (%s) = %s" % (func.name, want, "given" if given else "default", ", ".join(ids) or None))
                    results[(func.name, fmt, force, given)] = (classes, ids)
                    if func is cd and want == "_GTFDBCreator" and not given:
                        keys = {g[2] for g in got if g[0] == want}
                        okk = keys == {(("gene_key", _freeze(gk)), ("subfeature", _freeze(sf)), ("transcript_key", _freeze(tk)))}
                        ctx.ob(rule, okk, "custom transcript/gene keys and subfeature type reach the GTF importer", func=cd,
                               sig="GTF importer receives gtf_transcript_key, gtf_gene_key, gtf_subfeature" if okk else "GTF importer kwargs %s" % sorted(keys))
    for fmt in ("gff3", "gtf"):
        for given in (False, True):
            a, b = results.get(("create_db", fmt, False, given)), results.get(("update", fmt, False, given))
            ctx.ob(rule, a == b and a is not None, "create_db and update route fmt=%s alike" % fmt, func=up,
                   sig="routing agreement fmt=%s id_spec %s: %s" % (fmt, "given" if given else "default", "same" if a == b else "%s vs %s" % (a, b)), nontrivial=False)


def _freeze(v):
    from ..absint import Sym
    if isinstance(v, Sym):
        return "<%s>" % v.name
    if isinstance(v, dict):
        return tuple(sorted((k, _freeze(x)) for k, x in v.items()))
    if isinstance(v, (list, tuple)):
        return tuple(_freeze(x) for x in v)
    return v


def check(ctx):
    ctx.explanation = (
        "The GTF importer's create() is evaluated by the abstract evaluator against a model database (relational evaluator for the SQL used, "
        "including the DISTINCT pair query with its sub-select and the MIN/MAX extent queries; in-memory intermediate file): a family with two "
        "genes on two chromosomes, interleaved lines, an exon whose end lies beyond that of the last-starting exon, a transcript without exons, "
        "under all four combinations of the disable_infer_* flags and shuffled line orders; a file with explicit gene/transcript lines; custom "
        "transcript/gene keys and subfeature type; an id shared by a gene and an exon-less transcript. Relations, derived features (type, "
        "seqid, extent, strand, bin, id attribute) and the fate of explicit lines are compared with a reference model of the statement. Format "
        "routing is a decision table obtained by abstract evaluation of create_db and FeatureDB.update over force_gff x fmt x id_spec "
        "given/absent. gffutils and sqlite3 are not imported or run. Does not decide 'for every GTF file'.")
    sch = schema(ctx)
    r_scenario(ctx)
    r5_format_routing(ctx)


# ------------------------------------------------------------------------------------------------ scenario rules
def r_scenario(ctx):
    """The GTF importer evaluated on the model database (create(): tables, lines, relations, derived features through the
    intermediate file, finalisation) and compared with a reference model of the statement."""
    import random
    from . import scen
    from ..binsmodel import spec_bins
    fu = require_func(ctx, "create._GTFDBCreator._update_relations")
    fp = require_func(ctx, "create._GTFDBCreator._populate_from_lines")
    keys = list(ctx.folder.const("constants", "_keys"))
    rnd = random.Random(7)
    runs = []
    fam = scen.gtf_lines("family")
    for ig in (False, True):
        for it_ in (False, True):
            runs.append(("family, disable_infer_genes=%s, disable_infer_transcripts=%s" % (ig, it_), "family", None, dict(disable_infer_genes=ig, disable_infer_transcripts=it_), {}))
    runs.append(("explicit gene and transcript lines", "explicit", None, {}, {}))
    runs.append(("an id shared by a gene and an exon-less transcript", "shared-id", None, {}, {}))
    for k in range(2 if ctx.tier == "quick" else 12):
        o = list(range(len(fam)))
        rnd.shuffle(o)
        runs.append(("family, line order %s" % "".join(str(i + 1) for i in o), "family", o, {}, {}))
    runs.append(("custom keys (tx / gn) and subfeature CDS", "custom", None, dict(transcript_key="tx", gene_key="gn", subfeature="CDS",
                                                                                    id_spec={"gene": "gn", "transcript": "tx"}), dict(tkey="tx", gkey="gn", subfeature="CDS")))
    n = 0
    for label, which, order, attrs, okw in runs:
        if which == "custom":
            lines = [scen.feature("C1", "CDS", 10, 20, {"gn": ["G"], "tx": ["T"]}), scen.feature("C2", "exon", 1, 50, {"gn": ["G"], "tx": ["T"]}),
                     scen.feature("C3", "CDS", 30, 40, {"gn": ["G"], "tx": ["T"]}), scen.feature("C4", "CDS", 100, 120, {"gene_id": ["zz"], "transcript_id": ["yy"]})]
        else:
            lines = scen.gtf_lines(which)
            if order is not None:
                lines = [lines[i] for i in order]
        im, t = scen.run_create(ctx, "_GTFDBCreator", lines, **attrs)
        n += 1
        if not scen.returned(ctx, t, "GTF create() (%s)" % label, func=fu, rule="R2"):
            continue
        ids = [f.attrs["id"] for f in lines]
        derived, rel = scen.expected_gtf(lines, ids, infer_genes=not attrs.get("disable_infer_genes", False), infer_transcripts=not attrs.get("disable_infer_transcripts", False), **okw)
        got_rel = im.table("relations")
        okr = set(got_rel) == rel and len(got_rel) == len(set(got_rel))
        ctx.ob("R1", okr, "relations: every line is a level-1 child of its transcript and a level-2 child of its gene, each transcript a level-1 child of its gene -- "
               "once each, nothing else, and no feature related to itself (%s)" % label, func=fp,
               sig="%s: relations equal the model" % label if okr else "%s: missing %s, unexpected %s" % (label, sorted(rel - set(got_rel))[:3], sorted(set(got_rel) - rel)[:3]))
        selfrel = [r for r in got_rel if r[0] == r[1]]
        ctx.ob("R6", not selfrel, "no feature is its own parent or child (%s)" % label, func=fp, sig="%s: no self relation" % label if not selfrel else "%s: %s" % (label, selfrel[:2]), nontrivial=False)
        rows = [scen.decoded_row(r, keys) for r in im.table("features", keys)]
        by = {}
        for r in rows:
            by.setdefault(r["id"], []).append(r)
        bad = None
        for did, (ft, seqid, start, end, strand) in sorted(derived.items()):
            got = by.get(did, [])
            if len(got) != 1:
                bad = "derived %s %s is stored %d times" % (ft, did, len(got))
                break
            g = got[0]
            want = dict(featuretype=ft, seqid=seqid, start=start, end=end, strand=strand, bin=spec_bins(start, end, "gff", True))
            diff = sorted(k for k, v in want.items() if g.get(k) != v)
            if diff:
                bad = "derived %s %s: %s = %s, the model has %s" % (ft, did, diff, [g.get(k) for k in diff], [want[k] for k in diff])
                break
            tk, gk = okw.get("tkey", "transcript_id"), okw.get("gkey", "gene_id")
            a = g.get("attributes")
            if not isinstance(a, dict) or (ft == "transcript" and a.get(tk) != [did]) or (ft == "gene" and a.get(gk) != [did]):
                bad = "derived %s %s carries attributes %r" % (ft, did, a)
                break
        extra = sorted(set(map(str, by)) - set(map(str, ids)) - set(derived))
        if bad is None and extra:
            bad = "unexpected feature(s) %s" % extra[:3]
        ctx.ob("R2", bad is None, "one derived transcript per transcript id owning a subfeature and one derived gene per gene id, spanning exactly min(start)..max(end) of the "
               "subfeatures on their seqid and strand, binned by their own extent, carrying their id; none for ids without subfeatures, none when disabled (%s)" % label, func=fu,
               sig="%s: derived features equal the model" % label if bad is None else "%s: %s" % (label, bad))
        if which == "explicit":
            g1 = by.get("g1", [])
            t1 = by.get("t1", [])
            ok = len(g1) == 1 and len(t1) == 1 and g1[0]["start"] == 90 and g1[0]["end"] == 1200 and t1[0]["start"] == 95 and g1[0]["source"] == "src" \
                and isinstance(g1[0]["attributes"], dict) and g1[0]["attributes"].get("Name") == ["G1"] and g1[0]["attributes"].get("gene_id") == ["g1"] \
                and isinstance(t1[0]["attributes"], dict) and t1[0]["attributes"].get("tag") == ["basic"]
            ctx.ob("R4", ok, "gene / transcript lines present in the file stay the single feature under their id, with the file's own coordinates and attributes (a derived twin is merged into them)", func=fu,
                   sig="explicit gene and transcript kept" if ok else "explicit lines: gene %s transcript %s" % ([(r["start"], r["end"], r["source"], r["attributes"]) for r in g1], [(r["start"], r["end"], r["attributes"]) for r in t1]))
    ctx.floor("R2", n, 8, "GTF import scenarios")
