"""C03 -- GTF import: per-line relations, inferred extents, flags, routing."""
import ast

from .. import sql as S
from ..cfg import cfg_of
from ..model import norm, parents, enclosing, stmt_of
from ..util import require_func, execute_sites, calls_in, call_attr, is_name, const_str, kwarg, assignments_to
from .c02 import feature_loop, schema, insert_columns

SPEC_PAIR = ("SELECT r0.parent, r1.parent FROM relations r0 JOIN features f0 ON f0.id = r0.child "
             "JOIN relations r1 ON r1.child = r0.parent WHERE f0.featuretype = :sub AND r0.level = 1 AND r1.level = 1")
SPEC_EXTENT = ("SELECT MIN(f.start), MAX(f.end), f.strand, f.seqid FROM features f JOIN relations r ON f.id = r.child "
               "WHERE r.parent = :id AND f.featuretype = :sub")


def gtf_cls(ctx):
    return ctx.proj.cls("create._GTFDBCreator")


def gtf_method(ctx, name):
    c = gtf_cls(ctx)
    f = c.methods.get(name)
    ctx.require(f is not None, "anchor vanished: _GTFDBCreator.%s" % name)
    ctx.touch(f)
    return f


def resolve_expr(expr, at_node, func, cfg, depth=0):
    """Substitute local names by their reaching definition (the last plain
    assignment in source order that dominates `at_node`), recursively."""
    if depth > 6:
        return expr

    class T(ast.NodeTransformer):
        def visit_Name(self, n):
            if not isinstance(n.ctx, ast.Load) or n.id == "self":
                return n
            tn = cfg.node_for(at_node)
            if tn is None:
                return n
            asg = [a for a in assignments_to(func.node, n.id) if cfg.node_for(a) is not None]
            ids = {cfg.node_for(a).id for a in asg}
            reaching = []
            for a in asg:
                an = cfg.node_for(a).id
                if an == tn.id:
                    continue
                if tn.id in cfg.reachable(an, avoid=ids - {an, tn.id}):
                    reaching.append(a)
            plain = [a for a in reaching if isinstance(a, ast.Assign) and len(a.targets) == 1 and is_name(a.targets[0], n.id)]
            if len(plain) != len(reaching):
                return n
            nonnull = [a for a in plain if not (isinstance(a.value, ast.Constant) and a.value.value is None)]
            if len(plain) > 1 and len(nonnull) == 1:
                # a None initialiser is excluded when the use is guarded by `name is not None`
                guarded = False
                for p in parents(at_node):
                    if isinstance(p, ast.If) and norm(p.test) in ("%s is not None" % n.id, n.id):
                        guarded = True
                if not guarded:
                    return n
                plain = nonnull
            if len(plain) != 1 or (isinstance(plain[0].value, ast.Constant) and plain[0].value.value is None):
                return n
            best = plain[0]
            return resolve_expr(best.value, best, func, cfg, depth + 1)
    import copy
    return T().visit(copy.deepcopy(expr))


def r1_r6(ctx, sch):
    f = gtf_method(ctx, "_populate_from_lines")
    loop, fv = feature_loop(ctx, f)
    cfg = cfg_of(f)
    sites = [s for s in execute_sites(ctx, [f]) if s.stmts and s.stmts[0].verb == "INSERT" and s.stmts[0].table.lower() == "relations"]
    ctx.floor("R1", len(sites), 1, "relation INSERT sites in the GTF importer")
    s = sites[0]
    st = s.stmts[0]
    cols = insert_columns(st, sch)
    ok = cols[:3] == ["parent", "child", "level"] and len(st.values) == 3 and all(v[0] == "param" for v in st.values)
    ctx.ob("R1", ok, "relation rows are (parent, child, level) triples", node=s.call, func=f, sig="GTF relation insert columns %s" % cols)
    ctx.ob("R1", st.or_clause == "ignore", "relation rows are inserted OR IGNORE (the gene-transcript link recurs on every line)", node=s.call, func=f,
           sig="GTF relation insert conflict clause: %s" % (st.or_clause or "none"))
    lst = s.params.id if isinstance(s.params, ast.Name) else None
    ctx.require(lst, "GTF relation insert is not fed from a local list")
    apps = [c for c in calls_in(f.node) if call_attr(c) == "append" and is_name(c.func.value, lst) and loop in list(parents(c))]
    ctx.floor("R1", len(apps), 3, "relation tuples appended per GTF line")
    T = "%s.attributes[self.transcript_key][0]" % fv
    G = "%s.attributes[self.gene_key][0]" % fv
    me = "%s.id" % fv
    expected = {(T, me, "1"): "line -> transcript, level 1", (G, me, "2"): "line -> gene, level 2", (G, T, "1"): "transcript -> gene, level 1"}
    got = {}
    for a in apps:
        tup = a.args[0] if a.args else None
        if not isinstance(tup, ast.Tuple) or len(tup.elts) != 3:
            ctx.ob("R1", False, "each appended relation is a (parent, child, level) tuple", node=a, func=f, sig="appended %s" % norm(a))
            continue
        res = tuple(norm(resolve_expr(e, a, f, cfg)) for e in tup.elts)
        got[res] = a
    for k, what in expected.items():
        ctx.ob("R1", k in got, "every line adds the relation %s" % what, node=got.get(k, loop), func=f,
               sig="relation %s" % what if k in got else "missing relation (%s); appended: %s" % (what, sorted(got)))
    for k, a in got.items():
        if k not in expected:
            ctx.ob("R1", False, "only the three documented relations are added per line", node=a, func=f, sig="unexpected relation tuple %s" % (k,))
    reset = [n for n in assignments_to(f.node, lst) if isinstance(n, ast.Assign) and isinstance(n.value, ast.List) and not n.value.elts
             and loop in list(parents(n))]
    ctx.ob("R1", bool(reset), "the relation list is rebuilt for every line", func=f, sig="relations list reset per line" if reset else "relations list not reset inside the loop")
    # id assigned before
    idasg = [n for n in ast.walk(loop) if isinstance(n, ast.Assign) and any(norm(t) == me for t in n.targets)]
    ctx.floor("R1", len(idasg), 1, "assignments of the feature id in the GTF importer loop")
    dom = all(cfg.dominates(cfg.node_for(idasg[0]).id, cfg.node_for(a).id) for a in apps)
    ctx.ob("R1", dom, "the id is assigned before the relations of the line are built", func=f,
           sig="id assignment dominates the relation tuples" if dom else "relation tuples not dominated by the id assignment")
    # ------------------------------------------------------------------ R6
    upd = gtf_method(ctx, "_update_relations")
    sweep = False
    for x in execute_sites(ctx, [f, upd]):
        for st2 in (x.stmts or []):
            if st2.verb == "DELETE" and st2.table.lower() == "relations" and st2.where is not None:
                w = st2.where
                if w[0] == "cmp" and w[1] == "=" and {w[2][0], w[3][0]} == {"col"} and {w[2][2].lower(), w[3][2].lower()} == {"parent", "child"}:
                    sweep = True
    for k, a in got.items():
        if k[1] != me or k not in expected:
            continue
        parent_e = a.args[0].elts[0]
        guarded = False
        for p in parents(a):
            if p is loop:
                break
            if isinstance(p, ast.If):
                for n in ast.walk(p.test):
                    if isinstance(n, ast.Compare) and len(n.ops) == 1 and isinstance(n.ops[0], (ast.NotEq,)):
                        sides = {norm(resolve_expr(n.left, a, f, cfg)), norm(resolve_expr(n.comparators[0], a, f, cfg))}
                        if sides == {k[0], me}:
                            guarded = True
        what = "transcript" if k[0] == T else "gene"
        ctx.ob("R6", guarded or sweep,
               "an explicit %s line (whose own id is the value of its %s_id attribute) is never made its own parent/child: the tuple "
               "(%s, f.id, %s) needs a guard parent != f.id, or self-relations are swept before the import returns" % (what, what, norm(parent_e), k[2]),
               node=a, func=f,
               sig="self-relation possible: (%s value, f.id, %s) appended without comparing it with f.id" % (what + "_key", k[2])
               if not (guarded or sweep) else "self-relation excluded for the %s link" % what,
               detail=None if (guarded or sweep) else "a `%s` line with %s_id X gets id X (default id_spec) and the row (X, X, %s)" % (what, what, k[2]))


def _select_sites(ctx, funcs):
    return [s for s in execute_sites(ctx, funcs) if s.stmts and s.stmts[0].verb == "SELECT"]


def r2(ctx, sch):
    f = gtf_method(ctx, "_update_relations")
    nested = [g for lst in f.nested.values() for g in lst]
    # helpers of the same class that _update_relations calls are part of the computation
    helpers_ = []
    for c in calls_in(f.node):
        for g in ctx.proj.resolve_call(c, f)[0]:
            if g.cls is not None and g is not f and g.name not in ("_insert", "_do_merge", "_id_handler", "_replace") and g not in helpers_:
                helpers_.append(g)
    sels = _select_sites(ctx, [f])
    hsels = _select_sites(ctx, helpers_)
    pair = [s for s in sels if s.stmts[0].tables().count("relations") >= 2]
    is_ext = lambda s: any(e[0] == "call" and e[1] in ("min", "max") for e, _a in s.stmts[0].cols)
    ext = [s for s in sels if is_ext(s)]
    hext = [s for s in hsels if is_ext(s)]
    ctx.floor("R2", len(pair), 1, "transcript/gene pair queries")
    pymm = [c for g in [f] + helpers_ for c in calls_in(g.node) if isinstance(c.func, ast.Name) and c.func.id in ("min", "max")]
    ctx.ob("R2", bool(ext or hext or pymm),
           "the extent of a derived transcript/gene is the minimum start and the maximum end over its subfeature children (MIN/MAX aggregates)", func=f,
           sig="extents computed with MIN(start)/MAX(end)" if (ext or hext or pymm) else "derived extents are not computed as MIN(start) .. MAX(end)",
           detail=None if (ext or hext or pymm) else "e.g. 'first row's start, last row's end under ORDER BY start, end' is wrong for nested or overlapping exons")
    for s in hext:
        # extent query factored into a helper: aggregates and join shape are still decidable, the record flow is not followed
        try:
            got = S.to_cq(s.stmts[0], sch, {0: "id", 1: "sub"})
            spec_e = S.to_cq(S.parse(SPEC_EXTENT), sch)
            same_body = S.cq_equivalent(_with_proj(got, []), _with_proj(spec_e, []))
            agg = sorted((t[1], _strip_alias(t[2])) for t in got.proj if t[0] == "agg")
            ctx.ob("R2", agg == [("max", "end"), ("min", "start")] and same_body, "extent helper %s aggregates MIN(start)/MAX(end) over the subfeature children of its argument" % s.func.name,
                   node=s.call, func=s.func, sig="%s: extent helper %s" % (s.func.name, "≅ specification" if same_body and agg == [("max", "end"), ("min", "start")] else "differs: %s" % got.describe()))
        except S.SQLError as e:
            ctx.ob("R2", False, "extent helper query normalises", node=s.call, func=s.func, sig="%s: %s" % (s.func.name, e))
    # ---- pair query
    s = pair[0]
    spec = S.to_cq(S.parse(SPEC_PAIR), sch)
    pname = {0: "sub"}
    ok_p = isinstance(s.params, ast.Tuple) and len(s.params.elts) == 1 and norm(s.params.elts[0]) == "self.subfeature"
    ctx.ob("R2", ok_p, "the pair query is restricted to the configured subfeature type", node=s.call, func=f,
           sig="pair query bound to %s" % (norm(s.params) if s.params is not None else None))
    try:
        got = S.to_cq(s.stmts[0], sch, pname)
        eq = S.cq_equivalent(got, spec)
        ctx.ob("R2", eq, "pairs = transcripts that own a subfeature at level 1, each with its level-1 parent (the gene)", node=s.call, func=f,
               sig="pair query ≅ specification" if eq else "pair query differs: " + got.describe(),
               detail=None if eq else "expected " + spec.describe())
        by_gene = bool(got.order) and len(got.proj) == 2 and _canon(got, got.order[0][0]) == _canon(got, got.proj[1])
        ctx.ob("R2", by_gene, "pairs are ordered by gene, so 'one derived gene per gene id' can be decided on consecutive rows", node=s.call, func=f,
               sig="pair query ordered by the gene column" if by_gene else "pair query not ordered by the gene column")
    except S.SQLError as e:
        ctx.ob("R2", False, "pair query normalises", node=s.call, func=f, sig="pair query: %s" % e)
    ploop = None
    for n in ast.walk(f.node):
        if isinstance(n, ast.For) and isinstance(n.target, ast.Tuple) and len(n.target.elts) == 2 and isinstance(n.iter, ast.Name):
            recv = s.call.func.value
            if isinstance(recv, ast.Name) and recv.id == n.iter.id:
                ploop = n
    ctx.require(ploop is not None, "loop over the (transcript, gene) pairs not found")
    tvar, gvar = [e.id for e in ploop.target.elts]
    # ---- extent queries
    if not ext:
        return
    spec_e = S.to_cq(S.parse(SPEC_EXTENT), sch)
    roles = {}
    for s in ext:
        p = s.params
        ids = [norm(e) for e in p.elts] if isinstance(p, ast.Tuple) else []
        role = "transcript" if ids[:1] == [tvar] else "gene" if ids[:1] == [gvar] else None
        ok = role is not None and ids[1:] == ["self.subfeature"]
        ctx.ob("R2", ok, "an extent query is bound to (the transcript or gene id, the subfeature type)", node=s.call, func=f,
               sig="extent query bound to %s" % ids)
        if role is None:
            continue
        roles[role] = s
        try:
            got = S.to_cq(s.stmts[0], sch, {0: "id", 1: "sub"})
        except S.SQLError as e:
            ctx.ob("R2", False, "extent query normalises", node=s.call, func=f, sig="%s extent query: %s" % (role, e))
            continue
        # compare up to the order of the projection
        same_body = S.cq_equivalent(_with_proj(got, []), _with_proj(spec_e, []))
        projs = sorted(repr(_canon(got, t)) for t in got.proj)
        projs_spec = sorted(repr(_canon(spec_e, t)) for t in spec_e.proj)
        agg = sorted((t[1], _strip_alias(t[2])) for t in got.proj if t[0] == "agg")
        ok_agg = agg == [("max", "end"), ("min", "start")]
        ctx.ob("R2", ok_agg, "%s extent = MIN(start) .. MAX(end) over the subfeature children" % role, node=s.call, func=f,
               sig="%s extent aggregates %s" % (role, ["%s(%s)" % a for a in agg]))
        ctx.ob("R2", same_body, "%s extent ranges over features F joined to relations R on F.id = R.child with R.parent = id and "
               "F.featuretype = subfeature" % role, node=s.call, func=f,
               sig="%s extent query ≅ specification" % role if same_body else "%s extent query differs: %s" % (role, got.describe()))
        # unpack order = select order
        unpack = None
        for n in ast.walk(f.node):
            if isinstance(n, ast.Assign) and isinstance(n.targets[0], ast.Tuple) and isinstance(n.value, ast.Call) and \
                    call_attr(n.value) == "fetchone" and n.lineno > s.call.lineno and (unpack is None or n.lineno < unpack.lineno):
                unpack = n
        ctx.require(unpack is not None, "fetchone unpack for the %s extent not found" % role)
        names = [e.id for e in unpack.targets[0].elts]
        colterms = []
        for e, _al in s.stmts[0].cols:
            if e[0] == "call":
                colterms.append("%s(%s)" % (e[1], e[2][0][2].lower() if e[2] and e[2][0][0] == "col" else "?"))
            elif e[0] == "col":
                colterms.append(e[2].lower())
            else:
                colterms.append(S.show(e))
        var2col = dict(zip(names, colterms)) if len(names) == len(colterms) else {}
        ctx.ob("R2", bool(var2col), "the extent row is unpacked into as many names as columns selected", node=unpack, func=f,
               sig="%s extent unpack %d names / %d columns" % (role, len(names), len(colterms)), nontrivial=False)
        _record_agreement(ctx, f, nested, role, tvar if role == "transcript" else gvar, var2col, unpack)
    for role in ("transcript", "gene"):
        ctx.ob("R2", role in roles, "there is an extent query for inferred %ss" % role, func=f,
               sig="%s extent query present" % role if role in roles else "%s extent query missing" % role, nontrivial=False)


def _strip_alias(t):
    return t[2] if isinstance(t, tuple) and t[0] == "col" else t


def _canon(cq, t):
    cls, _ = cq.classes()
    for c in cls:
        if t in c:
            return min(c, key=repr)
    return t


def _with_proj(cq, proj):
    import copy
    c = copy.copy(cq)
    c.proj = list(proj)
    return c


def _record_agreement(ctx, f, nested, role, idvar, var2col, after):
    """The list written to the temp file and the reader's `keys` list agree
    position by position."""
    write_list = None
    for c in calls_in(f.node):
        if call_attr(c) == "write" and c.lineno > after.lineno:
            for n in ast.walk(c):
                if isinstance(n, ast.List) and len(n.elts) >= 6:
                    if write_list is None or n.lineno < write_list.lineno:
                        write_list = n
            if write_list is not None:
                break
    ctx.require(write_list is not None, "record written for the derived %s not found" % role)
    ctx.require(nested, "reader of the derived-feature file not found")
    g = nested[0]
    ctx.touch(g)
    keys = None
    for n in ast.walk(g.node):
        if isinstance(n, ast.Assign) and isinstance(n.value, ast.List) and all(isinstance(e, ast.Constant) for e in n.value.elts) and len(n.value.elts) >= 6:
            keys = [e.value for e in n.value.elts]
    ctx.require(keys is not None, "reader `keys` list not found")
    ok = len(keys) == len(write_list.elts)
    ctx.ob("R2", ok, "writer and reader of the derived-feature file agree on the number of fields (%s)" % role, node=write_list, func=f,
           sig="%s record: %d fields written, %d read" % (role, len(write_list.elts), len(keys)))
    if not ok:
        return
    want = {"start": "min(start)", "end": "max(end)", "strand": "strand", "seqid": "seqid"}
    for k, e in zip(keys, write_list.elts):
        if k in want:
            col = var2col.get(e.id) if isinstance(e, ast.Name) else None
            ok = col == want[k]
            ctx.ob("R2", ok, "field `%s` of the derived %s is %s of its subfeatures" % (k, role, want[k].upper()), node=e, func=f,
                   sig="%s.%s := %s" % (role, k, col if col else norm(e)))
        elif k == "featuretype":
            ok = isinstance(e, ast.Constant) and e.value == role
            ctx.ob("R2", ok, "the derived %s is typed '%s'" % (role, role), node=e, func=f, sig="%s.featuretype := %s" % (role, norm(e)))
        elif k == "parent":
            ok = isinstance(e, ast.Name) and e.id == idvar
            ctx.ob("R2", ok, "the record's first field is the %s id" % role, node=e, func=f, sig="%s record id field := %s" % (role, norm(e)), nontrivial=False)
        elif k == "attributes":
            ok = isinstance(e, ast.Call) and call_attr(e) == "_jsonify"
            ctx.ob("R2", ok, "attributes travel as JSON", node=e, func=f, sig="%s.attributes := %s" % (role, norm(e)), nontrivial=False)
    # attributes of the derived feature carry the id under the configured key
    attrs = None
    for n in ast.walk(f.node):
        if isinstance(n, ast.Assign) and isinstance(n.value, ast.Dict) and n.lineno > after.lineno and (attrs is None or n.lineno < attrs.lineno):
            attrs = n
    if attrs is not None:
        kv = {norm(k): norm(v) for k, v in zip(attrs.value.keys, attrs.value.values)}
        key = "self.transcript_key" if role == "transcript" else "self.gene_key"
        ok = kv.get(key) == "[%s]" % idvar
        ctx.ob("R2", ok, "the derived %s carries its id under the configured key, hence is retrievable by that id" % role, node=attrs, func=f,
               sig="%s attributes %s" % (role, sorted(kv.items())))


def r3(ctx):
    f = gtf_method(ctx, "_update_relations")
    cfg = cfg_of(f)
    flags = {"transcript": "self.disable_infer_transcripts", "gene": "self.disable_infer_genes"}
    writes = {}
    for c in calls_in(f.node):
        if call_attr(c) != "write":
            continue
        for n in ast.walk(c):
            if isinstance(n, ast.List):
                for e in n.elts:
                    if isinstance(e, ast.Constant) and e.value in flags:
                        writes[e.value] = c
    for role, flag in flags.items():
        c = writes.get(role)
        ctx.require(c is not None, "write of the derived %s not found" % role)
        tests = []
        child = c
        for p in parents(c):
            if p is f.node:
                break
            if isinstance(p, ast.If):
                pol = any(child is s_ for s_ in p.body)
                tests.append((norm(p.test), pol))
            child = p
        flag_tests = [(t, pol) for t, pol in tests if "disable_infer" in t]
        ok = flag_tests == [("not " + flag, True)]
        ctx.ob("R3", ok, "the derived %s is written exactly when %s is off" % (role, flag.split(".")[1]), node=c, func=f,
               sig="derived %s guarded by %s" % (role, flag_tests))
    first = f.node.body[0]
    while isinstance(first, ast.Expr) and isinstance(first.value, ast.Constant):
        first = f.node.body[f.node.body.index(first) + 1]
    t = norm(first.test) if isinstance(first, ast.If) else None
    ok = isinstance(first, ast.If) and set(t.replace("(", "").replace(")", "").split(" and ")) == set(flags.values()) and \
        isinstance(first.body[0], ast.Return)
    ctx.ob("R3", ok, "with both flags set nothing is inferred (return before any work)", node=first, func=f,
           sig="both flags -> return" if ok else "no early return under both flags (first statement: %s)" % t)


def r4(ctx):
    f = gtf_method(ctx, "_update_relations")
    hs = []
    for h in [n for n in ast.walk(f.node) if isinstance(n, ast.ExceptHandler) and n.type is not None and "IntegrityError" in norm(n.type)]:
        hs.append(h)
    ctx.floor("R4", len(hs), 1, "collision handlers around the derived-feature insert")
    for h in hs:
        calls = [c for c in ast.walk(h) if isinstance(c, ast.Call) and call_attr(c) == "_do_merge"]
        ok = bool(calls) and all(len(c.args) >= 2 and const_str(c.args[1]) == "merge" or const_str(kwarg(c, "merge_strategy") or ast.Constant(value=None)) == "merge" for c in calls)
        ctx.ob("R4", ok, "a derived feature colliding with a stored id is resolved with the strategy 'merge'", node=h, func=f,
               sig="derived collision strategy %s" % ([norm(c.args[1]) for c in calls if len(c.args) >= 2] or None))
        upd = [s for s in execute_sites(ctx, [f]) if h in list(parents(s.call)) and s.stmts and s.stmts[0].verb == "UPDATE"]
        ok = bool(upd) and all(isinstance(s.stmts[0].sets, list) and [c_.lower() for c_, _ in s.stmts[0].sets] == ["attributes"] for s in upd)
        ctx.ob("R4", ok, "the merged attributes are written back to the stored row", node=h, func=f,
               sig="derived collision writes %s" % ([[c_ for c_, _ in s.stmts[0].sets] if isinstance(s.stmts[0].sets, list) else s.stmts[0].sets for s in upd] or None), nontrivial=False)


class _Ev:
    """Tiny evaluator for routing tests over {force_gff, fmt}."""

    def __init__(self, env, fmt_exprs):
        self.env, self.fmt_exprs = env, fmt_exprs

    def ev(self, n):
        if isinstance(n, ast.BoolOp):
            vals = [self.ev(v) for v in n.values]
            return all(vals) if isinstance(n.op, ast.And) else any(vals)
        if isinstance(n, ast.UnaryOp) and isinstance(n.op, ast.Not):
            return not self.ev(n.operand)
        if isinstance(n, ast.Compare) and len(n.ops) == 1:
            a, b = self.val(n.left), self.val(n.comparators[0])
            if isinstance(n.ops[0], ast.Eq):
                return a == b
            if isinstance(n.ops[0], ast.NotEq):
                return a != b
            if isinstance(n.ops[0], ast.In):
                return a in b
        if isinstance(n, ast.Name) and n.id in self.env:
            return bool(self.env[n.id])
        raise ValueError(norm(n))

    def val(self, n):
        if isinstance(n, ast.Constant):
            return n.value
        if norm(n) in self.fmt_exprs:
            return self.env["fmt"]
        if isinstance(n, ast.Name) and n.id in self.env:
            return self.env[n.id]
        if isinstance(n, (ast.Tuple, ast.List)):
            return [self.val(e) for e in n.elts]
        raise ValueError(norm(n))


def _cascade(node):
    """[(test, body)] of an if/elif/else chain; else has test None."""
    out = []
    while True:
        out.append((node.test, node.body))
        if len(node.orelse) == 1 and isinstance(node.orelse[0], ast.If):
            node = node.orelse[0]
            continue
        if node.orelse:
            out.append((None, node.orelse))
        break
    return out


def _creator_in(body, proj, func):
    for st in body:
        for n in ast.walk(st):
            if isinstance(n, (ast.Name, ast.Attribute)):
                d = proj.dotted(n, func.module, func)
                if d in ("create._GFFDBCreator", "create._GTFDBCreator"):
                    return d.split(".")[-1]
    for st in body:
        if isinstance(st, ast.Raise):
            return "raise"
    return None


def _default_idspec(body, ctx, func):
    for st in body:
        for n in ast.walk(st):
            if isinstance(n, ast.Assign):
                tgt = norm(n.targets[0])
                if tgt in ("id_spec", "kwargs['id_spec']"):
                    v = n.value
                    if isinstance(v, ast.BoolOp) and isinstance(v.op, ast.Or):
                        v = v.values[-1]
                    return ctx.folder.try_fold(v, func.module.name, default=norm(v))
    return None


def r5_format_routing(ctx, rule="R5"):
    GTF_DEFAULT = {"gene": "gene_id", "transcript": "transcript_id"}
    cd = require_func(ctx, "create.create_db")
    up = require_func(ctx, "interface.FeatureDB.update")
    results = {}
    for func, fmt_exprs, has_force in ((cd, {"dialect['fmt']"}, True), (up, {"self.dialect['fmt']"}, False)):
        casc = None
        for n in ast.walk(func.node):
            if isinstance(n, ast.If) and any(x in norm(n.test) for x in fmt_exprs):
                par = getattr(n, "_parent", None)
                if isinstance(par, ast.If) and n in par.orelse:
                    continue
                c = _cascade(n)
                if any(_creator_in(b, ctx.proj, func) in ("_GFFDBCreator", "_GTFDBCreator") for _t, b in c):
                    casc = c
                    break
        ctx.require(casc is not None, "format routing cascade not found in %s" % func.qual)
        for force in ((False, True) if has_force else (False,)):
            for fmt in ("gff3", "gtf", "other"):
                env = {"force_gff": force, "fmt": fmt}
                ev = _Ev(env, fmt_exprs)
                chosen, idd = None, None
                try:
                    for t, body in casc:
                        if t is None or ev.ev(t):
                            chosen = _creator_in(body, ctx.proj, func)
                            idd = _default_idspec(body, ctx, func)
                            break
                except ValueError as e:
                    ctx.require(False, "routing test outside the modelled subset in %s: %s" % (func.qual, e))
                want = "_GFFDBCreator" if (force or fmt == "gff3") else "_GTFDBCreator" if fmt == "gtf" else None
                if want is None:
                    ok = chosen in (None, "raise")
                    ctx.ob(rule, ok, "%s: a dialect that is neither gff3 nor gtf selects no importer" % func.name, func=func,
                           sig="%s routing fmt=other -> %s" % (func.name, chosen), nontrivial=False)
                    continue
                ctx.ob(rule, chosen == want, "%s: fmt=%s%s is imported by %s" % (func.name, fmt, ", force_gff" if force else "", want), func=func,
                       sig="%s routing fmt=%s force_gff=%s -> %s" % (func.name, fmt, force, chosen))
                want_id = "ID" if want == "_GFFDBCreator" else GTF_DEFAULT
                ctx.ob(rule, idd == want_id, "%s: default id_spec for %s is %r" % (func.name, want, want_id), func=func,
                       sig="%s default id_spec for %s = %r" % (func.name, want, idd))
                results[(func.name, fmt, force)] = (chosen, repr(idd))
    for fmt in ("gff3", "gtf"):
        a, b = results.get(("create_db", fmt, False)), results.get(("update", fmt, False))
        ctx.ob(rule, a == b and a is not None, "create_db and update route fmt=%s alike" % fmt, func=up,
               sig="routing agreement fmt=%s: %s" % (fmt, "same" if a == b else "%s vs %s" % (a, b)), nontrivial=False)
    # GTF keys forwarded
    want = {"transcript_key": "gtf_transcript_key", "gene_key": "gtf_gene_key", "subfeature": "gtf_subfeature"}
    found = {}
    for n in ast.walk(cd.node):
        if isinstance(n, ast.Call) and is_name(n.func, "dict"):
            for k in n.keywords:
                if k.arg in want:
                    found[k.arg] = norm(k.value)
    ctx.ob(rule, found == want, "custom transcript/gene keys and subfeature type reach the GTF importer", func=cd,
           sig="GTF importer kwargs %s" % sorted(found.items()))


def check(ctx):
    ctx.explanation = (
        "GTF importer decided structurally: the three relation tuples per line are resolved by reaching definitions and compared with "
        "{(transcript,f,1),(gene,f,2),(gene,transcript,1)}; the pair query and both extent queries are normalised to conjunctive queries "
        "and compared with the specification up to alias renaming; the record written to the temp file and the reader's key list are "
        "matched position by position through the SELECT list and the fetchone unpack; the disable_infer_* flags are the exact control "
        "dependences of the two writes; derived collisions use 'merge'; format routing is an order-sensitive decision table over "
        "{force_gff} x {gff3, gtf, other}. R6 demands a guard (or sweep) excluding parent == child. Does not decide numeric extents "
        "(aggregates are computed by SQLite over runtime rows).")
    sch = schema(ctx)
    r1_r6(ctx, sch)
    r2(ctx, sch)
    r3(ctx)
    r4(ctx)
    r5_format_routing(ctx)
