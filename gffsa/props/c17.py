"""C17 -- attribute container, JSON storage form, feature equality."""
import ast
import re

from ..cfg import cfg_of
from ..model import norm, parents, enclosing
from ..util import require_func, calls_in, call_attr, is_name, const_str, kwarg, guards_of

MUTATORS = {"append", "extend", "update", "pop", "popitem", "sort", "clear", "setdefault", "remove", "insert", "reverse", "__setitem__", "__delitem__"}


def r1(ctx):
    A = ctx.proj.cls("attributes.Attributes")
    n_writes = 0
    for m in A.methods.values():
        ctx.touch(m)
        for n in ast.walk(m.node):
            tg = []
            if isinstance(n, ast.Assign):
                tg = n.targets
            elif isinstance(n, (ast.AugAssign, ast.AnnAssign)):
                tg = [n.target]
            elif isinstance(n, ast.Delete):
                tg = n.targets
            for t in tg:
                s = norm(t)
                if s == "self._d":
                    ok = m.name == "__init__" and isinstance(n, ast.Assign) and norm(n.value) in ("dict()", "{}")
                    ctx.ob("R1", ok, "the underlying mapping is created empty, once, in __init__", node=n, func=m, sig="%s: %s" % (m.name, norm(n)))
                elif s.startswith("self._d["):
                    n_writes += 1
                    ok = (m.name == "__setitem__" and isinstance(n, ast.Assign)) or (m.name == "__delitem__" and isinstance(n, ast.Delete))
                    ctx.ob("R1", ok, "values enter the underlying mapping only through __setitem__ (and leave through __delitem__)", node=n, func=m,
                           sig="%s writes %s" % (m.name, s))
            if isinstance(n, ast.Call) and isinstance(n.func, ast.Attribute) and n.func.attr in MUTATORS and norm(n.func.value).startswith("self._d"):
                ctx.ob("R1", False, "values enter the underlying mapping only through __setitem__", node=n, func=m,
                       sig="%s mutates the raw mapping: %s" % (m.name, norm(n)))
    ctx.floor("R1", n_writes, 2, "writes of Attributes._d items")
    si = A.methods.get("__setitem__")
    ctx.require(si is not None, "Attributes.__setitem__ vanished")
    k, v = [p for p in si.params if p != "self"][:2]
    cfg = cfg_of(si)
    stores = [n for n in ast.walk(si.node) if isinstance(n, ast.Assign) and norm(n.targets[0]) == "self._d[%s]" % k]
    wraps = [n for n in ast.walk(si.node) if isinstance(n, ast.If) and isinstance(n.test, ast.UnaryOp) and isinstance(n.test.op, ast.Not)
             and isinstance(n.test.operand, ast.Call) and is_name(n.test.operand.func, "isinstance") and is_name(n.test.operand.args[0], v)
             and any(isinstance(b, ast.Assign) and is_name(b.targets[0], v) and norm(b.value) == "[%s]" % v for b in n.body)]
    ok = len(stores) == 1 and len(wraps) == 1 and cfg.dominates(cfg.node_for(wraps[0]).id, cfg.node_for(stores[0]).id) and is_name(stores[0].value, v)
    ctx.ob("R1", ok, "a scalar is wrapped into a one-item list before it is stored", func=si,
           sig="wrap dominates the store" if ok else "value stored without (or before) the list wrap")
    if wraps:
        types = wraps[0].test.operand.args[1]
        names = sorted(norm(e) for e in (types.elts if isinstance(types, ast.Tuple) else [types]))
        ctx.ob("R1", names == ["list", "tuple"], "sequences (list, tuple) are stored as they are", func=si, sig="unwrapped types %s" % names)
    up = A.methods.get("update")
    ctx.require(up is not None, "Attributes.update vanished")
    st = [n for n in ast.walk(up.node) if isinstance(n, ast.Assign) and isinstance(n.targets[0], ast.Subscript) and is_name(n.targets[0].value, "self")]
    ok = len(st) == 1 and enclosing(st[0], ast.For) is not None
    ctx.ob("R1", ok, "update() routes every item through self[k] = v", func=up, sig="update stores through %s" % ([norm(s.targets[0]) for s in st] or "something else"))
    ini = A.methods.get("__init__")
    ok = any(call_attr(c) == "update" and is_name(c.func.value, "self") and any(isinstance(a, ast.Starred) for a in c.args) for c in calls_in(ini.node))
    ctx.ob("R1", ok, "construction routes its arguments through update()", func=ini, sig="__init__ calls self.update(*args, **kwargs)" if ok else "__init__ bypasses update()")
    fs = require_func(ctx, "feature.Feature.__setitem__")
    st = [n for n in ast.walk(fs.node) if isinstance(n, ast.Assign) and norm(n.targets[0]).startswith("self.attributes[")]
    g = [(norm(t), pol) for t, pol in guards_of(st[0], fs.node)] if st else None
    ok = len(st) == 1 and g == [("isinstance(key, int)", False)]
    ctx.ob("R1", ok, "feature[key] = value with a non-integer key delegates to the attribute mapping", func=fs, sig="Feature.__setitem__ delegates under %s" % (g,))
    # nobody else writes the raw mapping
    for f in ctx.proj.funcs.values():
        if f.cls is A:
            continue
        for n in ast.walk(f.node):
            tg = n.targets if isinstance(n, ast.Assign) else [n.target] if isinstance(n, ast.AugAssign) else n.targets if isinstance(n, ast.Delete) else []
            for t in tg:
                if re.search(r"\._d\b", norm(t)):
                    ctx.ob("R1", False, "only the container writes its raw mapping", node=n, func=f, sig="%s writes %s" % (f.qual, norm(t)))
            if isinstance(n, ast.Call) and isinstance(n.func, ast.Attribute) and n.func.attr in MUTATORS and re.search(r"\._d\b", norm(n.func.value)):
                ctx.ob("R1", False, "only the container writes its raw mapping", node=n, func=f, sig="%s mutates %s" % (f.qual, norm(n.func.value)))


def r2(ctx):
    A = ctx.proj.cls("attributes.Attributes")
    readers = []
    writers = []
    for f in ctx.proj.funcs.values():
        for n in ast.walk(f.node):
            if isinstance(n, ast.Attribute) and n.attr == "always_return_list":
                if isinstance(n.ctx, ast.Store):
                    writers.append((f, n))
                else:
                    readers.append((f, n))
    ctx.floor("R2", len(readers), 1, "reads of constants.always_return_list")
    for f, n in readers:
        ok = (f.cls is A and f.name == "__getitem__") or f.qual == "interface.FeatureDB.bed12"
        ctx.ob("R2", ok, "the always_return_list switch is consulted only when a value is viewed (Attributes.__getitem__)", node=n, func=f,
               sig="always_return_list read in %s" % f.qual.split(".", 1)[1])
    gi = A.methods.get("__getitem__")
    cfg = cfg_of(gi)
    rets = [n for n in ast.walk(gi.node) if isinstance(n, ast.Return)]
    first = [r for r in rets if any(norm(t) == "constants.always_return_list" and pol for t, pol in guards_of(r, gi.node))]
    ok = len(first) == 1 and is_name(first[0].value, "v")
    ctx.ob("R2", ok, "with the switch on, the stored list is returned as is", func=gi, sig="switch on -> %s" % (norm(first[0].value) if first else None))
    un = [n for n in ast.walk(gi.node) if isinstance(n, ast.If) and "len(v) == 1" in norm(n.test)]
    ok = len(un) == 1 and any(isinstance(b, ast.Assign) and norm(b.value) == "v[0]" for b in un[0].body)
    ctx.ob("R2", ok, "with the switch off, only a one-item list is viewed as its item", func=gi, sig="switch off -> %s" % (norm(un[0].test) if un else None))
    stores = [n for n in ast.walk(gi.node) if isinstance(n, (ast.Assign, ast.AugAssign)) and "self._d" in norm(n.targets[0] if isinstance(n, ast.Assign) else n.target)]
    ctx.ob("R2", not stores, "viewing never changes what is stored", func=gi, sig="__getitem__ stores %s" % [norm(s) for s in stores])
    # bed12 saves and restores
    for f, n in writers:
        ctx.ob("R2", f.qual == "interface.FeatureDB.bed12", "the switch is only ever set (temporarily) by bed12", node=n, func=f,
               sig="always_return_list written in %s" % f.qual.split(".", 1)[1], nontrivial=False)
    b = ctx.proj.maybe_func("interface.FeatureDB.bed12")
    if b is not None and any(f is b for f, _ in writers):
        bcfg = cfg_of(b)
        ws = [p for f, n in writers if f is b for p in parents(n) if isinstance(p, ast.Assign)]
        saves = [n for n in ast.walk(b.node) if isinstance(n, ast.Assign) and norm(n.value) == "constants.always_return_list"]
        restore = [w for w in ws if saves and is_name(w.value, saves[0].targets[0].id)]
        sets = [w for w in ws if w not in restore]
        ok = bool(saves) and bool(restore) and bool(sets) and all(bcfg.postdominates(bcfg.node_for(restore[0]).id, bcfg.node_for(s).id) for s in sets) \
            and bcfg.dominates(bcfg.node_for(saves[0]).id, bcfg.node_for(sets[0]).id)
        ctx.ob("R2", ok, "bed12 restores the switch to its saved value on every normal path", func=b,
               sig="bed12 saves/sets/restores the switch" if ok else "bed12 can leave the switch changed")


def r4(ctx):
    f = require_func(ctx, "helpers.merge_attributes")
    a1, a2 = f.params[0], f.params[1]
    tainted = {a1, a2}
    # loop variables bound from the parameters' items are aliases of the caller's objects
    for n in ast.walk(f.node):
        if isinstance(n, ast.For) and any(isinstance(x, ast.Name) and x.id in (a1, a2) for x in ast.walk(n.iter)):
            for x in ast.walk(n.target):
                if isinstance(x, ast.Name):
                    tainted.add(x.id)
    rebound = set()
    bad = []
    for n in ast.walk(f.node):
        tg = n.targets if isinstance(n, ast.Assign) else [n.target] if isinstance(n, ast.AugAssign) else n.targets if isinstance(n, ast.Delete) else []
        for t in tg:
            b = t
            while isinstance(b, (ast.Attribute, ast.Subscript)):
                b = b.value
            if isinstance(b, ast.Name) and b.id in tainted and not isinstance(t, ast.Name):
                bad.append(n)
        if isinstance(n, ast.Call) and isinstance(n.func, ast.Attribute) and n.func.attr in MUTATORS:
            b = n.func.value
            while isinstance(b, (ast.Attribute, ast.Subscript)):
                b = b.value
            if isinstance(b, ast.Name) and b.id in tainted:
                # `v = [v]` re-binds the alias to a fresh list before any mutation?  be strict: report
                bad.append(n)
    ctx.ob("R4", not bad, "merge_attributes never stores through its arguments or their values", func=f,
           sig="no store through the arguments" if not bad else "store through an argument: %s" % norm(bad[0]))
    # every flow of an argument as a value goes through deepcopy
    flows = []
    for n in ast.walk(f.node):
        if isinstance(n, ast.Name) and n.id in (a1, a2) and isinstance(n.ctx, ast.Load):
            par = n._parent
            if isinstance(par, ast.Attribute) and par.attr in ("items", "keys", "values", "get"):
                continue
            if isinstance(par, ast.Compare):
                continue
            if isinstance(par, ast.Subscript) and par.value is n and isinstance(par.ctx, ast.Load) and not isinstance(getattr(par, "_parent", None), (ast.Call,)):
                continue
            flows.append((n, par))
    ctx.floor("R4", len(flows), 2, "value uses of the two argument mappings")
    for n, par in flows:
        ok = isinstance(par, ast.Call) and norm(par.func) in ("copy.deepcopy", "deepcopy") and par.args and par.args[0] is n
        ctx.ob("R4", ok, "each argument mapping is deep-copied before it is merged into the result", node=n, func=f,
               sig="%s flows through deepcopy" % n.id if ok else "%s used without deepcopy: %s" % (n.id, norm(par)[:60]))
    # per key: sorted duplicate-free union
    rets = [n for n in ast.walk(f.node) if isinstance(n, ast.Return)]
    plain = [r for r in rets if any((norm(t) == "numeric_sort" and not pol) or (norm(t) == "not numeric_sort" and pol) for t, pol in guards_of(r, f.node))]
    ok = len(plain) == 1 and "sorted(set(v))" in norm(plain[0].value)
    ctx.ob("R4", ok, "without numeric_sort each key maps to sorted(set(values))", func=f, sig="plain result %s" % (norm(plain[0].value) if plain else None))
    tries = [n for n in ast.walk(f.node) if isinstance(n, ast.Try)]
    ok = len(tries) == 1 and any(h.type is not None and "ValueError" in norm(h.type) for h in tries[0].handlers)
    body = " ".join(norm(b) for b in tries[0].body) if tries else ""
    hb = " ".join(norm(b) for h in (tries[0].handlers if tries else []) for b in h.body)
    ok = ok and "float(v)" in body and "set(values)" in body and "sorted(" in body and "sorted(set(values))" in hb
    ctx.ob("R4", ok, "with numeric_sort values are ordered by float value when all are numbers, else as without", func=f,
           sig="numeric sort with ValueError fallback to sorted(set(values))" if ok else "numeric sort path changed: try=%s except=%s" % (body[:60], hb[:40]))
    ext = [c for c in calls_in(f.node) if call_attr(c) == "extend"]
    ok = len(ext) == 1 and norm(ext[0].func.value) == "new_d[k]" and any(norm(t) == "k in %s" % a2 and pol for t, pol in guards_of(ext[0], f.node))
    lp = enclosing(ext[0], ast.For) if ext else None
    ok = ok and lp is not None and norm(lp.iter) == "%s.items()" % a1
    ctx.ob("R4", ok, "for keys present in both, the first mapping's values are added to the (copied) second mapping's", func=f,
           sig="union: %s over %s" % (norm(ext[0]) if ext else None, norm(lp.iter) if lp is not None else None))


def r5(ctx):
    for name, want in (("__hash__", "hash(str(self))"), ("__eq__", "str(self) == str(other)"), ("__ne__", "str(self) != str(other)")):
        f = require_func(ctx, "feature.Feature." + name)
        r = [n for n in ast.walk(f.node) if isinstance(n, ast.Return)]
        got = norm(r[0].value) if len(r) == 1 else None
        alts = {want, want.replace("str(self) == str(other)", "str(other) == str(self)"), want.replace("str(self) != str(other)", "not self == other"),
                want.replace("str(self) != str(other)", "not self.__eq__(other)")}
        ctx.ob("R5", got in alts, "Feature.%s is a function of the printed line only" % name, func=f, sig="%s = %s" % (name, got))
    st = require_func(ctx, "feature.Feature.__str__")
    r = [n for n in ast.walk(st.node) if isinstance(n, ast.Return)]
    ok = len(r) == 1 and norm(r[0].value) == "self.__unicode__()"
    ctx.ob("R5", ok, "str(feature) is the printed line", func=st, sig="__str__ = %s" % (norm(r[0].value) if r else None))


def check(ctx):
    ctx.explanation = (
        "Who-writes rule on Attributes._d (only __setitem__ after the list wrap, and __delitem__; __init__/update route through "
        "__setitem__); who-reads rule on constants.always_return_list (only the view in __getitem__, saved/restored in bed12, checked by "
        "post-dominance); JSON codec pairing re-uses C01.R3; merge_attributes is checked for stores through its arguments (taint from the "
        "parameters and loop variables over them), for deepcopy on every value flow, and for the sorted(set()) result shape; equality and "
        "hash must be functions of str(self). Does not decide JSON identity for arbitrary Unicode (simplejson's behaviour).")
    r1(ctx)
    r2(ctx)
    from . import c01
    n0 = len(ctx.obs)
    c01.r3(ctx)
    for o in ctx.obs[n0:]:
        o.rule = "C17.R3"
    r4(ctx)
    r5(ctx)
