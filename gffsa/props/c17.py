"""C17 -- attribute container, JSON storage form, feature equality."""
import ast
import re

from ..cfg import cfg_of
from ..model import norm, parents, enclosing
from ..util import require_func, calls_in, call_attr, is_name, const_str, kwarg, guards_of

MUTATORS = {"append", "extend", "update", "pop", "popitem", "sort", "clear", "setdefault", "remove", "insert", "reverse", "__setitem__", "__delitem__"}


def _traces(ctx, func, args, self_obj=None, overrides=None, summaries=None, copy_args=True):
    from ..absint import Interp, Unsupported
    it = Interp(ctx, overrides=overrides or {})
    for k, v in (summaries or {}).items():
        it.summaries[k] = v
    try:
        return it.run(func, args, self_obj=self_obj, copy_args=copy_args)
    except Unsupported as e:
        ctx.require(False, "%s outside the analysable subset: %s" % (func.qual, e))


def _attrs_obj(d=None):
    from ..absint import Opaque
    o = Opaque("A", "Attributes")
    o.attrs["_d"] = dict(d or {})
    return o


def r1(ctx):
    """The container: what ends up in the underlying mapping for scalars, lists and tuples, through item assignment,
    update() and construction -- by abstract evaluation of the class's own methods."""
    from ..absint import Opaque, Sym
    A = ctx.proj.cls("attributes.Attributes")
    for m in A.methods.values():
        ctx.touch(m)
    si = A.methods.get("__setitem__")
    ctx.require(si is not None, "Attributes.__setitem__ vanished")
    k_, v_ = [p for p in si.params if p != "self"][:2]
    sv = Sym("v", "str", True)
    L, T = [sv, Sym("w", "str", True)], (sv,)
    for label, val, want in (("a scalar", sv, [sv]), ("a list", L, L), ("a tuple", T, T), ("an empty string", "", [""]), ("None", None, [None]), ("a number", 5, [5])):
        o = _attrs_obj()
        _traces(ctx, si, {k_: "key", v_: val}, self_obj=o, copy_args=False)
        got = o.attrs["_d"].get("key", "missing")
        same = got is val if isinstance(val, (list, tuple)) else (isinstance(got, list) and len(got) == 1 and (got[0] is val or got[0] == val))
        ctx.ob("R1", same, "a scalar is wrapped into a one-item list before it is stored; sequences (list, tuple) are stored as they are", func=si,
               sig="storing %s -> %s" % (label, "as is" if isinstance(val, (list, tuple)) and same else "one-item list" if same else repr(got)))
    up = A.methods.get("update")
    ini = A.methods.get("__init__")
    ctx.require(up is not None and ini is not None, "Attributes.update / __init__ vanished")
    o = _attrs_obj()
    _traces(ctx, up, {"args": ({"a": sv, "b": L},), "c": "z"}, self_obj=o, copy_args=False)
    d = o.attrs["_d"]
    ok = isinstance(d.get("a"), list) and d.get("a") == [sv] and d.get("b") is L and d.get("c") == ["z"]
    ctx.ob("R1", ok, "update() routes every item through the same wrap", func=up, sig="update({a: scalar, b: list}, c=scalar) stores %s" % {k: ("list" if isinstance(v, list) else type(v).__name__) for k, v in d.items()})
    o = Opaque("A", "Attributes")
    _traces(ctx, ini, {"args": ({"a": sv, "b": L},), "c": "z"}, self_obj=o, copy_args=False)
    d = o.attrs.get("_d", {})
    ok = isinstance(d, dict) and isinstance(d.get("a"), list) and d.get("a") == [sv] and d.get("b") is L and d.get("c") == ["z"]
    ctx.ob("R1", ok, "construction routes its arguments through the same wrap", func=ini, sig="Attributes({a: scalar, b: list}, c=scalar) stores %s" % (
        {k: ("list" if isinstance(v, list) else type(v).__name__) for k, v in d.items()} if isinstance(d, dict) else d))
    o = Opaque("A", "Attributes")
    _traces(ctx, ini, {}, self_obj=o, copy_args=False)
    ctx.ob("R1", o.attrs.get("_d") == {}, "the underlying mapping is created empty", func=ini, sig="Attributes() stores %r" % (o.attrs.get("_d"),), nontrivial=False)
    fs = require_func(ctx, "feature.Feature.__setitem__")
    F = Opaque("F", "Feature")
    am = _attrs_obj()
    F.attrs.update(dict(attributes=am, seqid="chr1", start=1))
    _traces(ctx, fs, {"key": "Name", "value": sv}, self_obj=F, copy_args=False)
    ok = am.attrs["_d"].get("Name") == [sv]
    ctx.ob("R1", ok, "feature[key] = value with a non-integer key delegates to the attribute mapping (and is wrapped there)", func=fs, sig="feature['Name'] = scalar stores %r" % (am.attrs["_d"].get("Name"),))
    # nobody else writes the raw mapping
    n_w = 0
    for f in ctx.proj.funcs.values():
        if f.cls is A:
            continue
        for n in ast.walk(f.node):
            tg = n.targets if isinstance(n, ast.Assign) else [n.target] if isinstance(n, ast.AugAssign) else n.targets if isinstance(n, ast.Delete) else []
            for t in tg:
                if re.search(r"\._d\b", norm(t)):
                    n_w += 1
                    ctx.ob("R1", False, "only the container writes its raw mapping", node=n, func=f, sig="%s writes %s" % (f.qual, norm(t)))
            if isinstance(n, ast.Call) and isinstance(n.func, ast.Attribute) and n.func.attr in MUTATORS and re.search(r"\._d\b", norm(n.func.value)):
                n_w += 1
                ctx.ob("R1", False, "only the container writes its raw mapping", node=n, func=f, sig="%s mutates %s" % (f.qual, norm(n.func.value)))
    ctx.ob("R1", n_w == 0, "only the container writes its raw mapping", func=si, sig="no write of ._d outside Attributes", nontrivial=False)


def _saved_only(f, read):
    """the read is `name = <switch>` and `name` is only ever assigned back to the switch (save / restore)"""
    for st in ast.walk(f.node):
        if isinstance(st, ast.Assign) and st.value is read and len(st.targets) == 1 and isinstance(st.targets[0], ast.Name):
            nm = st.targets[0].id
            back = {id(a.value) for a in ast.walk(f.node) if isinstance(a, ast.Assign) and isinstance(a.value, ast.Name) and a.value.id == nm
                    and all(isinstance(t, ast.Attribute) and t.attr == "always_return_list" for t in a.targets)}
            uses = [x for x in ast.walk(f.node) if isinstance(x, ast.Name) and x.id == nm and isinstance(x.ctx, ast.Load)]
            return bool(uses) and all(id(u) in back for u in uses)
    return False


def r2(ctx):
    A = ctx.proj.cls("attributes.Attributes")
    readers = []
    writers = []
    for f in ctx.proj.funcs.values():
        for n in ast.walk(f.node):
            if isinstance(n, ast.Attribute) and n.attr == "always_return_list":
                if isinstance(n.ctx, ast.Store):
                    writers.append((f, n))
                else:
                    readers.append((f, n))
    ctx.floor("R2", len(readers), 1, "reads of constants.always_return_list")
    from ..util import closure
    gi0 = A.methods.get("__getitem__")
    b0 = ctx.proj.maybe_func("interface.FeatureDB.bed12")
    view_fns = ({gi0} | set(closure(ctx, gi0))) if gi0 is not None else set()
    bed_fns = ({b0} | set(closure(ctx, b0, depth=4, cross_module=True, private_only=False))) if b0 is not None else set()
    bed_fns -= view_fns
    for f, n in readers:
        ok = f in view_fns or f in bed_fns or _saved_only(f, n)
        ctx.ob("R2", ok, "the always_return_list switch is consulted only when a value is viewed (Attributes.__getitem__)", node=n, func=f,
               sig="always_return_list read in %s" % f.qual.split(".", 1)[1])
    gi = A.methods.get("__getitem__")
    from ..absint import Sym
    kp = [p for p in gi.params if p != "self"][0]
    one, two = [Sym("v", "str", True)], [Sym("v", "str", True), Sym("w", "str", True)]
    tup = (Sym("v", "str", True),)
    for switch in (True, False):
        for label, stored, want_unwrap in (("a one-item list", one, not switch), ("a two-item list", two, False), ("a one-item tuple", tup, False), ("an empty list", [], False)):
            o = _attrs_obj({"key": stored})
            traces = _traces(ctx, gi, {kp: "key"}, self_obj=o, overrides={("constants", "always_return_list"): switch}, copy_args=False)
            r = traces[0].result
            got = r[1] if r[0] == "return" else r
            ok = (got is stored[0]) if want_unwrap else (got is stored)
            ctx.ob("R2", ok and len(traces) == 1, ("with the switch on, the stored list is returned as is" if switch else
                                                  "with the switch off, only a one-item list is viewed as its item"), func=gi,
                   sig="always_return_list=%s, %s -> %s" % (switch, label, "its item" if got is (stored[0] if stored else None) and stored else "the stored value" if got is stored else repr(got)))
            ctx.ob("R2", o.attrs["_d"].get("key") is stored, "viewing never changes what is stored", func=gi, sig="after viewing %s (switch %s): stored value %s" % (
                label, switch, "unchanged" if o.attrs["_d"].get("key") is stored else "replaced"), nontrivial=False)
    # bed12 saves and restores
    for f, n in writers:
        ctx.ob("R2", f in bed_fns, "the switch is only ever set (temporarily) by bed12", node=n, func=f,
               sig="always_return_list written in %s" % f.qual.split(".", 1)[1], nontrivial=False)
    if writers:
        from .c18 import switch_restored
        switch_restored(ctx, rule="R2")


def r4(ctx):
    """helpers.merge_attributes evaluated on two small mappings: per key the sorted duplicate-free union, numeric order when
    asked for and possible, arguments and their lists untouched, nothing shared with the result."""
    import copy as _copy
    f = require_func(ctx, "helpers.merge_attributes")
    a1n, a2n = f.params[0], f.params[1]
    ns = f.params[2] if len(f.params) > 2 else "numeric_sort"

    def run(a1, a2, **kw):
        a = {a1n: a1, a2n: a2}
        a.update(kw)
        traces = _traces(ctx, f, a, copy_args=False)
        ctx.require(len(traces) == 1, "merge_attributes forks on concrete input")
        return traces[0].result
    a1 = {"k": ["b", "a"], "x": ["1"], "n": ["10", "9"], "m": ["a", "10"], "s": "scalar"}
    a2 = {"k": ["c", "a"], "n": ["100"], "m": ["b"], "y": ["2", "2"]}
    s1, s2 = _copy.deepcopy(a1), _copy.deepcopy(a2)
    r = run(a1, a2)
    want = {"k": ["a", "b", "c"], "x": ["1"], "n": ["10", "100", "9"], "m": ["10", "a", "b"], "s": ["scalar"], "y": ["2"]}
    got = r[1] if r[0] == "return" else r
    ctx.ob("R4", got == want, "without numeric_sort each key maps to the sorted, duplicate-free union of both mappings' values (scalars count as one value)", func=f,
           sig="plain result %s" % (got,))
    ctx.ob("R4", a1 == s1 and a2 == s2, "merge_attributes never stores through its arguments or their values", func=f,
           sig="no store through the arguments" if a1 == s1 and a2 == s2 else "arguments changed: %s / %s" % (a1, a2))
    shared = isinstance(got, dict) and any(v is w for v in got.values() for w in list(a1.values()) + list(a2.values()) if isinstance(w, list))
    ctx.ob("R4", not shared, "the result shares no list with its arguments", func=f, sig="result lists are fresh" if not shared else "a result list is an argument's list")
    r = run(_copy.deepcopy(a1), _copy.deepcopy(a2), **{ns: True})
    got = r[1] if r[0] == "return" else r
    want_n = dict(want, n=["9", "10", "100"])
    ctx.ob("R4", got == want_n, "with numeric_sort values are ordered by float value when all are numbers, else as without", func=f, sig="numeric result %s" % (got,))
    r = run({"v": ["5", "5.0"]}, {"v": ["4", "5"]}, **{ns: True})
    got = r[1] if r[0] == "return" else r
    ctx.ob("R4", got == {"v": ["4", "5", "5.0"]}, "numeric order never drops a value: different spellings of one number are all kept", func=f, sig="numeric result for 5, 5.0, 4, 5: %s" % (got,))
    r = run({}, {})
    ctx.ob("R4", r == ("return", {}), "two empty mappings give an empty mapping", func=f, sig="empty result %s" % (r[1:2],), nontrivial=False)


def r5(ctx):
    """Equality and hash are functions of the printed line: evaluated with str() of three features summarised as L1, L1, L2."""
    from ..absint import Opaque
    lines = {"A": "L1", "B": "L1", "C": "L2"}
    summ = {"feature.Feature.__str__": lambda i, pos, kw, node: lines[pos[0].name], "feature.Feature.__unicode__": lambda i, pos, kw, node: lines[pos[0].name]}

    def mk(n):
        o = Opaque(n, "Feature")
        o.attrs["id"] = "same-id"
        return o
    for name, table in (("__eq__", {("A", "B"): True, ("A", "C"): False, ("A", "A"): True}), ("__ne__", {("A", "B"): False, ("A", "C"): True, ("A", "A"): False})):
        f = require_func(ctx, "feature.Feature." + name)
        op = [p for p in f.params if p != "self"][0]
        got = {}
        for (x, y), want in table.items():
            tr = _traces(ctx, f, {op: mk(y)}, self_obj=mk(x), summaries=summ)
            got[(x, y)] = tr[0].result[1] if len(tr) == 1 and tr[0].result[0] == "return" else tr[0].result
        ctx.ob("R5", got == table, "Feature.%s is a function of the printed line only" % name, func=f, sig="%s on lines (L1,L1), (L1,L2), same object: %s" % (name, [got[k] for k in table]))
    f = require_func(ctx, "feature.Feature.__hash__")
    hs = {}
    for n in ("A", "B", "C"):
        tr = _traces(ctx, f, {}, self_obj=mk(n), summaries=summ)
        hs[n] = tr[0].result[1] if tr[0].result[0] == "return" else tr[0].result
    ok = hs["A"] == hs["B"] == ("hash-of", "L1") and hs["C"] == ("hash-of", "L2")
    ctx.ob("R5", ok, "Feature.__hash__ is a function of the printed line only (equal lines hash alike)", func=f, sig="hashes: %s" % hs)
    st = require_func(ctx, "feature.Feature.__str__")
    tr = _traces(ctx, st, {}, self_obj=mk("C"), summaries={"feature.Feature.__unicode__": summ["feature.Feature.__unicode__"]})
    ctx.ob("R5", tr[0].result == ("return", "L2"), "str(feature) is the printed line", func=st, sig="__str__ -> %r" % (tr[0].result[1:2],), nontrivial=False)


def check(ctx):
    ctx.explanation = (
        "The container's own methods (__setitem__, update, __init__, __getitem__) and Feature.__setitem__ are evaluated abstractly on "
        "symbolic values; who-writes rule on Attributes._d outside the class; who-reads rule on constants.always_return_list (saved/restored "
        "in bed12, post-dominance); JSON codec pairing re-uses C01.R3; merge_attributes is evaluated on two mappings (result, arguments "
        "before/after, sharing); equality and hash are evaluated with the printed line summarised. Does not decide JSON identity for "
        "arbitrary Unicode (simplejson's behaviour).")
    r1(ctx)
    r2(ctx)
    from . import c01
    n0 = len(ctx.obs)
    c01.r3(ctx)
    for o in ctx.obs[n0:]:
        o.rule = "C17.R3"
    r4(ctx)
    r5(ctx)
