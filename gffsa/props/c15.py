"""C15 -- interfeatures, introns, splice sites: exact gap geometry."""
import ast
import re

from ..cfg import cfg_of
from ..model import norm, parents, enclosing
from ..util import require_func, calls_in, call_attr, is_name, const_str, kwarg, guards_of


def affine(e, alias=None):
    """(base source text, constant) for  base [+|-] const ; .stop -> .end"""
    alias = alias or {}
    if isinstance(e, ast.BinOp) and isinstance(e.op, (ast.Add, ast.Sub)):
        sign = 1 if isinstance(e.op, ast.Add) else -1
        if isinstance(e.right, ast.Constant) and isinstance(e.right.value, int):
            b, c = affine(e.left, alias)
            return b, c + sign * e.right.value
        if isinstance(e.left, ast.Constant) and isinstance(e.left.value, int) and sign == 1:
            b, c = affine(e.right, alias)
            return b, c + e.left.value
    s = norm(e)
    if s.endswith(".stop"):
        s = s[:-5] + ".end"
    return s, 0


def slot_stores(fnode, dictname, key):
    out = []
    for n in ast.walk(fnode):
        if isinstance(n, (ast.Assign, ast.AugAssign)):
            t = n.targets[0] if isinstance(n, ast.Assign) else n.target
            if isinstance(t, ast.Subscript) and is_name(t.value, dictname) and const_str(t.slice) == key:
                out.append(n)
    return sorted(out, key=lambda n: n.lineno)


def r1_r2(ctx):
    f = require_func(ctx, "interface.FeatureDB.interfeatures")
    prep = [g for lst in f.nested.values() for g in lst if g.name == "_prep_for_yield"]
    ctx.require(prep, "anchor vanished: interfeatures.<locals>._prep_for_yield")
    prep = prep[0]
    ctx.touch(prep)
    loops = [n for n in f.node.body if isinstance(n, ast.For)]
    ctx.require(loops, "interfeatures has no top-level loop over the features")
    loop = loops[-1]
    fv = loop.target.elts[-1].id if isinstance(loop.target, ast.Tuple) else loop.target.id
    # which local dict is finalised: argument of the _prep_for_yield call that is followed by the gap-coordinate stores
    pcalls = [c for c in calls_in(f.node) if is_name(c.func, "_prep_for_yield") and loop in list(parents(c))]
    ctx.floor("R1", len(pcalls), 1, "finalisation calls in interfeatures")
    main = pcalls[-1]
    dname = main.args[0].id if main.args and isinstance(main.args[0], ast.Name) else None
    ctx.require(dname, "_prep_for_yield is not called with a local dict")
    dparam = [p for p in prep.params][0]
    pcfg = cfg_of(prep)
    ctor = [c for c in calls_in(prep.node) if call_attr(c) == "_feature_returner"]
    ctx.require(ctor, "_prep_for_yield no longer builds the feature through _feature_returner")
    cn = pcfg.node_for(ctor[0]).id
    prev = None
    asg_prev = [n for n in ast.walk(loop) if isinstance(n, ast.Assign) and isinstance(n.targets[0], ast.Name) and is_name(n.value, fv)]
    prevs = {n.targets[0].id for n in asg_prev}
    ctx.require(len(prevs) == 1, "interfeatures no longer keeps the previous feature in one local (%s)" % sorted(prevs))
    prev = prevs.pop()
    tail = loop.body[-1]
    ok = isinstance(tail, ast.Assign) and is_name(tail.targets[0], prev) and is_name(tail.value, fv)
    ctx.ob("R1", ok, "after each pair the current feature becomes the previous one", node=tail, func=f,
           sig="end of pass: %s" % norm(tail))
    final = {}
    at_test = {}
    tests = [n for n in ast.walk(prep.node) if isinstance(n, ast.If) and any(isinstance(b, ast.Return) and
             (b.value is None or (isinstance(b.value, ast.Constant) and b.value.value is None)) for b in n.body)]
    for key, want_base, want_c in (("start", "%s.end" % prev, 1), ("end", "%s.start" % fv, -1)):
        main_stores = [n for n in slot_stores(loop, dname, key) if isinstance(n, ast.Assign)]
        ctx.floor("R1", len(main_stores), 1, "stores of the gap %s in the loop" % key)
        st = main_stores[-1]
        base, c = affine(st.value)
        c_test = c
        for a in slot_stores(prep.node, dparam, key):
            an = pcfg.node_for(a).id
            if isinstance(a, ast.AugAssign) and isinstance(a.value, ast.Constant) and isinstance(a.op, (ast.Add, ast.Sub)) and pcfg.dominates(an, cn):
                delta = a.value.value if isinstance(a.op, ast.Add) else -a.value.value
                c += delta
                if tests and pcfg.dominates(an, pcfg.node_for(tests[0]).id):
                    c_test += delta
            elif isinstance(a, ast.Assign):
                b2, c2 = affine(a.value)
                if b2 == "%s['%s']" % (dparam, key):
                    c += c2
                    if tests and pcfg.dominates(an, pcfg.node_for(tests[0]).id):
                        c_test += c2
                else:
                    base, c = "?" + b2, c2
        final[key] = (base, c)
        at_test[key] = c_test
        ok = (base, c) == (want_base, want_c)
        ctx.ob("R1", ok, "the gap's %s is %s %+d" % (key, "previous.end" if key == "start" else "next.start", want_c), node=st, func=f,
               sig="gap %s = %s %+d" % (key, re.sub(r"\b%s\b" % fv, "next", re.sub(r"\b%s\b" % prev, "previous", base)), c))
    # ---- R2 suppression test
    ctx.ob("R2", len(tests) == 1, "touching/overlapping neighbours produce no feature (one suppression test returning None)", func=prep,
           sig="%d suppression test(s) in _prep_for_yield" % len(tests))
    if len(tests) == 1:
        t = tests[0]
        from ..decide import py_pred
        def resolve(n):
            s = norm(n)
            if s == "%s['start']" % dparam:
                return "s"
            if s == "%s['end']" % dparam:
                return "e"
            return None
        try:
            pred = py_pred(t.test, resolve)
            bad = None
            ds = at_test["start"] - final["start"][1]
            de = at_test["end"] - final["end"][1]
            for s in range(-4, 5):
                for e in range(-4, 5):
                    # s, e are the FINAL coordinates; the test sees them shifted by what is applied after it
                    if bool(pred({"s": s + ds, "e": e + de})) != (s > e):
                        bad = (s, e)
            ctx.ob("R2", bad is None, "a gap is suppressed exactly when its final start > end (one-base gaps are kept)", node=t, func=prep,
                   sig="suppression test `%s` ≡ start > end" % norm(t.test) if bad is None else
                   "suppression test `%s` wrong for final (start, end) = %s" % (norm(t.test), bad))
        except ValueError:
            ctx.ob("R2", False, "the suppression test compares the gap's start and end", node=t, func=prep, sig="suppression test %s" % norm(t.test))
        ok = pcfg.dominates(pcfg.node_for(t).id, cn)
        ctx.ob("R2", ok, "the suppression test precedes the construction of the feature", node=t, func=prep,
               sig="suppression dominates construction" if ok else "feature constructed before the suppression test", nontrivial=False)
    # the yield is guarded by the truth of the finalised feature
    for c in pcalls:
        st = None
        for p in parents(c):
            if isinstance(p, ast.Assign):
                st = p
                break
        nm = st.targets[0].id if st is not None and isinstance(st.targets[0], ast.Name) else None
        ys = [y for y in ast.walk(loop) if isinstance(y, ast.Yield) and is_name(y.value, nm) and y.lineno > c.lineno]
        ok = bool(ys) and any((nm, True) in [(norm(t), pol) for t, pol in guards_of(y, f.node)] for y in ys[:1])
        ctx.ob("R2", ok, "a suppressed gap (None) is not yielded", node=c, func=f, sig="yield of %s guarded by its truth" % nm if ok else "yield of %s unguarded" % nm, nontrivial=False)
    # bin recomputed from the final coordinates
    bc = [c for c in calls_in(prep.node) if norm(c.func) == "bins.bins"]
    ok = bool(bc) and [norm(a) for a in bc[0].args[:2]] == ["%s['start']" % dparam, "%s['end']" % dparam]
    ctx.ob("R1", ok, "the gap's bin is recomputed from its final coordinates", func=prep, sig="gap bin := %s" % (norm(bc[0]) if bc else None), nontrivial=False)
    return f, loop, fv, prev, dname, pcalls


def const_prop(cfg, var, func_node):
    """Forward constant propagation for one integer local over the CFG.
    Returns {node id: value at entry} with value in int | 'TOP' | None(bottom)."""
    IN = {n.id: None for n in cfg.nodes}
    OUT = {n.id: None for n in cfg.nodes}

    def transfer(node, v):
        st = node.stmt
        if isinstance(st, ast.Assign) and len(st.targets) == 1 and is_name(st.targets[0], var) and node.kind == "stmt":
            if isinstance(st.value, ast.Constant) and isinstance(st.value.value, int):
                return st.value.value
            return "TOP"
        if isinstance(st, ast.AugAssign) and is_name(st.target, var) and node.kind == "stmt":
            if isinstance(v, int) and isinstance(st.value, ast.Constant) and isinstance(st.op, ast.Add):
                return v + st.value.value
            if isinstance(v, int) and isinstance(st.value, ast.Constant) and isinstance(st.op, ast.Sub):
                return v - st.value.value
            return "TOP" if v is not None else None
        if isinstance(st, (ast.For,)) and node.kind == "loop":
            if any(isinstance(x, ast.Name) and x.id == var for x in ast.walk(st.target)):
                return "TOP"
        return v

    def join(a, b):
        if a is None:
            return b
        if b is None:
            return a
        if a == b:
            return a
        return "TOP"
    IN[cfg.entry.id] = None  # unbound: reading it raises, so it contributes no value
    changed = True
    it = 0
    while changed and it < 200:
        changed = False
        it += 1
        for n in cfg.nodes:
            v = IN[n.id] if n.id == cfg.entry.id else None
            if n.id != cfg.entry.id:
                for p, _l in cfg.pred[n.id]:
                    v = join(v, OUT[p])
            if v != IN[n.id]:
                IN[n.id] = v
                changed = True
            o = transfer(n, IN[n.id])
            if o != OUT[n.id]:
                OUT[n.id] = o
                changed = True
    return IN


def r3(ctx, f, loop, fv, prev):
    cfg = cfg_of(f)
    # the seqid-change branch: an `if` comparing the chromosomes of current and previous
    branches = [n for n in loop.body if isinstance(n, ast.If) and isinstance(n.test, ast.Compare) and isinstance(n.test.ops[0], ast.NotEq)
                and {norm(n.test.left), norm(n.test.comparators[0])} in ({"%s.chrom" % fv, "%s.chrom" % prev}, {"%s.seqid" % fv, "%s.seqid" % prev})]
    ctx.ob("R3", len(branches) == 1, "a change of seqid is recognised by comparing the neighbours' seqids", node=loop, func=f,
           sig="%d seqid-change branch(es)" % len(branches))
    if len(branches) != 1:
        return
    br = branches[0]
    ends = br.body[-1]
    ok = isinstance(ends, ast.Continue)
    ctx.ob("R3", ok, "after a change of seqid the pass ends without building a gap for this pair", node=br, func=f,
           sig="seqid-change branch ends with continue" if ok else "seqid-change branch falls through to the gap construction")
    re_init = [n for n in br.body if isinstance(n, ast.Assign) and is_name(n.targets[0], prev) and is_name(n.value, fv)]
    ctx.ob("R3", bool(re_init), "the first feature of the new seqid becomes the previous feature", node=br, func=f,
           sig="seqid-change branch restarts from the current feature" if re_init else "seqid-change branch keeps the old previous feature")
    ys = [y for y in ast.walk(br) if isinstance(y, ast.Yield)]
    for y in ys:
        # every yield in this branch must be dead: decide its guards by constant propagation
        dead = False
        why = "unguarded"
        for t, pol in guards_of(y, br):
            if isinstance(t, ast.Compare) and isinstance(t.left, ast.Name) and isinstance(t.comparators[0], ast.Constant):
                var = t.left.id
                vals = const_prop(cfg, var, f.node)
                tn = None
                for p in parents(y):
                    if isinstance(p, ast.If) and p.test is t:
                        tn = cfg.node_for(p)
                v = vals.get(tn.id) if tn is not None else "TOP"
                why = "%s = %s at the test" % (var, v)
                if isinstance(v, int):
                    c = t.comparators[0].value
                    res = {ast.Gt: v > c, ast.GtE: v >= c, ast.Lt: v < c, ast.LtE: v <= c, ast.Eq: v == c, ast.NotEq: v != c}[type(t.ops[0])]
                    if res != pol:
                        dead = True
        ctx.ob("R3", dead, "no feature is emitted when the seqid changes (a yield in that branch must be unreachable)", node=y, func=f,
               sig="yield in the seqid-change branch is dead (%s)" % why if dead else "yield in the seqid-change branch is live (%s)" % why,
               detail=None if dead else "it would re-emit the previous gap, or one spanning two sequences")


def r4_r5(ctx, f, loop, fv, prev, dname):
    # strand
    st = [n for n in loop.body if isinstance(n, ast.If) and any(isinstance(b, ast.Assign) and norm(b.targets[0]) == "%s['strand']" % dname for b in n.body)]
    ctx.ob("R4", len(st) == 1, "the gap's strand is decided from both neighbours", node=loop, func=f, sig="%d strand decision(s)" % len(st))
    if len(st) == 1:
        n = st[0]
        t = n.test
        sides = {norm(t.left), norm(t.comparators[0])} if isinstance(t, ast.Compare) and len(t.ops) == 1 else set()
        ok_sides = sides == {"%s.strand" % prev, "%s.strand" % fv}
        tv = norm(n.body[0].value)
        ev = norm(n.orelse[0].value) if n.orelse and isinstance(n.orelse[0], ast.Assign) else None
        if ok_sides and isinstance(t.ops[0], ast.NotEq):
            ok = tv == "'.'" and ev in ("%s.strand" % fv, "%s.strand" % prev)
        elif ok_sides and isinstance(t.ops[0], ast.Eq):
            ok = ev == "'.'" and tv in ("%s.strand" % fv, "%s.strand" % prev)
        else:
            ok = False
        ctx.ob("R4", ok, "equal strands are kept, different strands give '.'", node=n, func=f,
               sig="strand: if %s then %s else %s" % (norm(t), tv, ev))
    ft = [n for n in loop.body if isinstance(n, ast.If) and any(isinstance(b, ast.Assign) and norm(b.targets[0]) == "%s['featuretype']" % dname for b in n.body)]
    ctx.ob("R4", len(ft) == 1, "the gap's type is decided once", node=loop, func=f, sig="%d featuretype decision(s)" % len(ft), nontrivial=False)
    if len(ft) == 1:
        n = ft[0]
        a, b = n.body[0].value, (n.orelse[0].value if n.orelse else None)
        t = norm(n.test)
        if t == "new_featuretype is None":
            auto, given = a, b
        elif t in ("new_featuretype is not None", "new_featuretype"):
            auto, given = b, a
        else:
            auto = given = None
        ok = given is not None and norm(given) == "new_featuretype"
        ctx.ob("R4", ok, "a given new_featuretype is used as is", node=n, func=f, sig="type when given: %s" % (norm(given) if given is not None else t))
        from .c04 import fmt_shape
        sh = fmt_shape(auto) if auto is not None else None
        ok = sh == ["inter_", ("expr", "%s.featuretype" % prev), "_", ("expr", "%s.featuretype" % fv)]
        ctx.ob("R4", ok, "otherwise the type is inter_<previous type>_<next type>", node=n, func=f,
               sig="automatic type %s" % ([x if isinstance(x, str) else re.sub(r"\b%s\b" % fv, "next", re.sub(r"\b%s\b" % prev, "previous", x[1])) for x in sh] if sh else None))
    # attributes
    mc = [c for c in calls_in(f.node) if norm(c.func) == "helpers.merge_attributes" and loop in list(parents(c))]
    ctx.ob("R5", len(mc) == 1, "attributes are united by helpers.merge_attributes", node=loop, func=f, sig="%d merge_attributes call(s)" % len(mc))
    if len(mc) == 1:
        c = mc[0]
        args = [norm(a) for a in c.args]
        ok = args == ["attribute_func(%s.attributes)" % prev, "attribute_func(%s.attributes)" % fv] and norm(kwarg(c, "numeric_sort") or ast.Constant(value=None)) == "numeric_sort"
        ctx.ob("R5", ok, "the union is taken over (previous, next) attributes with the caller's numeric_sort", node=c, func=f,
               sig="merge_attributes(%s, numeric_sort=%s)" % (", ".join(args), norm(kwarg(c, "numeric_sort")) if kwarg(c, "numeric_sort") is not None else None))
        g = [(norm(t), pol) for t, pol in guards_of(c, loop)]
        ctx.ob("R5", g == [("merge_attributes", True)], "...exactly when merge_attributes is on", node=c, func=f, sig="union guarded by %s" % g, nontrivial=False)
        cfg = cfg_of(f)
        ua = [x for x in calls_in(f.node) if call_attr(x) == "update" and x.args and is_name(x.args[0], "update_attributes")]
        ok = bool(ua) and cfg.node_for(ua[0]).id in cfg.reachable(cfg.node_for(c).id)
        ctx.ob("R5", ok, "update_attributes is applied after the union", func=f, sig="update_attributes applied after merging" if ok else "update_attributes not applied after merging")
        st = [n for n in loop.body if isinstance(n, ast.Assign) and norm(n.targets[0]) == "%s['attributes']" % dname]
        ok = bool(st) and bool(ua) and st[-1].lineno > ua[0].lineno and is_name(st[-1].value, norm(ua[0].func.value))
        ctx.ob("R5", ok, "the gap carries the united (and updated) attributes", func=f, sig="gap attributes := %s" % (norm(st[-1].value) if st else None), nontrivial=False)
    prep = [g for lst in f.nested.values() for g in lst if g.name == "_prep_for_yield"][0]
    j = [c for c in calls_in(prep.node) if call_attr(c) == "join" and const_str(c.func.value) is not None and "ID" in norm(c)]
    ok = bool(j) and const_str(j[0].func.value) == "-"
    ctx.ob("R5", ok, "several ID values are joined by '-' into one", func=prep, sig="ID values joined by %r" % (const_str(j[0].func.value) if j else None))
    g = []
    if j:
        g = [norm(t) for t, pol in guards_of(j[0], prep.node) if pol]
    ctx.ob("R5", any("len(" in x and "> 1" in x for x in g), "...only when there are several", func=prep, sig="ID join guard %s" % g, nontrivial=False)


def _label_table(body, upto):
    """Evaluate the label cascade for (side, strand) in order."""
    out = {}
    for side in ("left", "right"):
        for strand in ("+", "-", "."):
            env = {"side": side, "strand": strand}
            val = {}

            def ev(t):
                if isinstance(t, ast.Compare) and len(t.ops) == 1 and isinstance(t.left, ast.Name) and isinstance(t.comparators[0], ast.Constant):
                    r = env.get(t.left.id) == t.comparators[0].value
                    return r if isinstance(t.ops[0], ast.Eq) else (not r)
                if isinstance(t, ast.BoolOp):
                    vs = [ev(v) for v in t.values]
                    return all(vs) if isinstance(t.op, ast.And) else any(vs)
                raise ValueError(norm(t))

            def run(stmts):
                for st in stmts:
                    if st is upto:
                        return True
                    if isinstance(st, ast.Assign) and isinstance(st.targets[0], ast.Name):
                        if isinstance(st.value, ast.Constant):
                            val[st.targets[0].id] = st.value.value
                        elif isinstance(st.value, ast.Subscript) and isinstance(st.value.value, ast.Dict):
                            d = {}
                            for k, v in zip(st.value.value.keys, st.value.value.values):
                                kk = tuple(e.value for e in k.elts) if isinstance(k, ast.Tuple) else getattr(k, "value", None)
                                d[kk] = getattr(v, "value", None)
                            key = st.value.slice
                            kk = tuple(env.get(e.id) for e in key.elts) if isinstance(key, ast.Tuple) else env.get(getattr(key, "id", None))
                            val[st.targets[0].id] = d.get(kk)
                        elif isinstance(st.value, ast.Call) and call_attr(st.value) == "get" and isinstance(st.value.func.value, ast.Dict):
                            d = {}
                            for k, v in zip(st.value.func.value.keys, st.value.func.value.values):
                                kk = tuple(e.value for e in k.elts) if isinstance(k, ast.Tuple) else getattr(k, "value", None)
                                d[kk] = getattr(v, "value", None)
                            key = st.value.args[0]
                            kk = tuple(env.get(e.id) for e in key.elts) if isinstance(key, ast.Tuple) else env.get(getattr(key, "id", None))
                            dflt = st.value.args[1].value if len(st.value.args) > 1 and isinstance(st.value.args[1], ast.Constant) else None
                            val[st.targets[0].id] = d.get(kk, dflt)
                    elif isinstance(st, ast.If):
                        try:
                            t = ev(st.test)
                        except ValueError:
                            continue
                        if run(st.body if t else st.orelse):
                            return True
                return False
            run(body)
            out[(side, strand)] = val.get("new_featuretype")
    return out


def r6_r7(ctx):
    ss = require_func(ctx, "interface.FeatureDB.create_splice_sites")
    ic = [c for c in calls_in(ss.node) if call_attr(c) == "interfeatures"]
    ctx.require(ic, "create_splice_sites no longer calls interfeatures")
    iloop = enclosing(ic[0], ast.For)
    ctx.require(iloop is not None and isinstance(iloop.target, ast.Name), "create_splice_sites no longer loops over interfeatures")
    sv = iloop.target.id
    geo = {}
    for n in ast.walk(iloop):
        if isinstance(n, ast.Assign) and isinstance(n.targets[0], ast.Attribute) and is_name(n.targets[0].value, sv):
            g = [(norm(t), pol) for t, pol in guards_of(n, iloop)]
            side = None
            for t, pol in g:
                if pol and t in ("side == 'left'", "side == 'right'"):
                    side = t.split("'")[1]
            geo[(side, n.targets[0].attr)] = affine(n.value)
    want = {("left", "end"): ("%s.start" % sv, 1), ("right", "start"): ("%s.end" % sv, -1)}
    for k, w in want.items():
        ctx.ob("R6", geo.get(k) == w, "the %s splice site is the two bases %s" % (k[0], "[start, start+1]" if k[0] == "left" else "[end-1, end]"), func=ss,
               sig="%s site %s := %s" % (k[0], k[1], "%s %+d" % geo[k] if k in geo else None))
    extra = [k for k in geo if k not in want]
    ctx.ob("R6", not extra, "nothing else of the intron's coordinates is changed", func=ss, sig="other coordinate stores %s" % sorted(map(str, extra)), nontrivial=False)
    child_loop = enclosing(iloop, ast.For)
    ctx.require(child_loop is not None, "create_splice_sites structure changed")
    table = _label_table(child_loop.body, iloop)
    want_t = {("left", "+"): "five_prime_cis_splice_site", ("left", "-"): "three_prime_cis_splice_site",
              ("right", "+"): "three_prime_cis_splice_site", ("right", "-"): "five_prime_cis_splice_site",
              ("left", "."): "splice_site", ("right", "."): "splice_site"}
    for k in sorted(want_t):
        ctx.ob("R6", table.get(k) == want_t[k], "a %s site on a '%s' transcript is labelled %s" % (k[0], k[1], want_t[k]), func=ss,
               sig="label(%s, %s) = %s" % (k[0], k[1], table.get(k)))
    st = [n for n in ast.walk(child_loop) if isinstance(n, ast.Assign) and is_name(n.targets[0], "strand")]
    cv = child_loop.target.id if isinstance(child_loop.target, ast.Name) else None
    ok = bool(st) and norm(st[0].value) == "%s.strand" % cv
    ctx.ob("R6", ok, "the label follows the transcript's strand", func=ss, sig="strand := %s" % (norm(st[0].value) if st else None), nontrivial=False)
    sides = enclosing(child_loop, ast.For)
    ok = sides is not None and isinstance(sides.iter, (ast.List, ast.Tuple)) and sorted(e.value for e in sides.iter.elts) == ["left", "right"]
    ctx.ob("R6", ok, "both sides of every intron are produced", func=ss, sig="sides iterated: %s" % (norm(sides.iter) if sides is not None else None))
    nf = kwarg(ic[0], "new_featuretype")
    ctx.ob("R6", nf is not None and norm(nf) == "new_featuretype", "the label is the site's featuretype", func=ss, sig="interfeatures(new_featuretype=%s)" % (norm(nf) if nf is not None else None), nontrivial=False)
    # ---- R7
    for qual in ("interface.FeatureDB.create_introns", "interface.FeatureDB.create_splice_sites"):
        g = require_func(ctx, qual)
        cc = [c for c in calls_in(g.node) if call_attr(c) == "children" and kwarg(c, "order_by") is not None]
        ctx.floor("R7", len(cc), 1, "exon queries in %s" % g.name)
        for c in cc:
            lv, ft, ob = kwarg(c, "level"), kwarg(c, "featuretype"), kwarg(c, "order_by")
            ok = lv is not None and norm(lv) == "1" and ft is not None and norm(ft) == "exon_featuretype" and const_str(ob) == "start" and kwarg(c, "reverse") is None
            ctx.ob("R7", ok, "%s takes each transcript's level-1 exons of the requested type ordered by start" % g.name, node=c, func=g,
                   sig="%s exons: %s" % (g.name, norm(c)))
            st = None
            for p in parents(c):
                if isinstance(p, ast.Assign):
                    st = p
            nm = st.targets[0].id if st is not None else None
            uses = [x for x in calls_in(g.node) if call_attr(x) == "interfeatures" and x.args and is_name(x.args[0], nm)]
            ctx.ob("R7", bool(uses), "...and hands them to interfeatures", node=c, func=g, sig="%s exons -> interfeatures" % g.name if uses else "%s exons unused" % g.name, nontrivial=False)
        for x in [x for x in calls_in(g.node) if call_attr(x) == "interfeatures"]:
            for k in ("merge_attributes", "numeric_sort"):
                v = kwarg(x, k)
                ctx.ob("R7", v is not None and norm(v) == k, "%s forwards %s" % (g.name, k), node=x, func=g, sig="%s %s=%s" % (g.name, k, norm(v) if v is not None else None), nontrivial=False)
        # grandparent / parent grouping
        ch = [c for c in calls_in(g.node, own=False) if call_attr(c) == "children" and kwarg(c, "order_by") is None]
        ok = any(kwarg(c, "level") is not None and norm(kwarg(c, "level")) == "1" for c in ch)
        ctx.ob("R7", ok, "%s: transcripts are the level-1 children of each grandparent feature" % g.name, func=g,
               sig="%s transcripts: %s" % (g.name, [norm(c) for c in ch]), nontrivial=False)


def r8(ctx, f, loop, fv, prev):
    bad = []
    for n in ast.walk(f.node):
        tg = []
        if isinstance(n, ast.Assign):
            tg = n.targets
        elif isinstance(n, ast.AugAssign):
            tg = [n.target]
        for t in tg:
            b = t
            while isinstance(b, (ast.Attribute, ast.Subscript)):
                b = b.value
            if isinstance(b, ast.Name) and b.id in (fv, prev) and not isinstance(t, ast.Name):
                bad.append(n)
    for n in ast.walk(f.node):
        if isinstance(n, ast.Call) and isinstance(n.func, ast.Attribute) and n.func.attr in ("update", "append", "extend", "pop", "setdefault", "clear"):
            b = n.func.value
            while isinstance(b, (ast.Attribute, ast.Subscript)):
                b = b.value
            if isinstance(b, ast.Name) and b.id in (fv, prev):
                bad.append(n)
    ctx.ob("R8", not bad, "interfeatures never stores into its input features", func=f,
           sig="no store through the inputs" if not bad else "store through an input: %s" % norm(bad[0]))
    init = [g for lst in f.nested.values() for g in lst if g.name == "_init_interfeature"]
    if init:
        g = init[0]
        ok = any(call_attr(c) == "astuple" for c in calls_in(g.node))
        ctx.ob("R8", ok, "the working record is built from a copy (astuple) of the first feature", func=g,
               sig="_init_interfeature copies through astuple()" if ok else "_init_interfeature aliases the input")


def check(ctx):
    ctx.explanation = (
        "Affine slot tracking from the stores of the gap's start/end through _prep_for_yield's adjustments to the feature construction "
        "(net previous.end+1 .. next.start-1, wherever the +-1 is written); the suppression test is compiled and compared with "
        "'final start > final end' on a grid; constant propagation over the CFG shows the yield in the seqid-change branch dead; strand / "
        "type / attribute rules are def-use facts; the splice-site label cascade is evaluated in order over {left,right} x {+,-,.}; "
        "create_introns/create_splice_sites must query level-1 children ordered by start. Does not decide the N-1 law or exact outputs "
        "over all ordered lists (runtime data).")
    f, loop, fv, prev, dname, pcalls = r1_r2(ctx)
    r3(ctx, f, loop, fv, prev)
    r4_r5(ctx, f, loop, fv, prev, dname)
    r6_r7(ctx)
    r8(ctx, f, loop, fv, prev)
